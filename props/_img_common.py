"""shared run-time oracle for persistence images (C04, C11): weighted kernel mass per pixel, computed independently of persim's kernels"""
import math
import random
import warnings

import numpy as np


def weight_value(kind, params, b, p):
    if kind == "persistence":
        return p ** params.get("n", 1.0)
    lo, hi, st, en = params.get("low", 0.0), params.get("high", 1.0), params.get("start", 0.0), params.get("end", 1.0)
    if p < st:
        return lo
    if p > en:
        return hi
    return (p - st) * (hi - lo) / (en - st) + lo


def cdf(kind, params, x, y, mu):
    from scipy.stats import multivariate_normal as mvn, norm
    if kind == "uniform":
        w, h = params.get("width", 1), params.get("height", 1)
        fx = min(max((x - (mu[0] - w / 2)) / w, 0), 1)
        fy = min(max((y - (mu[1] - h / 2)) / h, 0), 1)
        return fx * fy
    S = params["sigma"]
    if isinstance(S, (int, float)):
        S = [[S, 0.0], [0.0, S]]
    if S[0][1] == 0:
        return norm.cdf((x - mu[0]) / math.sqrt(S[0][0])) * norm.cdf((y - mu[1]) / math.sqrt(S[1][1]))
    return float(mvn(mean=mu, cov=S).cdf([x, y]))


def oracle_image(dgm, skew, birth_range, pers_range, ps, wkind, wparams, kkind, kparams, bpnts, ppnts):
    img = np.zeros((len(bpnts) - 1, len(ppnts) - 1))
    for (b, d) in dgm:
        p = d - b if skew else d
        w = weight_value(wkind, wparams, b, p)
        K = [[cdf(kkind, kparams, x, y, (b, p)) for y in ppnts] for x in bpnts]
        for a in range(len(bpnts) - 1):
            for c in range(len(ppnts) - 1):
                img[a, c] += w * (K[a + 1][c + 1] - K[a][c + 1] - K[a + 1][c] + K[a][c])
    return img


def make_imager(cfg):
    from persim import PersistenceImager
    return PersistenceImager(birth_range=tuple(cfg["birth_range"]), pers_range=tuple(cfg["pers_range"]), pixel_size=cfg["pixel_size"],
                             weight=cfg["weight"], weight_params=cfg["weight_params"], kernel=cfg["kernel"], kernel_params=cfg["kernel_params"])


def rand_cfg(rng):
    kk = rng.choice(["scalar", "iso", "diag", "corr", "corr", "uniform"])
    s1, s2 = 10 ** rng.uniform(-1.5, 0.5), 10 ** rng.uniform(-1.5, 0.5)
    if kk == "scalar":
        kernel, kp = "gaussian", {"sigma": s1}
    elif kk == "iso":
        kernel, kp = "gaussian", {"sigma": [[s1, 0.0], [0.0, s1]]}
    elif kk == "diag":
        kernel, kp = "gaussian", {"sigma": [[s1, 0.0], [0.0, s2]]}
    elif kk == "corr":
        r = rng.choice([0.2, 0.5, 0.8, 0.93, 0.97]) * rng.choice([1, -1])
        c = r * math.sqrt(s1 * s2)
        kernel, kp = "gaussian", {"sigma": [[s1, c], [c, s2]]}
    else:
        kernel, kp = "uniform", {"width": rng.uniform(0.2, 1.5), "height": rng.uniform(0.2, 1.5)}
    if rng.random() < 0.5:
        weight, wp = "persistence", {"n": rng.choice([1.0, 2.0, 0.5])}
    else:
        weight, wp = "linear_ramp", {"low": rng.choice([0.0, 0.3]), "high": rng.choice([1.0, 2.0]), "start": rng.choice([0.0, 0.5]), "end": rng.choice([1.0, 2.5])}
    b0 = rng.choice([0.0, -1.0, 0.5])
    return {"birth_range": (b0, b0 + rng.choice([1.0, 2.0, 0.9])), "pers_range": (0.0, rng.choice([1.0, 1.5, 2.0])), "pixel_size": rng.choice([0.5, 0.25, 0.3, 1.0]),
            "weight": weight, "weight_params": wp, "kernel": kernel, "kernel_params": kp, "kclass": kk}


def rand_dgm(rng, n, cfg, outside=True):
    out = []
    lo, hi = cfg["birth_range"]
    for _ in range(n):
        b = rng.uniform(lo - (0.5 if outside else 0), hi + (0.5 if outside else 0))
        p = rng.choice([0.0, rng.uniform(0, cfg["pers_range"][1] + (0.5 if outside else 0))])
        if rng.random() < 0.2:
            b = rng.choice([lo, hi])            # on the border
        out.append([b, b + p])
    return out


def transform(pi, dgm, skew=True, n_jobs=None):
    with warnings.catch_warnings():
        warnings.simplefilter("ignore")
        return pi.transform(np.array(dgm, dtype=float).reshape(-1, 2) if not isinstance(dgm, list) or (dgm and not isinstance(dgm[0], np.ndarray)) else dgm, skew=skew, n_jobs=n_jobs)


def pixel_tol(dgm, cfg):
    tot = sum(abs(weight_value(cfg["weight"], cfg["weight_params"], b, d - b)) for b, d in dgm)
    return 2e-7 * (tot + 1e-12) + 1e-12
