"""C06 - returned matchings certify the reported bottleneck / Wasserstein distance"""
import random

from vlib.deductive import run_contracts
from . import _dist_common as dc

LEVEL = "proof"


def _standin(rep, tier, seed, only_search=False):
    rng = random.Random(seed * 23 + 6)
    evals, distinct, samples = 0, set(), []
    seedcases = []
    for a, b, src in dc.enumerate_pairs(tier, rng):
        if any(p[1] == float("inf") for p in a + b):
            continue
        for kind in ("inf", "2"):
            ok = dc.certificate_case(rep, kind, a, b)
            evals += 1
            distinct.add((kind, dc.classify(a, b), len(a), len(b)))
            if only_search and not ok:
                return
        if src == "random" and len(seedcases) < 30:
            seedcases.append((a, b))
        if len(samples) < 3 and src == "random":
            samples.append({"dgm1": a, "dgm2": b})
    if only_search:
        return
    evals += dc.huge_typed_certificate(rep, rng)
    from standins.matching_oracle import check_certificate
    seeds = [0, 7] if tier == "quick" else [0, 1, 2, 3, 5, 7, 11, 42]
    res = dc.hash_seed_run("inf", seedcases, seeds)
    for s, (st, out) in res.items():
        if st != "ok":
            rep.note("hash-seed subprocess %s failed: %s" % (s, out))
            continue
        for (a, b), (d, rows) in zip(seedcases, out):
            evals += 1
            bad = check_certificate(a, b, d, rows, "inf", dc.tol_for("inf", a, b, d) * 4)
            if bad:
                rep.violation("under PYTHONHASHSEED=%s the bottleneck matching is not a certificate: %s" % (s, bad[0]), "bottleneck:matching:hashseed",
                              {"input": {"dgm1": a, "dgm2": b, "PYTHONHASHSEED": s}, "observed": {"distance": d, "rows": rows}, "problems": bad[:3]})
    rep.bounded("matching-certificates", "certificate checker on all pairs of <=2-point lattice diagrams, random pairs of <=4 points, 4 scales; %d hash seeds for bottleneck" % len(seeds),
                evals, len(distinct), "distinct = (distance, feature class, sizes); every point in exactly one row, cost column = pairing cost, max/sum = distance, distance independent of the flag",
                samples, exhaustive=True)


def _replay_search(a):
    class C:
        def __init__(self):
            self.v = []

        def violation(self, what, sig, payload, **k):
            self.v.append((what, sig, payload))

        def note(self, *a):
            pass

        def bounded(self, *a, **k):
            pass
    c = C()
    _standin(c, "quick", 0, only_search=True)
    if c.v:
        what, sig, payload = c.v[0]
        return True, payload, sig, what
    return False, None, None, None


def run(rep, tier, seed):
    from contracts.c01_bottleneck import all_contracts as b_all
    from contracts.c02_wasserstein import all_contracts as w_all
    cs = [c for c in b_all(tier)[0] + w_all(tier)[0] if c.variant.startswith("matching=True")]
    run_contracts(rep, cs, {}, tier=tier, pid="C06", replayers=[(r"bottleneck|wasserstein", _replay_search)])
    rep.assume("D3 Hopcroft-Karp: the two-way dict of a perfect matching is a bijection whose edges lie in the graph it was given; D4 linear_sum_assignment: column permutation",
               "D6 mask indexing and its enumeration facts (prefix counts) - meta-rules valid by induction; Sigma-compress / Sigma-extensionality meta-rules",
               "bottleneck: `max of the row costs == distance` is proved as an upper bound (every row cost <= distance); attainment follows from minimality (L1) and is checked by the bounded certificate checker")
    _standin(rep, tier, seed)


def replay(doc):
    inp = doc["payload"].get("input", {})
    if "dgm1" in inp:
        class R:
            def __init__(self):
                self.bad = []

            def violation(self, what, sig, payload, **k):
                self.bad.append(what)
        r = R()
        for kind in ("inf", "2"):
            dc.certificate_case(r, kind, inp["dgm1"], inp["dgm2"])
        print("replay C06: matchings for (%s, %s) -> %s" % (inp["dgm1"], inp["dgm2"], ("VIOLATED: " + r.bad[0]) if r.bad else "HOLDS"))
        return 1 if r.bad else 0
    print("replay C06: %s" % doc.get("what"))
    return 1
