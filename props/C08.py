"""C08 - grid landscapes stay within half a step of the true landscape (bounded-symbolic + run time; small deductive part)"""
import itertools
import math
import random
import time
import warnings
from fractions import Fraction

import numpy as np

from vlib.deductive import run_contracts

LEVEL = "other"


def true_values(bars, grid, depth):
    from specs.landscape import landscape_f
    return [[landscape_f(bars, k, t) for t in grid] for k in range(depth)]


def approx(bars, start, stop, num_steps, dtype=float):
    from persim.landscapes import PersLandscapeApprox
    with warnings.catch_warnings():
        warnings.simplefilter("ignore")
        import contextlib, io
        with contextlib.redirect_stdout(io.StringIO()):
            return PersLandscapeApprox(dgms=[np.array(bars, dtype=dtype)], start=start, stop=stop, num_steps=num_steps, hom_deg=0)


def check_grid(rep, bars, start, stop, num_steps, origin, dtype=float):
    inp = {"bars": bars, "start": start, "stop": stop, "num_steps": num_steps, "dtype": np.dtype(dtype).name}
    try:
        A = approx(bars, start, stop, num_steps, dtype)
    except Exception as ex:
        rep.violation("PersLandscapeApprox raised %r on %s" % (ex, inp), "approx:exception", {"input": inp, "observed": repr(ex)})
        return False
    vals = np.asarray(A.values)
    grid = np.linspace(start, stop, num_steps)
    step = (stop - start) / (num_steps - 1)
    if vals.dtype.kind not in "fiu":
        rep.violation("values of the grid landscape are not numbers: %r (no snapped bar spans two grid steps; the true landscape is within step/2 of 0 there, so zeros were expected) for %s" % (vals.tolist(), inp),
                      "approx:empty-sentinel", {"input": inp, "observed": vals.tolist(), "found_by": origin, "call": "PersLandscapeApprox(dgms=[bars], start, stop, num_steps).values"})
        return False
    depth = max(len(bars), vals.shape[0] if vals.ndim == 2 else 0)
    want = true_values(bars, grid, depth)
    on_grid = all(any(abs(x - g) <= 1e-12 * max(1, abs(g)) for g in grid) for b in bars for x in b)
    tol = (0.0 if on_grid else step / 2) + 1e-9 * max(1.0, abs(stop), abs(start))
    for k in range(depth):
        for i in range(num_steps):
            got = float(vals[k, i]) if vals.ndim == 2 and k < vals.shape[0] else 0.0
            if abs(got - want[k][i]) > tol:
                rep.violation("grid landscape value at depth %d, node %d (t=%r) is %r, true landscape %r, allowed deviation %r (%s)" % (k + 1, i, grid[i], got, want[k][i], tol, inp),
                              "approx:half-step" if not on_grid else "approx:exact-on-grid",
                              {"input": inp, "observed": got, "expected": want[k][i], "depth": k + 1, "node": i, "found_by": origin})
                return False
    return True


# ----------------------------------------------------------------------------- E2
def _e2_shard(args):
    nb, start, stop, num_steps, prefixes, budget = args
    import z3
    from persim.landscapes import PersLandscapeApprox
    from pysym.core import SR, Explorer
    from specs.landscape import kmax_all
    bs = [z3.Real("b%d" % i) for i in range(nb)]
    ds = [z3.Real("d%d" % i) for i in range(nb)]
    lo, hi = z3.RealVal(str(Fraction(start))), z3.RealVal(str(Fraction(stop)))
    assume = [z3.And(b < d, lo <= b, d <= hi) for b, d in zip(bs, ds)]
    grid = [Fraction(start) + Fraction(stop - start) * i / (num_steps - 1) for i in range(num_steps)]
    step = Fraction(stop - start) / (num_steps - 1)

    def run():
        dg = np.empty((nb, 2), dtype=object)
        for i in range(nb):
            dg[i, 0], dg[i, 1] = SR(bs[i]), SR(ds[i])
        import contextlib, io
        with warnings.catch_warnings():
            warnings.simplefilter("ignore")
            with contextlib.redirect_stdout(io.StringIO()):
                return PersLandscapeApprox(dgms=[dg], start=float(start), stop=float(stop), num_steps=num_steps, hom_deg=0).values
    ex = Explorer()
    out = {"paths": 0, "discharged": 0, "refuted": [], "undecided": 0, "raised": [], "sentinel": []}
    for pc, dec, (st, res) in ex.explore(run, assume, budget_s=budget, prefixes=prefixes):
        out["paths"] += 1
        s0 = z3.Solver()
        s0.add(*pc)

        def witness():
            if s0.check() != z3.sat:
                return None
            m = s0.model()
            return [[str(m.eval(b, model_completion=True)), str(m.eval(d, model_completion=True))] for b, d in zip(bs, ds)]
        if st != "ok":
            out["raised"].append({"exc": repr(res)[:200], "bars": witness()})
            continue
        vals = np.asarray(res)
        if vals.dtype.kind not in "fiu":
            out["sentinel"].append(witness())
            continue
        goal = []
        for i, g in enumerate(grid):
            t = z3.RealVal(str(g))
            F = kmax_all(list(zip(bs, ds)), t)
            for k in range(nb):
                v = z3.RealVal(str(Fraction(float(vals[k, i])).limit_denominator(10 ** 12))) if k < vals.shape[0] else z3.RealVal(0)
                half = z3.RealVal(str(step / 2))
                goal.append(z3.And(v - F[k] <= half, F[k] - v <= half))
        s = z3.Solver()
        s.set("timeout", 30000)
        s.add(*pc)
        s.add(z3.Not(z3.And(*goal)))
        r = s.check()
        if r == z3.unsat:
            out["discharged"] += 1
        elif r == z3.sat:
            m = s.model()
            out["refuted"].append([[str(m.eval(b, model_completion=True)), str(m.eval(d, model_completion=True))] for b, d in zip(bs, ds)])
        else:
            out["undecided"] += 1
    out["exhaustive"] = ex.exhaustive
    return out


def _f(s):
    s = s.replace("?", "")
    return float(Fraction(s)) if "/" in s else float(s)


def e2(rep, nb, start, stop, num_steps, budget):
    import multiprocessing as mp
    seeds = [list(p) for p in itertools.product([True, False], repeat=3)] if nb >= 2 else [None]
    tasks = [(nb, start, stop, num_steps, [p] if p is not None else None, budget) for p in seeds]
    with mp.get_context("fork").Pool(min(12, len(tasks))) as pool:
        outs = pool.map(_e2_shard, tasks)
    agg = {"paths": 0, "discharged": 0, "refuted": [], "undecided": 0, "raised": [], "sentinel": [], "exhaustive": True}
    for o in outs:
        for k in ("paths", "discharged", "undecided"):
            agg[k] += o[k]
        for k in ("refuted", "raised", "sentinel"):
            agg[k] += o[k]
        agg["exhaustive"] = agg["exhaustive"] and o["exhaustive"]
    for bars in agg["refuted"] + [b for b in agg["sentinel"] if b]:
        fb = [[_f(b), _f(d)] for b, d in bars]
        if check_grid(rep, fb, start, stop, num_steps, "E2 %d bars x %d nodes" % (nb, num_steps)):
            rep.note("E2 counter-model %s did not reproduce numerically" % bars)
    nlim = 0
    for r in agg["raised"]:
        if r["bars"] and check_grid(rep, [[_f(b), _f(d)] for b, d in r["bars"]], start, stop, num_steps, "E2 path that raised on proxies"):
            nlim += 1
    agg["undecided"] += nlim
    rep.bounded("E2 bounded-symbolic grid landscape, %d bars x %d nodes on [%s,%s]" % (nb, num_steps, start, stop),
                "%d bars with all real end-points inside the grid, %d grid nodes" % (nb, num_steps), agg["paths"], agg["discharged"],
                "every feasible path of the real PersLandscapeApprox.compute_landscape (snap to nearest node, ramps, per-node sort) run by CPython on proxy reals; per path: |value - k-th largest tent at the node| <= step/2 for all end-points on that path; "
                "discharged=%d refuted=%d sentinel-paths=%d undecided=%d" % (agg["discharged"], len(agg["refuted"]), len(agg["sentinel"]), agg["undecided"]),
                samples=(agg["refuted"][:1] + agg["sentinel"][:1]) or ["all paths discharged"], exhaustive=agg["exhaustive"])
    return agg


def _standin(rep, tier, seed):
    rng = random.Random(seed * 59 + 8)
    evals, distinct = 0, set()
    for _k in range(250 if tier == "quick" else 6000):
        num_steps = rng.choice([2, 3, 4, 5, 6, 9, 11, 21, 50])
        start = rng.choice([0.0, -1.0, 0.5])
        stop = start + rng.choice([1.0, 4.0, 5.0, 10.0])
        nb = rng.randint(1, 5)
        step = (stop - start) / (num_steps - 1)
        on = rng.random() < 0.3
        bars = []
        for _i in range(nb):
            if on:
                i0 = rng.randint(0, num_steps - 2)
                i1 = rng.randint(i0 + 1, num_steps - 1)
                bars.append([start + i0 * step, start + i1 * step])
            else:
                b = rng.uniform(start, stop - 1e-6)
                bars.append([b, rng.uniform(b + 1e-9, stop)])
        check_grid(rep, bars, start, stop, num_steps, "random")
        evals += 1
        distinct.add((num_steps, nb, on, start, stop))
        if _k % 4 == 0:
            # the same statement for diagrams stored as integers or in single precision (integer bars on grids whose nodes are not integers)
            ibars = [[float(rng.randint(0, 6)), 0.0] for _i in range(rng.randint(1, 4))]
            ibars = [[b, b + rng.randint(1, 6)] for b, _d in ibars]
            ns2 = rng.choice([6, 10, 11, 14, 25])
            check_grid(rep, ibars, 0.0, 12.0, ns2, "integer-typed", dtype=rng.choice([int, np.int32, np.float32]))
            evals += 1
            distinct.add(("typed", ns2, len(ibars)))
            # ... and in every memory layout (column-wise storage: np.array([births, deaths]).T, Fortran order, a strided view)
            for layout in ("columns.T", "fortran", "strided"):
                fb = np.array(ibars, dtype=float)
                arr = {"columns.T": np.array([fb[:, 0], fb[:, 1]]).T, "fortran": np.asfortranarray(fb), "strided": np.repeat(fb, 2, axis=0)[::2]}[layout]
                from persim.landscapes import PersLandscapeApprox as _PLA
                import contextlib, io
                with warnings.catch_warnings(), contextlib.redirect_stdout(io.StringIO()):
                    warnings.simplefilter("ignore")
                    try:
                        got = np.asarray(_PLA(dgms=[arr], start=0.0, stop=12.0, num_steps=ns2, hom_deg=0).values)
                        ref = np.asarray(_PLA(dgms=[fb.copy()], start=0.0, stop=12.0, num_steps=ns2, hom_deg=0).values)
                    except Exception as ex:
                        got, ref = "raised %r" % (ex,), None
                evals += 1
                if ref is None or got.shape != ref.shape or not np.array_equal(got, ref):
                    rep.violation("grid landscape of %s stored %s differs from the same diagram stored row-wise: %s vs %s" % (ibars, layout, np.asarray(got).tolist() if ref is not None else got, None if ref is None else ref.tolist()),
                                  "approx:memory-layout", {"input": {"bars": ibars, "layout": layout, "start": 0.0, "stop": 12.0, "num_steps": ns2}})
                    break
    # transformer == approximate class; death vector; vectorize == interpolation of the exact critical pairs
    from persim.landscapes import PersLandscapeApprox, PersLandscapeExact, PersistenceLandscaper, death_vector, vectorize
    import contextlib, io
    for _ in range(40 if tier == "quick" else 800):
        nb = rng.randint(2, 5)
        bars = sorted({(float(rng.randint(0, 5)), float(rng.randint(6, 12))) for _i in range(nb)})
        bars = [list(b) for b in bars]
        d0, d1 = np.array(bars), np.array([[0.0, 3.0], [1.0, 7.5]])
        ns = rng.choice([5, 13, 50])
        with warnings.catch_warnings(), contextlib.redirect_stdout(io.StringIO()):
            warnings.simplefilter("ignore")
            for hd, flat in ((0, False), (1, True), (0, True)):
                tr = PersistenceLandscaper(hom_deg=hd, start=0.0, stop=12.0, num_steps=ns, flatten=flat)
                out = tr.fit_transform([d0, d1])
                ref = PersLandscapeApprox(dgms=[d0, d1], start=0.0, stop=12.0, num_steps=ns, hom_deg=hd).values
                evals += 1
                if not np.array_equal(out, ref.flatten() if flat else ref):
                    rep.violation("PersistenceLandscaper(hom_deg=%d, flatten=%s) output differs from the approximate landscape values" % (hd, flat), "transformer:values",
                                  {"input": {"dgms": [d0.tolist(), d1.tolist()], "hom_deg": hd, "flatten": flat, "num_steps": ns}})
            dv = death_vector([d0, d1])
            evals += 1
            if list(dv) != sorted(d0[:, 1].tolist(), reverse=True):
                rep.violation("death_vector %s is not the deaths in non-increasing order %s" % (list(dv), sorted(d0[:, 1].tolist(), reverse=True)), "death-vector",
                              {"input": {"dgm": d0.tolist()}, "observed": [float(x) for x in dv]})
            E = PersLandscapeExact(dgms=[d0], hom_deg=0)
            V = vectorize(E, start=0.0, stop=12.0, num_steps=ns)
            grid = np.linspace(0.0, 12.0, ns)
            evals += 1
            for k, cp in enumerate(E.critical_pairs):
                xs, ys = zip(*cp)
                if not np.allclose(V.values[k], np.interp(grid, xs, ys), atol=1e-12):
                    rep.violation("vectorize differs from interpolation of the critical points at depth %d" % (k + 1), "vectorize:interp", {"input": {"dgm": d0.tolist(), "num_steps": ns}})
            if len({tuple(b) for b in bars}) == len(bars):
                want = true_values(bars, grid, len(E.critical_pairs))
                if not np.allclose(V.values, want, atol=1e-9) and not _shortcut_involved(bars):
                    rep.violation("sampling the exact landscape onto the grid does not reproduce the true values", "vectorize:values", {"input": {"dgm": d0.tolist(), "num_steps": ns}})
    # repeated deaths in the death vector
    dvr = death_vector([np.array([[0, 1.0], [0, 1.0], [0, 1.0], [0, 2.0]])])
    evals += 1
    if [float(x) for x in dvr] != [2.0, 1.0, 1.0, 1.0]:
        rep.violation("death_vector drops or reorders repeated deaths: %s" % [float(x) for x in dvr], "death-vector", {"input": {"dgm": [[0, 1], [0, 1], [0, 1], [0, 2]]}, "observed": [float(x) for x in dvr]})
    rep.bounded("grid landscape / tools (run time)", "random grids (2..50 nodes) x diagrams of 1..5 bars on and off the grid; transformer, death vector, vectorize on lattice diagrams",
                evals, len(distinct), "half-step bound at every node and depth (exact when end-points are nodes); transformer == class values (flattened on request); death vector sorted with multiplicity; vectorize == interp == true values",
                samples=[{"num_steps": 6, "start": 0.0, "stop": 5.0}])


def _shortcut_involved(bars):
    from props.C03 import run_traced, numeric_mismatch
    cps, sc = run_traced(bars)
    return sc and numeric_mismatch(bars, cps) is not None


def ctor_search(rep, n, rng, only_first=True):
    """the grid landscape is built from the diagram of the requested degree, infinite bars left out, on the user's grid ends when
    given and else on [smallest birth, largest finite death] of that diagram"""
    import contextlib, io
    from persim.landscapes import PersLandscapeApprox
    ev = 0
    for _ in range(n):
        m = rng.randint(1, 3)
        dgms = []
        for _d in range(m):
            bars = [[float(rng.randint(0, 6)), 0.0] for _i in range(rng.randint(1, 4))]
            bars = [[b, b + rng.randint(1, 5)] for b, _x in bars]
            if rng.random() < 0.5:
                bars.insert(rng.randint(0, len(bars)), [float(rng.randint(0, 3)), float("inf")])
            dgms.append(np.array(bars))
        h = rng.randrange(m)
        kw = {}
        if rng.random() < 0.4:
            kw["start"] = rng.choice([0.0, -1.0, 0.5])
        if rng.random() < 0.4:
            kw["stop"] = rng.choice([12.0, 20.0])
        fin = dgms[h][np.isfinite(dgms[h][:, 1])]
        want = (kw.get("start", float(fin[:, 0].min())), kw.get("stop", float(fin[:, 1].max())))
        with warnings.catch_warnings(), contextlib.redirect_stdout(io.StringIO()):
            warnings.simplefilter("ignore")
            try:
                A = PersLandscapeApprox(dgms=[d.copy() for d in dgms], hom_deg=h, num_steps=9, **kw)
                got = (float(A.start), float(A.stop))
                used = np.asarray(A.dgms, dtype=float)
            except Exception as ex:
                got, used = "raised %r" % (ex,), None
        ev += 1
        ok = got == want and used is not None and sorted(map(tuple, used.tolist())) == sorted(map(tuple, fin.tolist()))
        if not ok:
            rep.violation("PersLandscapeApprox(dgms, hom_deg=%d, %s): grid ends %s and bars used %s; the requested degree's finite bars are %s with grid ends %s" % (h, kw, got, None if used is None else used.tolist(), fin.tolist(), want),
                          "approx:constructor", {"input": {"dgms": [d.tolist() for d in dgms], "hom_deg": h, "grid_arguments": kw}, "observed": repr(got), "expected": list(want)})
            if only_first:
                break
    return ev


def _replay_ctor(a):
    class C:
        def __init__(self):
            self.v = []

        def violation(self, what, sig, payload, **k):
            self.v.append((what, sig, payload))
    c = C()
    ctor_search(c, 300, random.Random(11))
    if c.v:
        what, sig, payload = c.v[0]
        return True, payload, sig, what
    return False, None, None, None


def run(rep, tier, seed):
    from contracts.c08_tools import all_contracts
    cs, table = all_contracts(tier)
    run_contracts(rep, cs, table, tier=tier, pid="C08")
    # the constructor: diagram of the requested degree, finite bars only, grid ends given-or-derived
    from contracts.c03_ctor import approx_ctor_contracts
    cs2, t2 = approx_ctor_contracts(tier)
    run_contracts(rep, cs2, t2, tier=tier, pid="C08", replayers=[(r"PersLandscapeApprox.__init__", _replay_ctor)])
    # vectorize: every depth of the exact landscape sampled on the requested-else-derived grid (np.interp through its contract)
    from contracts.c08_tools import vectorize_contracts
    cs3, t3 = vectorize_contracts(tier)
    run_contracts(rep, cs3, t3, tier=tier, pid="C08")
    ev = ctor_search(rep, 60 if tier == "quick" else 1500, random.Random(seed * 7 + 3))
    rep.bounded("grid-landscape constructor (run time)", "random lists of 1..3 diagrams with infinite bars at any position, grid ends given or derived", ev, ev,
                "bars used == finite bars of dgms[hom_deg]; start / stop == given values else min birth / max finite death")
    for nb, ns, budget in ([(1, 6, 60), (2, 5, 200)] + ([(2, 6, 600), (3, 5, 1500)] if tier == "thorough" else [])):
        e2(rep, nb, 0, 5, ns, budget)
    _standin(rep, tier, seed)
    rep.assume("bounded: the half-step bound is checked symbolically only for <=2 bars x <=6 nodes (3 x 5 thorough) on one concrete grid, and sampled elsewhere; NOT proved for all sizes",
               "L10 snapping moves each end-point by <= step/2 and the k-th largest value is 1-Lipschitz (paper argument)", "D12 sorted, D13 np.interp, D14 np.linspace")
    rep.trust("CPython executing the real compute_landscape on pysym proxies (object arrays)", "z3 (QF_LRA)")


def replay(doc):
    inp = doc["payload"].get("input", {})
    if "bars" in inp and "num_steps" in inp:
        class R:
            def __init__(self):
                self.bad = []

            def violation(self, what, sig, payload, **k):
                self.bad.append((sig, what))
        r = R()
        check_grid(r, inp["bars"], inp["start"], inp["stop"], inp["num_steps"], "replay")
        print("replay C08: %s -> %s" % (inp, ("VIOLATED [%s]: %s" % r.bad[0]) if r.bad else "HOLDS"))
        return 1 if r.bad else 0
    print("replay C08: %s" % doc.get("what"))
    return 1
