"""C03 - exact landscape equals the k-th-largest-tent definition everywhere  (bounded-symbolic, never counted as proved)"""
import ast
import itertools
import os
import random
import sys
import time
import warnings
from fractions import Fraction

import numpy as np

LEVEL = "other"
REPO = os.environ.get("VERIF_REPO", "/repo")


# ----------------------------------------------------------------------------- attribution of the duplicate shortcut
def _shortcut_line():
    """line number of `L.append(L[-1])` (the repeated-bar shortcut) in the real source, located through the AST"""
    src = open(os.path.join(REPO, "persim/landscapes/exact.py")).read()
    for n in ast.walk(ast.parse(src)):
        if isinstance(n, ast.Call) and ast.unparse(n) == "L.append(L[-1])":
            return n.lineno
    return None


def run_traced(bars, hom_deg=0):
    """run the real constructor on floats; returns (critical_pairs, shortcut_executed)"""
    from persim.landscapes import PersLandscapeExact
    line = _shortcut_line()
    hits = [0]             # executions of the repeated-bar shortcut
    genuine = {}           # (depth index, b, d) -> how many bars equal to the current (b, d) the work list really held

    def tracer(frame, event, arg):
        if frame.f_code.co_name != "compute_landscape":
            return None

        def local(fr, ev, a):
            if ev == "line":
                loc = fr.f_locals
                if "A" in loc and "b" in loc and "d" in loc:
                    try:
                        b, d = loc["b"], loc["d"]
                        c = sum(1 for it in loc["A"] if len(it) == 2 and it[0] == b and it[1] == d)
                        if c:
                            key = (loc.get("landscape_idx"), float(b), float(d))
                            genuine[key] = max(genuine.get(key, 0), c)
                    except Exception:
                        pass
                if fr.f_lineno == line:
                    hits[0] += 1
            return local
        return local
    old = sys.gettrace()
    sys.settrace(tracer)
    try:
        with warnings.catch_warnings():
            warnings.simplefilter("ignore")
            P = PersLandscapeExact(dgms=[np.array(bars, dtype=float)] if hom_deg == 0 else [np.zeros((1, 2)) + [[0, 1]]] * hom_deg + [np.array(bars, dtype=float)], hom_deg=hom_deg)
    finally:
        sys.settrace(old)
    # attributed to the known repeated-bar shortcut only if every execution of it is matched by a bar that really was repeated in the work list
    return P.critical_pairs, (hits[0] >= 1 and hits[0] <= sum(genuine.values()))


def numeric_mismatch(bars, cps):
    from specs.landscape import breakpoints, landscape_f, pl_f
    pts = breakpoints(bars)
    pts = pts + [(a + b) / 2 for a, b in zip(pts, pts[1:])] + [pts[0] - 1, pts[-1] + 1]
    for k in range(len(bars) + 1):
        cp = cps[k] if k < len(cps) else []
        xs = [float(p[0]) for p in cp]
        if any(a > b for a, b in zip(xs, xs[1:])):
            return {"depth": k + 1, "problem": "critical points not ordered by abscissa", "critical_pairs": [list(map(float, p)) for p in cp]}
        for t in pts:
            got, want = pl_f(cp, t), landscape_f(bars, k, t)
            if abs(got - want) > 1e-9 * max(1.0, abs(want)):
                return {"depth": k + 1, "t": t, "observed": got, "expected": want}
    if len(cps) > len(bars):
        return {"problem": "more depths than bars", "depths": len(cps)}
    return None


def check_bars(rep, bars, origin):
    try:
        cps, shortcut = run_traced(bars)
    except Exception as ex:
        rep.violation("PersLandscapeExact raised %r on %s" % (ex, bars), "landscape:exception", {"input": {"bars": bars}, "observed": repr(ex)})
        return False
    mm = numeric_mismatch(bars, cps)
    if mm:
        sig = "landscape:duplicate-shortcut" if shortcut else "landscape:sweep"
        rep.violation("exact landscape of %s differs from the k-th largest tent: %s%s" % (bars, mm, " [repeated-bar shortcut executed]" if shortcut else ""),
                      sig, {"input": {"bars": bars}, "mismatch": mm, "shortcut_executed": shortcut, "found_by": origin,
                            "call": "PersLandscapeExact(dgms=[bars], hom_deg=0).critical_pairs"})
        return False
    return True


# ----------------------------------------------------------------------------- E2: all paths of the real sweep
def _e2_shard(args):
    n, prefixes, budget, presorted = args
    import z3
    from persim.landscapes import PersLandscapeExact
    from pysym.core import SR, Explorer
    from specs.landscape import kmax_all, pl_matches
    bs = [z3.Real("b%d" % i) for i in range(n)]
    ds = [z3.Real("d%d" % i) for i in range(n)]
    assume = [b < d for b, d in zip(bs, ds)]
    if presorted:
        for i in range(n - 1):      # already in the sweep's order (birth asc, death desc): sorted() takes one path
            assume.append(z3.Or(bs[i] < bs[i + 1], z3.And(bs[i] == bs[i + 1], ds[i] >= ds[i + 1])))

    def run():
        dg = [[SR(b), SR(d)] for b, d in zip(bs, ds)]
        with warnings.catch_warnings():
            warnings.simplefilter("ignore")
            return PersLandscapeExact(dgms=[dg], hom_deg=0).critical_pairs
    t = z3.Real("t")
    ex = Explorer()
    out = {"paths": 0, "discharged": 0, "refuted": [], "undecided": 0, "raised": [], "solver_s": 0.0}
    for pc, dec, (st, res) in ex.explore(run, assume, budget_s=budget, prefixes=prefixes):
        out["paths"] += 1
        if st != "ok":
            # an exception on proxies may be a limitation of the proxies: re-run this path's inputs concretely later
            s0 = z3.Solver()
            s0.add(*pc)
            if s0.check() == z3.sat:
                m0 = s0.model()
                out["raised"].append({"exc": repr(res)[:200], "bars": [[str(m0.eval(b, model_completion=True)), str(m0.eval(d, model_completion=True))] for b, d in zip(bs, ds)]})
            continue
        F = kmax_all(list(zip(bs, ds)), t)
        goal = []
        val = lambda v: v.t if isinstance(v, SR) else z3.RealVal(str(Fraction(float(v)).limit_denominator(10 ** 12)))
        for k in range(n):
            cp = [(val(p[0]), val(p[1])) for p in res[k]] if k < len(res) else []
            goal.append(pl_matches(cp, F[k], t))
        goal.append(z3.BoolVal(len(res) <= n))
        s = z3.Solver()
        s.set("timeout", 30000)
        s.add(*pc)
        s.add(z3.Not(z3.And(*goal)))
        t0 = time.time()
        r = s.check()
        out["solver_s"] += time.time() - t0
        if r == z3.unsat:
            out["discharged"] += 1
        elif r == z3.sat:
            m = s.model()
            fr = lambda v: str(m.eval(v, model_completion=True))
            out["refuted"].append({"bars": [[fr(b), fr(d)] for b, d in zip(bs, ds)], "t": fr(t), "decisions": dec})
        else:
            out["undecided"] += 1
    out["exhaustive"] = ex.exhaustive
    out["pending"] = [list(p) for p in ex.pending]
    return out


def e2(rep, n, budget_s, presorted=False, workers=12):
    """shard the path tree by decision prefixes of length up to 4"""
    import multiprocessing as mp
    # discover prefixes: run shallowly in-process
    seeds = [[]]
    if n >= 3:
        seeds = [list(p) for p in itertools.product([True, False], repeat=3)]
        seeds = [[]] if False else seeds
    ctx = mp.get_context("fork")
    # prefixes that are infeasible simply abort; prefixes shorter than the path's decisions are extended inside the shard
    tasks = [(n, [p], budget_s, presorted) for p in seeds] if n >= 3 else [(n, None, budget_s, presorted)]
    with ctx.Pool(min(workers, len(tasks))) as pool:
        outs = pool.map(_e2_shard, tasks)
    agg = {"paths": 0, "discharged": 0, "refuted": [], "undecided": 0, "raised": [], "solver_s": 0.0, "exhaustive": True}
    for o in outs:
        for k in ("paths", "discharged", "undecided", "solver_s"):
            agg[k] += o[k]
        agg["refuted"] += o["refuted"]
        agg["raised"] += o["raised"]
        agg["exhaustive"] = agg["exhaustive"] and o["exhaustive"]
    return agg


def _to_float(s):
    s = s.replace("?", "")
    return float(Fraction(s)) if "/" in s else float(s)


def _replay_ctor(a):
    """search the degree-selection family for an input on which the real constructor uses another diagram than dgms[hom_deg]"""
    from persim.landscapes import PersLandscapeExact
    rng = random.Random(5)
    empties = [lambda: np.zeros((0, 2)), lambda: np.array([]), lambda: []]
    with warnings.catch_warnings():
        warnings.simplefilter("ignore")
        for _ in range(400):
            m = rng.randint(1, 4)
            dg = [rng.choice(empties)() if rng.random() < 0.4 else np.array([[float(b), b + 1.0 + i] for b in range(rng.randint(1, 3))]) for i in range(m)]
            for h in range(m):
                if len(dg[h]) == 0:
                    continue
                want = PersLandscapeExact(dgms=[np.array(dg[h])], hom_deg=0).critical_pairs
                try:
                    got = PersLandscapeExact(dgms=list(dg), hom_deg=h).critical_pairs
                except Exception as ex:
                    got = "raised %r" % (ex,)
                if got != want:
                    return True, {"input": {"dgms": [np.array(x).tolist() for x in dg], "hom_deg": h}, "observed": got, "expected": want}, None, \
                        "hom_deg=%d does not select dgms[%d] from %s" % (h, h, [np.array(x).tolist() for x in dg])
    return False, None, None, None


def run(rep, tier, seed):
    t0 = time.time()
    # deductive part: the constructor selects dgms[hom_deg] (the sweep itself is summarised there and decided by E2 below)
    from contracts.c03_ctor import all_contracts
    from vlib.deductive import run_contracts
    cs, table = all_contracts(tier)
    run_contracts(rep, cs, table, tier=tier, pid="C03", replayers=[(r"PersLandscapeExact.__init__", _replay_ctor)])
    total_paths = 0
    samples = []
    for n, presorted, budget in ([(1, False, 30), (2, False, 30), (3, False, 240)] + ([(4, True, 1500)] if tier == "thorough" else [])):
        agg = e2(rep, n, budget, presorted)
        total_paths += agg["paths"]
        for r in agg["refuted"]:
            bars = [[_to_float(b), _to_float(d)] for b, d in r["bars"]]
            ok = check_bars(rep, bars, "E2 n=%d path %s" % (n, r["decisions"]))
            if ok:
                rep.note("E2 counter-model %s did not reproduce numerically" % r)
        n_lim = 0
        for r in agg["raised"]:
            bars = [[_to_float(b), _to_float(d)] for b, d in r["bars"]]
            if check_bars(rep, bars, "E2 n=%d path that raised %s on proxies" % (n, r["exc"])):
                n_lim += 1        # fine on real numbers: the proxies could not follow this path (undecided, not a violation)
        if n_lim:
            rep.note("E2 n=%d: %d paths could not be executed on proxies (e.g. a NumPy ufunc refusing object operands); their inputs pass concretely; these paths are undecided" % (n, n_lim))
            agg["undecided"] += n_lim
        rep.bounded("E2 bounded-symbolic sweep, %d bars%s" % (n, " (inputs already in sweep order)" if presorted else ", any input order"),
                    "%d bars, all real end-points b<d, all t, all depths" % n, agg["paths"], agg["discharged"],
                    "every feasible path of the real PersLandscapeExact.compute_landscape run by CPython on proxy reals; per path: forall t, k. PL(critical_pairs[k])(t) == k-th largest tent (LRA); "
                    "discharged=%d refuted=%d undecided=%d solver %.1fs" % (agg["discharged"], len(agg["refuted"]), agg["undecided"], agg["solver_s"]),
                    samples=[r["bars"] for r in agg["refuted"][:2]] or ["all %d paths discharged" % agg["paths"]], exhaustive=agg["exhaustive"],
                    extra={"refuted_paths": len(agg["refuted"]), "undecided_paths": agg["undecided"]})
    # run-time stand-in: lattice enumeration and random diagrams, hom_deg selection, infinite last bar
    rng = random.Random(seed * 53 + 3)
    evals, distinct = 0, set()
    pts = [(b, d) for b in range(4) for d in range(b + 1, 6)]
    combos = list(itertools.combinations(pts, 3)) + (list(itertools.combinations(pts, 4)) if tier == "thorough" else rng.sample(list(itertools.combinations(pts, 4)), 400))
    for combo in combos:
        bars = [list(map(float, p)) for p in combo]
        rng.shuffle(bars)
        check_bars(rep, bars, "lattice")
        evals += 1
        distinct.add(tuple(sorted(combo)))
    for _ in range(200 if tier == "quick" else 5000):
        n = rng.randint(1, 7)
        bars = []
        for _i in range(n):
            if rng.random() < 0.5:
                b = float(rng.randint(0, 5))
                bars.append([b, b + rng.randint(1, 4)])
            else:
                b = rng.uniform(-3, 3) * rng.choice([1, 1e-3, 1e3])
                bars.append([b, b + abs(rng.uniform(0.01, 3)) * rng.choice([1, 1e-3, 1e3])])
        if rng.random() < 0.2 and bars:
            bars.append(list(bars[0]))
        check_bars(rep, bars, "random")
        evals += 1
        distinct.add(tuple(map(tuple, bars)))
    # scale covariance with exact power-of-two factors: landscape(c*D) == c*landscape(D) bit for bit (no tolerance may depend on scale)
    for _ in range(60 if tier == "quick" else 1500):
        n = rng.randint(2, 5)
        bars = []
        for _i in range(n):
            b = float(rng.randint(0, 6))
            bars.append([b, b + rng.randint(1, 5)])
        if len({tuple(b) for b in bars}) != len(bars):
            continue
        base, _sc = run_traced(bars)
        for c in (2.0 ** -40, 2.0 ** -20, 2.0 ** 30):
            scaled, _sc2 = run_traced([[b * c, d * c] for b, d in bars])
            evals += 1
            same = len(base) == len(scaled) and all(len(x) == len(y) and all(float(p[0]) * c == float(q[0]) and float(p[1]) * c == float(q[1]) for p, q in zip(x, y)) for x, y in zip(base, scaled))
            if not same:
                ok = check_bars(rep, [[b * c, d * c] for b, d in bars], "scale covariance c=2^%d" % round(__import__("math").log2(c)))
                if ok:
                    rep.violation("landscape of %s scaled by %r is not the scaled landscape" % (bars, c), "landscape:scale", {"input": {"bars": bars, "scale": c}, "observed": scaled, "expected_base": base})
    from persim.landscapes import PersLandscapeExact
    # every element type a diagram may be stored in (signed / unsigned integers of every width, single precision), integer-valued bars
    # with disjoint, touching, nested and overlapping pairs
    for _ in range(60 if tier == "quick" else 1200):
        nb = rng.randint(2, 5)
        bars = []
        for _i in range(nb):
            b = rng.randint(0, 9)
            bars.append([float(b), float(b + rng.randint(1, 5))])
        if len({tuple(b) for b in bars}) != len(bars):
            continue
        want_cp, _sc = run_traced(bars)
        if numeric_mismatch(bars, want_cp):
            continue          # the float run itself is wrong here (known repeated-bar mechanism): reported by the sweeps above
        for dt in (np.uint8, np.uint16, np.uint64, np.int8, np.int64, np.float32):
            evals += 1
            distinct.add(("typed", np.dtype(dt).name))
            try:
                with warnings.catch_warnings():
                    warnings.simplefilter("ignore")
                    got = PersLandscapeExact(dgms=[np.array(bars, dtype=dt)], hom_deg=0).critical_pairs
            except Exception as ex:
                got = None
                mm = {"problem": "raised %r" % (ex,)}
            else:
                mm = numeric_mismatch(bars, got)
            if mm:
                rep.violation("exact landscape of %s stored as %s differs from the k-th largest tent: %s" % (bars, np.dtype(dt).name, mm), "landscape:typed",
                              {"input": {"bars": bars, "dtype": np.dtype(dt).name}, "mismatch": mm})
                break
    # two different diagrams whose arrays hold the same bytes (a float64 bar read as two float32 bars): processed one after the
    # other in one process, each must get its own landscape
    pool32 = [0.0, 1.0, 2.0, 2.25, 2.5, 2.75, 3.0, 4.0, 8.0, 16.0]
    twins = []
    for a in pool32:
        for b in pool32:
            for c in pool32:
                for d_ in pool32:
                    Y = np.array([[a, b], [c, d_]], dtype=np.float32)
                    if not (a < b and c < d_) or (a, b) == (c, d_):
                        continue
                    X = Y.view(np.float64).reshape(-1, 2)
                    if X.shape == (1, 2) and np.all(np.isfinite(X)) and 0 <= X[0, 0] < X[0, 1] < 1e6:
                        twins.append((Y, X.copy()))
    rng.shuffle(twins)
    for Y, X in twins[: (6 if tier == "quick" else 60)]:
        for first, second in ((Y, X), (X, Y)):
            for Z in (first, second):
                evals += 1
                bars = [[float(p[0]), float(p[1])] for p in Z]
                with warnings.catch_warnings():
                    warnings.simplefilter("ignore")
                    got = PersLandscapeExact(dgms=[Z.copy()], hom_deg=0).critical_pairs
                mm = numeric_mismatch(bars, got)
                if mm and not run_traced(bars)[1]:
                    rep.violation("exact landscape of %s (%s) computed after a byte-identical array of another element type differs from the k-th largest tent: %s" % (bars, Z.dtype.name, mm),
                                  "landscape:byte-twins", {"input": {"sequence": [first.tolist(), second.tolist()], "dtypes": [first.dtype.name, second.dtype.name]}, "mismatch": mm})
                    break
    distinct.add(("byte-twins", len(twins)))
    # hom_deg selection and removal of a trailing infinite bar
    with warnings.catch_warnings():
        warnings.simplefilter("ignore")
        d0, d1 = np.array([[0.0, 3.0], [1.0, 4.0]]), np.array([[2.0, 5.0]])
        if PersLandscapeExact(dgms=[d0, d1], hom_deg=1).critical_pairs != PersLandscapeExact(dgms=[d1], hom_deg=0).critical_pairs:
            rep.violation("hom_deg=1 does not select the second diagram", "landscape:hom_deg", {"input": {"dgms": [d0.tolist(), d1.tolist()], "hom_deg": 1}})
        a = PersLandscapeExact(dgms=[np.array([[0.0, 3.0], [1.0, 4.0], [0.0, np.inf]])], hom_deg=0).critical_pairs
        b = PersLandscapeExact(dgms=[d0], hom_deg=0).critical_pairs
        if a != b:
            rep.violation("a trailing infinite bar changes the landscape", "landscape:inf-bar", {"input": {"bars": [[0, 3], [1, 4], [0, "inf"]]}, "observed": a, "expected": b})
        evals += 2
        # the requested degree selects the diagram used whatever the other degrees hold (empty degrees, in either empty form, included)
        empties = [lambda: np.zeros((0, 2)), lambda: np.array([]), lambda: []]
        for _ in range(40 if tier == "quick" else 600):
            m = rng.randint(2, 4)
            dg = []
            for _i in range(m):
                if rng.random() < 0.4:
                    dg.append(rng.choice(empties)())
                else:
                    nb = rng.randint(1, 3)
                    bb = [float(rng.randint(0, 5)) for _j in range(nb)]
                    dg.append(np.array([[b, b + rng.randint(1, 4) + 0.5 * _i] for b in bb]))
            for h in range(m):
                if len(dg[h]) == 0:
                    continue
                evals += 1
                want = PersLandscapeExact(dgms=[np.array(dg[h])], hom_deg=0).critical_pairs
                try:
                    got = PersLandscapeExact(dgms=list(dg), hom_deg=h).critical_pairs
                except Exception as ex:
                    got = "raised %r" % (ex,)
                if got != want:
                    rep.violation("hom_deg=%d does not select dgms[%d] from %s: got %s, landscape of dgms[%d] alone is %s" % (h, h, [np.array(x).tolist() for x in dg], got, h, want),
                                  "landscape:hom_deg", {"input": {"dgms": [np.array(x).tolist() for x in dg], "hom_deg": h}, "observed": got, "expected": want})
    rep.bounded("exact landscape vs k-th largest tent (run time)", "all 3-subsets (+%s 4-subsets) of a 14-point lattice in random order; random diagrams of 1..7 bars at scales 1e-3..1e3 with ties and repeats" % ("all" if tier == "thorough" else "400"),
                evals, len(distinct), "compared at every candidate breakpoint, midpoints and outside the support, all depths; order of critical points; hom_deg selection among 2..4 degrees some of them empty; trailing infinite bar", samples=[list(map(list, c)) for c in combos[:2]])
    rep.assume("bounded: sizes <= 3 bars exhaustively (4 in sweep order, thorough, best effort); the unbounded sweep invariant is out of reach (DESIGN C03) - C03 is NOT proved",
               "landscape functions have slopes in {-1,0,1}: the per-path query uses this to stay linear", "D12 sorted() on proxies is CPython's own")
    rep.trust("CPython executing the real compute_landscape on pysym proxies", "z3 (QF_LRA)")
    rep.checker_cmd = "./check C03 --tier %s" % tier


def replay(doc):
    inp = doc["payload"].get("input", {})
    if "bars" in inp:
        class R:
            def __init__(self):
                self.bad = []

            def violation(self, what, sig, payload, **k):
                self.bad.append((sig, what))
        r = R()
        check_bars(r, inp["bars"], "replay")
        print("replay C03: bars %s -> %s" % (inp["bars"], ("VIOLATED [%s]: %s" % r.bad[0]) if r.bad else "HOLDS"))
        return 1 if r.bad else 0
    print("replay C03: %s" % doc.get("what"))
    return 1
