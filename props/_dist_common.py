"""shared bounded stand-ins for the bottleneck / Wasserstein properties (C01, C02, C06, C07)"""
import math
import os
import random
import subprocess
import sys
import warnings

import numpy as np

from standins.matching_oracle import (bottleneck_oracle, check_certificate, small_diagrams, wasserstein_oracle)

ROOT = os.path.dirname(os.path.dirname(os.path.abspath(__file__)))


_EMPTY_FORMS = (lambda: np.zeros((0, 2)), lambda: [], lambda: np.array([]), lambda: np.empty((0, 2), dtype=int), lambda: ())
_EMPTY_TURN = [0]


def _empty_form():
    """an empty diagram arrives as a (0,2) array, an empty list / tuple or np.array([]) (shape (0,)): taken in turn"""
    _EMPTY_TURN[0] += 1
    return _EMPTY_FORMS[_EMPTY_TURN[0] % len(_EMPTY_FORMS)]()


def call(kind, d1, d2, matching=False):
    from persim import bottleneck, wasserstein
    f = bottleneck if kind == "inf" else wasserstein
    a = np.array(d1, dtype=float).reshape(-1, 2) if len(d1) else _empty_form()
    b = np.array(d2, dtype=float).reshape(-1, 2) if len(d2) else _empty_form()
    with warnings.catch_warnings(record=True) as w:
        warnings.simplefilter("always")
        r = f(a, b, matching=matching)
    return r, [str(x.message) for x in w]


def oracle(kind, d1, d2):
    return bottleneck_oracle(d1, d2) if kind == "inf" else wasserstein_oracle(d1, d2)


def tol_for(kind, d1, d2, want):
    mag = max([abs(x) for p in list(d1) + list(d2) for x in p if math.isfinite(x)] + [0.0])
    n = len(d1) + len(d2) + 1
    # DESIGN 2.6: 64 ulp of the largest operand times the number of accumulated terms
    return 64 * 2.3e-16 * max(mag, abs(want)) * (n if kind == "2" else 1) + 1e-300


def classify(d1, d2):
    def has_dup(d):
        t = [tuple(p) for p in d]
        return len(set(t)) != len(t)
    feats = []
    if not d1 or not d2:
        feats.append("empty")
    if has_dup(d1) or has_dup(d2):
        feats.append("repeated")
    if any(p[0] == p[1] for p in list(d1) + list(d2)):
        feats.append("diagonal-point")
    if any(math.isinf(p[1]) for p in list(d1) + list(d2)):
        feats.append("infinite")
    if len(d1) != len(d2):
        feats.append("sizes-differ")
    return "+".join(feats) or "generic"


def value_case(rep, kind, d1, d2, name):
    (got), warns = call(kind, d1, d2)
    got = float(got)
    want = oracle(kind, d1, d2)
    inp = {"dgm1": d1, "dgm2": d2}
    fn = "bottleneck" if kind == "inf" else "wasserstein"
    if got != got or abs(got - want) > tol_for(kind, d1, d2, want):
        rep.violation("%s(%s, %s) = %r but the optimal matching cost is %r" % (fn, d1, d2, got, want), "%s:value:%s" % (fn, classify(d1, d2)),
                      {"input": inp, "observed": got, "expected": want, "call": "persim.%s(dgm1, dgm2)" % fn})
        return False
    has_inf = [any(math.isinf(p[1]) for p in d) for d in (d1, d2)]
    for k, nm in enumerate(("dgm1", "dgm2")):
        warned = any(nm in w for w in warns)
        if warned != has_inf[k]:
            rep.violation("%s: warning about %s %s although it %s infinite deaths" % (fn, nm, "issued" if warned else "missing", "has" if has_inf[k] else "has no"),
                          "%s:warning" % fn, {"input": inp, "observed": warns})
            return False
    return True


def certificate_case(rep, kind, d1, d2):
    fn = "bottleneck" if kind == "inf" else "wasserstein"
    (res), _ = call(kind, d1, d2, matching=True)
    inp = {"dgm1": d1, "dgm2": d2}
    try:
        dist, rows = res
        dist = float(dist)
        rows = np.asarray(rows, dtype=float).reshape(-1, 3) if len(rows) else np.zeros((0, 3))
    except Exception as ex:
        rep.violation("%s(matching=True) did not return (distance, rows): %r" % (fn, ex), "%s:matching:shape" % fn, {"input": inp, "observed": repr(res)})
        return False
    (plain), _ = call(kind, d1, d2)
    t = tol_for(kind, d1, d2, dist) * 4
    if abs(float(plain) - dist) > t:
        rep.violation("%s distance with matching %r differs from without %r" % (fn, dist, float(plain)), "%s:matching:distance-differs" % fn, {"input": inp, "observed": [dist, float(plain)]})
        return False
    bad = check_certificate(d1, d2, dist, rows.tolist(), kind, t)
    if bad:
        rep.violation("%s matching is not a certificate for %r: %s (rows %s, dgm1=%s, dgm2=%s)" % (fn, dist, bad[0], rows.tolist(), d1, d2),
                      "%s:matching:%s" % (fn, "cost" if "cost" in bad[0] or "costs" in bad[0] else "coverage"),
                      {"input": inp, "observed": {"distance": dist, "rows": rows.tolist()}, "problems": bad[:4], "call": "persim.%s(dgm1, dgm2, matching=True)" % fn})
        return False
    return True


def rand_dgm(rng, n, scale=1.0, lattice=False, offset=0.0):
    out = []
    for _ in range(n):
        if lattice:
            b = rng.choice([0, 1, 2, 3])
            d = b + rng.choice([0, 1, 1, 2, 3])
        else:
            b = rng.uniform(0, 4)
            d = b + rng.uniform(0, 3)
        out.append([offset + b * scale, offset + d * scale])
    return out


def enumerate_pairs(tier, rng):
    """exhaustive small scope + random pairs"""
    small = list(small_diagrams(max_pts=2, lattice=(0.0, 1.0, 2.0), with_inf=True))
    for a in small:
        for b in small:
            yield a, b, "small"
    # points far from and near the diagonal with shared coordinates: chains through shared points, dominant points
    far = [[0.0, 1.0], [0.0, 5.0], [0.0, 6.0], [0.0, 10.0], [1.0, 11.0], [2.0, 12.0], [1.0, 1.0], [1.0, 6.0]]
    import itertools
    multis = [[]] + [[p] for p in far] + [list(c) for c in itertools.combinations_with_replacement(far, 2)]
    for a in multis:
        for b in multis:
            yield [list(p) for p in a], [list(p) for p in b], "far"
    n = 150 if tier == "quick" else 4000
    for _ in range(n):
        lat = rng.random() < 0.5
        yield rand_dgm(rng, rng.randint(0, 4), lattice=lat), rand_dgm(rng, rng.randint(0, 4), lattice=lat), "random"
    for _ in range(40 if tier == "quick" else 600):
        s = rng.choice([1e-9, 1e-3, 1e3, 1e6])
        yield rand_dgm(rng, rng.randint(1, 3), scale=s), rand_dgm(rng, rng.randint(1, 3), scale=s), "scale"
    # ties up to rounding: decimal-grid bars against the same bar shrunk / widened / shifted by grid amounts - candidate costs that are
    # equal as real numbers but are computed along different routes and so may differ in the last bit
    k = 0
    for bi in range(0, 10):
        for li in range(3, 15, 1 if tier != "quick" else 2):
            for ei in (1, 2):
                b, d, e = bi / 10.0, (bi + li) / 10.0, ei / 10.0
                if d - e <= b + e:
                    continue
                k += 1
                extra = [[0.3, 0.5]] if k % 3 == 0 else []
                yield [[b, d]] + extra, [[b + e, d - e]], "decimal-ties"
                if k % 2 == 0:
                    yield [[b + e, d - e]] + extra, [[b, d], [0.2, 0.4]], "decimal-ties"
                if k % 5 == 0:
                    yield [[b, d], [b + e, d]], [[b + e, d + e]] + extra, "decimal-ties"
    # one pool of points split into the two diagrams at every position, in consecutive calls (the same numbers, cut differently)
    for _ in range(6 if tier == "quick" else 120):
        pool = rand_dgm(rng, rng.randint(3, 7), lattice=rng.random() < 0.5)
        for sp in range(len(pool) + 1):
            yield [list(p) for p in pool[:sp]], [list(p) for p in pool[sp:]], "split-pool"
    # rings: many bars of similar length arranged so that near and far partners alternate (long augmenting chains)
    for _ in range(3 if tier == "quick" else 40):
        k = rng.choice([13, 16, 20])
        R, r0 = rng.choice([3.0, 10.0]), rng.choice([0.5, 1.0])
        ring = lambda ph: [[10 + R * math.cos(2 * math.pi * (i + ph) / k) - 0.0, 10 + R * math.cos(2 * math.pi * (i + ph) / k) + 12 + r0 * math.sin(2 * math.pi * (i + ph) / k)] for i in range(k)]
        yield ring(0.0), ring(0.5), "ring"
        yield [[10 + R * math.cos(2 * math.pi * i / k), 25 + R * math.sin(2 * math.pi * i / k)] for i in range(k)], [[10 + R * math.cos(2 * math.pi * (i + 0.5) / k), 25 + R * math.sin(2 * math.pi * (i + 0.5) / k)] for i in range(k)], "ring"
    # alternating chains wound around a small square: S_i -far- T_i -near- S_{i+1} ... (not closed), all bars long, so the optimal
    # pairing is forced along the whole chain while cheap-looking alternatives need one expensive pairing
    def _sq(t, W):
        t = t % (4 * W)
        return (t, 0.0) if t <= W else ((W, t - W) if t <= 2 * W else ((3 * W - t, W) if t <= 3 * W else (0.0, 4 * W - t)))
    for (W, k) in ([(12, 13), (14, 16)] if tier == "quick" else [(12, 13), (14, 16), (16, 18), (20, 23), (10, 11), (13, 14)]):
        far, near = rng.choice([3.0, 2.5]), rng.choice([0.25, 0.5])
        S, T = [], []
        for i in range(k):
            x, y = _sq(i * (far + near), W)
            S.append([x, W + 7.0 + y])
            x, y = _sq(i * (far + near) + far, W)
            T.append([x, W + 7.0 + y])
        yield S, T, "chain"
        yield T, S, "chain"
    # persistences spanning 13 to 16 orders of magnitude: one huge bar shared by both diagrams (pairs with itself at cost 0) next to
    # ordinary bars, which then decide the value - nothing may be treated as negligible relative to the largest bar
    for _ in range(8 if tier == "quick" else 120):
        big = [0.0, rng.choice([1e13, 1e15, 1e16])]
        a = [p for p in rand_dgm(rng, rng.randint(1, 3), lattice=True) if p[1] > p[0]] or [[2.0, 3.0]]
        b = [p for p in rand_dgm(rng, rng.randint(0, 2), lattice=True) if p[1] > p[0]]
        pos = rng.randint(0, len(a))
        yield a[:pos] + [list(big)] + a[pos:], b + [list(big)], "extreme-ratio"
    # infinite deaths at every position (first, between finite points, last, several, all), in either or both diagrams
    for _ in range(80 if tier == "quick" else 1500):
        lat = rng.random() < 0.5
        ds = []
        for _k in range(2):
            d = rand_dgm(rng, rng.randint(0, 4), lattice=lat)
            for _j in range(rng.choice([0, 1, 1, 2])):
                d.insert(rng.randint(0, len(d)), [float(rng.randint(0, 3)), float("inf")])
            ds.append(d)
        yield ds[0], ds[1], "inf-position"


def hash_seed_run(kind, cases, seeds):
    """D3 (Hopcroft-Karp iterates over sets of strings): re-run cases in subprocesses under several PYTHONHASHSEEDs"""
    import json
    prog = ("import sys, json, warnings, numpy as np\nwarnings.simplefilter('ignore')\n"
            "from persim import bottleneck, wasserstein\n"
            "cases = json.load(sys.stdin)\nout = []\n"
            "for a, b in cases:\n"
            "    A = np.array(a, dtype=float).reshape(-1, 2); B = np.array(b, dtype=float).reshape(-1, 2)\n"
            "    f = bottleneck if %r == 'inf' else wasserstein\n"
            "    d, m = f(A, B, matching=True)\n"
            "    out.append([float(d), np.asarray(m, dtype=float).reshape(-1, 3).tolist()])\n"
            "print(json.dumps(out))\n" % kind)
    results = {}
    for s in seeds:
        env = dict(os.environ, PYTHONHASHSEED=str(s), PYTHONWARNINGS="ignore")
        p = subprocess.run([sys.executable, "-c", prog], input=json.dumps(cases), capture_output=True, text=True, env=env, timeout=600)
        if p.returncode != 0:
            results[s] = ("error", p.stderr[-300:])
        else:
            results[s] = ("ok", json.loads(p.stdout.strip().splitlines()[-1]))
    return results



def view_cases(rep, kind, rng, n):
    """diagrams handed over as views of one buffer (windows, strided selections, columns of a wider table, Fortran order): what counts
    is the points the views hold"""
    from persim import bottleneck, wasserstein
    f = bottleneck if kind == "inf" else wasserstein
    fn = "bottleneck" if kind == "inf" else "wasserstein"
    ev = 0
    for _ in range(n):
        k = rng.randint(4, 9)
        pts = np.array(rand_dgm(rng, k, lattice=rng.random() < 0.5), dtype=float)
        wide = np.hstack([pts, np.arange(k, dtype=float).reshape(-1, 1)])
        m = rng.randint(1, k // 2)
        views = [(pts[:m], pts[::2][:m]), (pts[:m], pts[1:m + 1]), (pts[::-1][:m], pts[:m]), (wide[:, :2][:m], wide[::2, :2][:m]), (np.asfortranarray(pts)[:m], pts[k - m:])]
        for A, B in views:
            la, lb = A.tolist(), B.tolist()
            snap = pts.copy()
            with warnings.catch_warnings():
                warnings.simplefilter("ignore")
                got = float(f(A, B))
            want = oracle(kind, la, lb)
            ev += 1
            if got != got or abs(got - want) > tol_for(kind, la, lb, want):
                rep.violation("%s of two views of one buffer = %r but the optimal matching cost of the points they hold (%s, %s) is %r" % (fn, got, la, lb, want), "%s:value:views" % fn,
                              {"input": {"dgm1": la, "dgm2": lb, "as_views_of_one_buffer": True}, "observed": got, "expected": want})
                return ev
            if not np.array_equal(pts, snap):
                rep.violation("%s wrote into the buffer its arguments are views of" % fn, "%s:views-mutated" % fn, {"input": {"dgm1": la, "dgm2": lb}})
                return ev
    return ev



def huge_typed_case(rep, kind, rng):
    """more than 2^20 point pairs, integer-typed first diagram (where implementations switch to blocked work):
    the value against an independent assignment on the cost matrix of the statement"""
    from persim import bottleneck, wasserstein
    from scipy.optimize import linear_sum_assignment
    fn = "bottleneck" if kind == "inf" else "wasserstein"
    if kind == "inf":
        return 0          # the bottleneck search on 2200 points takes minutes; the blocked-work family is exercised on Wasserstein
    M, N = 1300, 900
    A = np.array([[b, b + rng.randint(1, 40)] for b in (rng.randint(0, 200) for _ in range(M))], dtype=int)
    B = np.array([[b, b + rng.randint(1, 40)] for b in (rng.randint(0, 200) for _ in range(N))], dtype=int)
    with warnings.catch_warnings():
        warnings.simplefilter("ignore")
        got = float(wasserstein(A, B))
    Af, Bf = A.astype(float), B.astype(float)
    C = np.zeros((M + N, M + N))
    C[:M, :N] = np.sqrt(((Af[:, None, :] - Bf[None, :, :]) ** 2).sum(axis=2))
    C[:M, N:] = ((Af[:, 1] - Af[:, 0]) / math.sqrt(2))[:, None]
    C[M:, :N] = ((Bf[:, 1] - Bf[:, 0]) / math.sqrt(2))[None, :]
    r, c = linear_sum_assignment(C)
    want = float(C[r, c].sum())
    if abs(got - want) > 1e-7 * max(1.0, want):
        rep.violation("%s of integer-typed diagrams with %d x %d points = %r, the optimal matching cost is %r" % (fn, M, N, got, want), "%s:value:huge-typed" % fn,
                      {"input": {"generator": "random integer diagrams", "sizes": [M, N], "dtype": "int"}, "observed": got, "expected": want})
    return 1



def huge_typed_certificate(rep, rng):
    """the matching of an integer-typed 1300 x 900 Wasserstein problem: every row's cost follows the cost rule, rows cover the points,
    the sum is the reported distance"""
    from persim import wasserstein
    M, N = 1300, 900
    A = np.array([[b, b + rng.randint(1, 40)] for b in (rng.randint(0, 200) for _ in range(M))], dtype=int)
    B = np.array([[b, b + rng.randint(1, 40)] for b in (rng.randint(0, 200) for _ in range(N))], dtype=int)
    with warnings.catch_warnings():
        warnings.simplefilter("ignore")
        d, rows = wasserstein(A, B, matching=True)
    rows = np.asarray(rows, dtype=float)
    Af, Bf = A.astype(float), B.astype(float)
    bad = None
    seen_i, seen_j = set(), set()
    for i, j, c in rows:
        i, j = int(i), int(j)
        if i >= 0:
            seen_i.add(i)
        if j >= 0:
            seen_j.add(j)
        want = (math.hypot(*(Af[i] - Bf[j])) if i >= 0 and j >= 0 else ((Af[i, 1] - Af[i, 0]) / math.sqrt(2) if i >= 0 else ((Bf[j, 1] - Bf[j, 0]) / math.sqrt(2) if j >= 0 else 0.0)))
        if abs(c - want) > 1e-9 * max(1.0, want):
            bad = "row (%d, %d) carries cost %r, the cost rule gives %r" % (i, j, c, want)
            break
    if bad is None and (len(seen_i) != M or len(seen_j) != N):
        bad = "rows cover %d / %d points of the two diagrams (%d / %d expected)" % (len(seen_i), len(seen_j), M, N)
    if bad is None and abs(float(rows[:, 2].sum()) - float(d)) > 1e-7 * max(1.0, float(d)):
        bad = "sum of the row costs %r differs from the reported distance %r" % (float(rows[:, 2].sum()), float(d))
    if bad:
        rep.violation("wasserstein matching of integer-typed diagrams with %d x %d points is not a certificate: %s" % (M, N, bad), "wasserstein:matching:huge-typed",
                      {"input": {"generator": "random integer diagrams", "sizes": [M, N], "dtype": "int"}, "problem": bad})
    return 1
