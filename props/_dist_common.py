"""shared bounded stand-ins for the bottleneck / Wasserstein properties (C01, C02, C06, C07)"""
import math
import os
import random
import subprocess
import sys
import warnings

import numpy as np

from standins.matching_oracle import (bottleneck_oracle, check_certificate, small_diagrams, wasserstein_oracle)

ROOT = os.path.dirname(os.path.dirname(os.path.abspath(__file__)))


def call(kind, d1, d2, matching=False):
    from persim import bottleneck, wasserstein
    f = bottleneck if kind == "inf" else wasserstein
    a = np.array(d1, dtype=float).reshape(-1, 2) if len(d1) else np.zeros((0, 2))
    b = np.array(d2, dtype=float).reshape(-1, 2) if len(d2) else np.zeros((0, 2))
    with warnings.catch_warnings(record=True) as w:
        warnings.simplefilter("always")
        r = f(a, b, matching=matching)
    return r, [str(x.message) for x in w]


def oracle(kind, d1, d2):
    return bottleneck_oracle(d1, d2) if kind == "inf" else wasserstein_oracle(d1, d2)


def tol_for(kind, d1, d2, want):
    mag = max([abs(x) for p in list(d1) + list(d2) for x in p if math.isfinite(x)] + [0.0])
    n = len(d1) + len(d2) + 1
    # DESIGN 2.6: 64 ulp of the largest operand times the number of accumulated terms
    return 64 * 2.3e-16 * max(mag, abs(want)) * (n if kind == "2" else 1) + 1e-300


def classify(d1, d2):
    def has_dup(d):
        t = [tuple(p) for p in d]
        return len(set(t)) != len(t)
    feats = []
    if not d1 or not d2:
        feats.append("empty")
    if has_dup(d1) or has_dup(d2):
        feats.append("repeated")
    if any(p[0] == p[1] for p in list(d1) + list(d2)):
        feats.append("diagonal-point")
    if any(math.isinf(p[1]) for p in list(d1) + list(d2)):
        feats.append("infinite")
    if len(d1) != len(d2):
        feats.append("sizes-differ")
    return "+".join(feats) or "generic"


def value_case(rep, kind, d1, d2, name):
    (got), warns = call(kind, d1, d2)
    got = float(got)
    want = oracle(kind, d1, d2)
    inp = {"dgm1": d1, "dgm2": d2}
    fn = "bottleneck" if kind == "inf" else "wasserstein"
    if got != got or abs(got - want) > tol_for(kind, d1, d2, want):
        rep.violation("%s(%s, %s) = %r but the optimal matching cost is %r" % (fn, d1, d2, got, want), "%s:value:%s" % (fn, classify(d1, d2)),
                      {"input": inp, "observed": got, "expected": want, "call": "persim.%s(dgm1, dgm2)" % fn})
        return False
    has_inf = [any(math.isinf(p[1]) for p in d) for d in (d1, d2)]
    for k, nm in enumerate(("dgm1", "dgm2")):
        warned = any(nm in w for w in warns)
        if warned != has_inf[k]:
            rep.violation("%s: warning about %s %s although it %s infinite deaths" % (fn, nm, "issued" if warned else "missing", "has" if has_inf[k] else "has no"),
                          "%s:warning" % fn, {"input": inp, "observed": warns})
            return False
    return True


def certificate_case(rep, kind, d1, d2):
    fn = "bottleneck" if kind == "inf" else "wasserstein"
    (res), _ = call(kind, d1, d2, matching=True)
    inp = {"dgm1": d1, "dgm2": d2}
    try:
        dist, rows = res
        dist = float(dist)
        rows = np.asarray(rows, dtype=float).reshape(-1, 3) if len(rows) else np.zeros((0, 3))
    except Exception as ex:
        rep.violation("%s(matching=True) did not return (distance, rows): %r" % (fn, ex), "%s:matching:shape" % fn, {"input": inp, "observed": repr(res)})
        return False
    (plain), _ = call(kind, d1, d2)
    t = tol_for(kind, d1, d2, dist) * 4
    if abs(float(plain) - dist) > t:
        rep.violation("%s distance with matching %r differs from without %r" % (fn, dist, float(plain)), "%s:matching:distance-differs" % fn, {"input": inp, "observed": [dist, float(plain)]})
        return False
    bad = check_certificate(d1, d2, dist, rows.tolist(), kind, t)
    if bad:
        rep.violation("%s matching is not a certificate for %r: %s (rows %s, dgm1=%s, dgm2=%s)" % (fn, dist, bad[0], rows.tolist(), d1, d2),
                      "%s:matching:%s" % (fn, "cost" if "cost" in bad[0] or "costs" in bad[0] else "coverage"),
                      {"input": inp, "observed": {"distance": dist, "rows": rows.tolist()}, "problems": bad[:4], "call": "persim.%s(dgm1, dgm2, matching=True)" % fn})
        return False
    return True


def rand_dgm(rng, n, scale=1.0, lattice=False, offset=0.0):
    out = []
    for _ in range(n):
        if lattice:
            b = rng.choice([0, 1, 2, 3])
            d = b + rng.choice([0, 1, 1, 2, 3])
        else:
            b = rng.uniform(0, 4)
            d = b + rng.uniform(0, 3)
        out.append([offset + b * scale, offset + d * scale])
    return out


def enumerate_pairs(tier, rng):
    """exhaustive small scope + random pairs"""
    small = list(small_diagrams(max_pts=2, lattice=(0.0, 1.0, 2.0), with_inf=True))
    for a in small:
        for b in small:
            yield a, b, "small"
    # points far from and near the diagonal with shared coordinates: chains through shared points, dominant points
    far = [[0.0, 1.0], [0.0, 5.0], [0.0, 6.0], [0.0, 10.0], [1.0, 11.0], [2.0, 12.0], [1.0, 1.0], [1.0, 6.0]]
    import itertools
    multis = [[]] + [[p] for p in far] + [list(c) for c in itertools.combinations_with_replacement(far, 2)]
    for a in multis:
        for b in multis:
            yield [list(p) for p in a], [list(p) for p in b], "far"
    n = 150 if tier == "quick" else 4000
    for _ in range(n):
        lat = rng.random() < 0.5
        yield rand_dgm(rng, rng.randint(0, 4), lattice=lat), rand_dgm(rng, rng.randint(0, 4), lattice=lat), "random"
    for _ in range(40 if tier == "quick" else 600):
        s = rng.choice([1e-9, 1e-3, 1e3, 1e6])
        yield rand_dgm(rng, rng.randint(1, 3), scale=s), rand_dgm(rng, rng.randint(1, 3), scale=s), "scale"
    # ties up to rounding: decimal-grid bars against the same bar shrunk / widened / shifted by grid amounts - candidate costs that are
    # equal as real numbers but are computed along different routes and so may differ in the last bit
    k = 0
    for bi in range(0, 10):
        for li in range(3, 15, 1 if tier != "quick" else 2):
            for ei in (1, 2):
                b, d, e = bi / 10.0, (bi + li) / 10.0, ei / 10.0
                if d - e <= b + e:
                    continue
                k += 1
                extra = [[0.3, 0.5]] if k % 3 == 0 else []
                yield [[b, d]] + extra, [[b + e, d - e]], "decimal-ties"
                if k % 2 == 0:
                    yield [[b + e, d - e]] + extra, [[b, d], [0.2, 0.4]], "decimal-ties"
                if k % 5 == 0:
                    yield [[b, d], [b + e, d]], [[b + e, d + e]] + extra, "decimal-ties"
    # infinite deaths at every position (first, between finite points, last, several, all), in either or both diagrams
    for _ in range(80 if tier == "quick" else 1500):
        lat = rng.random() < 0.5
        ds = []
        for _k in range(2):
            d = rand_dgm(rng, rng.randint(0, 4), lattice=lat)
            for _j in range(rng.choice([0, 1, 1, 2])):
                d.insert(rng.randint(0, len(d)), [float(rng.randint(0, 3)), float("inf")])
            ds.append(d)
        yield ds[0], ds[1], "inf-position"


def hash_seed_run(kind, cases, seeds):
    """D3 (Hopcroft-Karp iterates over sets of strings): re-run cases in subprocesses under several PYTHONHASHSEEDs"""
    import json
    prog = ("import sys, json, warnings, numpy as np\nwarnings.simplefilter('ignore')\n"
            "from persim import bottleneck, wasserstein\n"
            "cases = json.load(sys.stdin)\nout = []\n"
            "for a, b in cases:\n"
            "    A = np.array(a, dtype=float).reshape(-1, 2); B = np.array(b, dtype=float).reshape(-1, 2)\n"
            "    f = bottleneck if %r == 'inf' else wasserstein\n"
            "    d, m = f(A, B, matching=True)\n"
            "    out.append([float(d), np.asarray(m, dtype=float).reshape(-1, 3).tolist()])\n"
            "print(json.dumps(out))\n" % kind)
    results = {}
    for s in seeds:
        env = dict(os.environ, PYTHONHASHSEED=str(s), PYTHONWARNINGS="ignore")
        p = subprocess.run([sys.executable, "-c", prog], input=json.dumps(cases), capture_output=True, text=True, env=env, timeout=600)
        if p.returncode != 0:
            results[s] = ("error", p.stderr[-300:])
        else:
            results[s] = ("ok", json.loads(p.stdout.strip().splitlines()[-1]))
    return results
