"""C11 - persistence images are additive, order-free and call-style independent"""
import random

import numpy as np

from vlib.deductive import run_contracts
from . import _img_common as ic

LEVEL = "proof"


def _standin(rep, tier, seed, only_search=False):
    rng = random.Random(seed * 43 + 11)
    n = 40 if tier == "quick" else 800
    jobs = [None, 1, 2] if tier == "quick" else [None, 1, 2, 4]
    evals, distinct, samples = 0, set(), []

    def viol(name, cfg, payload, what):
        rep.violation(what, "image-law:" + name, {"input": dict(payload, config=cfg), "law": name})

    for it in range(n):
        cfg = ic.rand_cfg(rng)
        pi = ic.make_imager(cfg)
        F = ic.rand_dgm(rng, rng.randint(1, 4), cfg)
        G = ic.rand_dgm(rng, rng.randint(0, 3), cfg)
        # make sure zero-weight points (on the diagonal) occur in front of others
        if rng.random() < 0.5:
            F = [[F[0][0], F[0][0]]] + F
        tol = ic.pixel_tol(F + G, cfg) * 4
        I_F = ic.transform(pi, F)
        checks = []
        if G:
            checks.append(("additive", np.max(np.abs(ic.transform(pi, F + G) - (I_F + ic.transform(pi, G)))) <= tol, {"F": F, "G": G}))
        # points far outside the imaged region (tens to hundreds of kernel widths away, in birth or in persistence) contribute
        # numerically nothing - and must not change what the other points contribute, wherever they stand in the diagram
        kp = cfg["kernel_params"]
        width = max(kp.get("width", 0), kp.get("height", 0)) if cfg["kernel"] == "uniform" else float(np.sqrt(np.max(np.abs(np.array(kp["sigma"], dtype=float)))))
        far = rng.choice([45, 80, 300]) * max(width, 1e-3)
        b0 = rng.uniform(*cfg["birth_range"])
        pt = rng.choice([[b0, b0 + cfg["pers_range"][1] + far], [cfg["birth_range"][0] - far, cfg["birth_range"][0] - far + cfg["pers_range"][1] + far],
                         [cfg["birth_range"][1] + far, cfg["birth_range"][1] + far + rng.uniform(0, 1)], [cfg["birth_range"][0] - far, cfg["birth_range"][0] - far + rng.uniform(0.1, 1)]])
        Ffar = F[:]
        Ffar.insert(rng.randint(0, len(F)), pt)
        tol_far = ic.pixel_tol(Ffar, cfg) * 4
        checks.append(("additive-far-point", np.max(np.abs(ic.transform(pi, Ffar) - (I_F + ic.transform(pi, [pt])))) <= tol_far, {"F": F, "with_far_point": Ffar}))
        perm = F[:]
        rng.shuffle(perm)
        checks.append(("order-free", np.max(np.abs(ic.transform(pi, perm) - I_F)) <= tol, {"F": F, "perm": perm}))
        if cfg["weight"] == "persistence" or cfg["weight_params"].get("low", 0) == 0 and cfg["weight_params"].get("start", 0) >= 0:
            z = [[0.3, 0.3]]
            checks.append(("zero-weight-point", np.max(np.abs(ic.transform(pi, z + F) - I_F)) <= tol, {"F": F, "zero": z}))
        checks.append(("image-has-the-configured-resolution", tuple(I_F.shape) == tuple(pi.resolution), {"F": F, "shape": list(I_F.shape), "resolution": list(pi.resolution)}))
        if it % 5 == 0:
            # large diagrams (dozens of points) split in two: additivity must not depend on how many points a call handles
            nbig = rng.choice([33, 40, 64, 70])
            Fb = ic.rand_dgm(rng, nbig, cfg)
            cut = rng.choice([1, nbig // 2, nbig - 1, 16, 31])
            tolb = ic.pixel_tol(Fb, cfg) * 4
            whole = ic.transform(pi, Fb)
            checks.append(("additive-large", np.max(np.abs(whole - (ic.transform(pi, Fb[:cut]) + ic.transform(pi, Fb[cut:])))) <= tolb, {"F": Fb, "split_at": cut}))
        E = pi.transform(np.zeros((0, 2)))
        checks.append(("empty-diagram", isinstance(E, np.ndarray) and E.shape == tuple(pi.resolution) and not E.any(), {"shape": list(np.shape(E))}))
        L = pi.transform([np.array(F), np.array(G).reshape(-1, 2) if G else np.array(F)])
        checks.append(("single-vs-collection", isinstance(L, list) and len(L) == 2 and np.array_equal(L[0], I_F), {"F": F}))
        # worker pools are restarted whenever n_jobs changes (seconds each): the parallel sweep runs on every 6th imager in the thorough tier
        for j in (jobs[1:] if (tier == "quick" or it % 6 == 0) else []):
            Pj = pi.transform([np.array(F), np.array(F[::-1])], n_jobs=j)
            checks.append(("serial-vs-parallel", isinstance(Pj, list) and len(Pj) == 2 and np.array_equal(Pj[0], I_F), {"F": F, "n_jobs": j}))
            Pk = pi.transform([np.array([[b, d - b] for b, d in F])], skew=False, n_jobs=j)
            checks.append(("parallel-skew-false", np.max(np.abs(Pk[0] - I_F)) <= tol, {"F": F, "n_jobs": j}))
        S = pi.transform(np.array([[b, d - b] for b, d in F]), skew=False)
        checks.append(("skew-equivalence", np.max(np.abs(S - I_F)) <= tol, {"F": F}))
        wsum = sum(ic.weight_value(cfg["weight"], cfg["weight_params"], b, d - b) for b, d in F)
        if all(ic.weight_value(cfg["weight"], cfg["weight_params"], b, d - b) >= 0 for b, d in F):
            checks.append(("nonnegative-pixels", float(I_F.min()) >= -tol, {"F": F, "min": float(I_F.min())}))
            checks.append(("total-at-most-total-weight", float(I_F.sum()) <= wsum + tol * I_F.size, {"F": F, "sum": float(I_F.sum()), "weights": wsum}))
        for name, ok, payload in checks:
            evals += 1
            distinct.add((name, cfg["kclass"], cfg["weight"]))
            if not bool(ok):
                viol(name, cfg, payload, "image law '%s' fails for kernel %s / weight %s: %s" % (name, cfg["kclass"], cfg["weight"], payload))
                if only_search:
                    return
        if len(samples) < 2:
            samples.append({"config": cfg, "F": F, "G": G})
    # several imagers in one process whose pixel grids share origin and resolution but not the pixel size (scaled copies of one
    # configuration): every one of them images on its own grid - serial, parallel and additive all the same
    for it in range(6 if tier == "quick" else 120):
        cfg = ic.rand_cfg(rng)
        for c in (1.0, 2.0, 0.5):
            sc = dict(cfg)
            b0 = cfg["birth_range"][0]
            sc["birth_range"] = (b0, b0 + c * (cfg["birth_range"][1] - b0))
            sc["pers_range"] = (0.0, c * cfg["pers_range"][1])
            sc["pixel_size"] = c * cfg["pixel_size"]
            pi = ic.make_imager(sc)
            F = ic.rand_dgm(rng, 3, sc, outside=False)
            I1 = ic.transform(pi, F)
            tol = ic.pixel_tol(F, sc) * 4
            P2 = pi.transform([np.array(F), np.array(F)], n_jobs=2)
            parts = ic.transform(pi, F[:1]) + ic.transform(pi, F[1:])
            want = ic.oracle_image(F, True, sc["birth_range"], sc["pers_range"], sc["pixel_size"], sc["weight"], sc["weight_params"], sc["kernel"], sc["kernel_params"], pi._bpnts, pi._ppnts)
            if I1.shape != want.shape or float(np.max(np.abs(I1 - want))) > ic.pixel_tol(F, sc):
                viol("call-history-independence", sc, {"F": F, "scale": c}, "the %r-scaled copy of a configuration imaged earlier in the same process gives pixels that differ from the weighted kernel mass on ITS grid by %r (kernel %s)"
                     % (c, float(np.max(np.abs(I1 - want))) if I1.shape == want.shape else "shape", cfg["kclass"]))
                if only_search:
                    return
            evals += 2
            distinct.add(("scaled-config", cfg["kclass"], c))
            for name, ok, payload in (("serial-vs-parallel", np.max(np.abs(P2[0] - I1)) <= tol, {"F": F, "n_jobs": 2, "scale": c}), ("additive", np.max(np.abs(parts - I1)) <= tol, {"F": F, "scale": c})):
                if not bool(ok):
                    viol(name, sc, payload, "image law '%s' fails for the %r-scaled copy of a configuration imaged earlier in the same process (kernel %s): %s" % (name, c, cfg["kclass"], payload))
                    if only_search:
                        return
    if not only_search:
        rep.bounded("image-laws", "%d random imagers x diagrams; n_jobs in %s" % (n, jobs), evals, len(distinct),
                    "distinct = (law, kernel class, weight); additivity, order, zero weight, empty, single/collection, serial/parallel (skew both ways), skew equivalence, non-negativity, total <= total weight",
                    samples)


def _replay_search(a):
    class C:
        def __init__(self):
            self.v = []

        def violation(self, what, sig, payload, **k):
            self.v.append((what, sig, payload))

        def note(self, *a):
            pass

        def bounded(self, *a, **k):
            pass
    c = C()
    _standin(c, "quick", 0, only_search=True)
    if c.v:
        what, sig, payload = c.v[0]
        return True, payload, sig, what
    return False, None, None, None


def _purity(rep, seed=0):
    from vlib.deductive import purity_probe
    import warnings
    rng = random.Random(seed + 4)
    calls = []
    for _ in range(6):
        cfg = ic.rand_cfg(rng)
        pi = ic.make_imager(cfg)
        D = np.array(ic.rand_dgm(rng, rng.randint(1, 4), cfg), dtype=float)
        D2 = D.copy()[::-1].copy()
        sk = rng.random() < 0.7
        calls.append(("PersistenceImager.transform(D, skew=%s) on a float64 array, kernel %s" % (sk, cfg["kclass"]), (lambda pi=pi, D=D, sk=sk: pi.transform(D, skew=sk)), [D]))
        calls.append(("PersistenceImager.transform([D, D2], skew=%s) on float64 arrays" % sk, (lambda pi=pi, D=D, D2=D2, sk=sk: pi.transform([D, D2], skew=sk)), [D, D2]))
    with warnings.catch_warnings():
        warnings.simplefilter("ignore")
        return purity_probe(rep, "PersistenceImager.transform", calls, "image:argument-modified")


def _replay_frame(a):
    class C:
        def __init__(self):
            self.v = []

        def violation(self, what, sig, payload, **k):
            self.v.append((what, sig, payload))
    c = C()
    _purity(c)
    if c.v:
        what, sig, payload = c.v[0]
        return True, payload, sig, what
    return False, None, None, None


def run(rep, tier, seed):
    from contracts.c04_images import c11_contracts
    cs, table = c11_contracts(tier)
    run_contracts(rep, cs, table, tier=tier, pid="C11", replayers=[(r"\.frame\.", _replay_frame), (r"transform", _replay_search)])
    _purity(rep, seed)
    rep.assume("D17 joblib.Parallel(n_jobs)(delayed(f)(...) ...) == [f(...) ...] in order, for every scheduling",
               "corollaries of the pixel contract (C04): additivity / order freedom / zero weight by Sigma-split and Sigma-commutativity (meta-rules), non-negativity by rectangle monotonicity of the kernel (C13) - sampled",
               "_transform enters PersistenceImager.transform through its contract; parameter binding uses the real signature")
    _standin(rep, tier, seed)


def replay(doc):
    print("replay C11: law %s ; input in the file; re-run ./check C11 for the comparison" % doc["payload"].get("law"))
    return 1
