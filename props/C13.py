"""C13 - Gaussian/uniform kernels are valid, accurate cumulative distribution functions"""
import math
import random
import warnings

import numpy as np

from vlib.deductive import run_contracts

LEVEL = "other"       # mixed: control skeleton / dispatch / tables proved; quadrature accuracy bounded (DESIGN C13)


def _gauss(xs, ys, mu, S):
    from persim.images_kernels import gaussian
    with warnings.catch_warnings():
        warnings.simplefilter("ignore")
        return np.asarray(gaussian(np.asarray(xs, float), np.asarray(ys, float), mu=np.asarray(mu, float), sigma=np.asarray(S, float)), float)


def _ref_scipy(x, y, mu, S):
    """reference CDF in standardised coordinates (unit variances), so that tiny variances do not make SciPy reject the covariance"""
    from scipy.stats import multivariate_normal as mvn
    sx, sy = math.sqrt(S[0][0]), math.sqrt(S[1][1])
    r = S[0][1] / (sx * sy)
    return float(mvn(mean=[0.0, 0.0], cov=[[1.0, r], [r, 1.0]], allow_singular=False).cdf([(x - mu[0]) / sx, (y - mu[1]) / sy]))


def _ref_mpmath(x, y, mu, S):
    """independent oracle: P(X<=x, Y<=y) = int_{-inf}^{x} phi(u) Phi((k - r u')/sqrt(1-r^2)) du  (1-d integral of the conditional)"""
    import mpmath as mp
    mp.mp.dps = 30
    sx, sy = mp.sqrt(S[0][0]), mp.sqrt(S[1][1])
    r = mp.mpf(S[0][1]) / (sx * sy)
    h, k = (mp.mpf(x) - mu[0]) / sx, (mp.mpf(y) - mu[1]) / sy
    f = lambda u: mp.npdf(u) * mp.ncdf((k - r * u) / mp.sqrt(1 - r * r))
    lo = min(h, mp.mpf(-12))
    pts = [lo, h] if h <= -12 else [lo, min(h, 0), h] if h > 0 else [lo, h]
    return float(mp.quad(f, pts))


R_VALUES = [0.05, 0.29, 0.31, 0.5, 0.74, 0.76, 0.9, 0.92, 0.924, 0.926, 0.93, 0.95, 0.99, 0.999]


def _cases(rng, n):
    for _ in range(n):
        r = rng.choice(R_VALUES) * rng.choice([1, -1])
        lo = rng.choice([-2, -2, -9])          # variances over many orders of magnitude, down to 1e-9
        vx, vy = 10 ** rng.uniform(lo, 2), 10 ** rng.uniform(lo, 2)
        mu = [rng.uniform(-3, 3), rng.uniform(-3, 3)]
        c = r * math.sqrt(vx * vy)
        S = [[vx, c], [c, vy]]
        h = rng.choice([rng.uniform(-3, 3), rng.uniform(-7, 7), rng.choice([-9.0, 9.0])])
        k = rng.choice([rng.uniform(-3, 3), h + rng.uniform(-0.3, 0.3), rng.uniform(-7, 7)])
        yield r, mu, S, mu[0] + h * math.sqrt(vx), mu[1] + k * math.sqrt(vy), h, k


def _far_tail_cases(rng, n):
    """evaluation points tens to thousands of standard deviations from the mean, in all four quadrants: the exact value is a marginal"""
    for _ in range(n):
        r = rng.choice(R_VALUES) * rng.choice([1, -1])
        vx, vy = 10 ** rng.uniform(-6, 2), 10 ** rng.uniform(-6, 2)
        mu = [rng.uniform(-3, 3), rng.uniform(-3, 3)]
        S = [[vx, r * math.sqrt(vx * vy)], [r * math.sqrt(vx * vy), vy]]
        big = rng.choice([45.0, 150.0, 250.0, 1000.0, 1e5])
        h = rng.choice([big, -big, rng.uniform(-3, 3)])
        k = rng.choice([big, -big]) if abs(h) < 40 else rng.choice([big, -big, rng.uniform(-3, 3)])
        if h <= -40 or k <= -40:
            want = 0.0
        elif h >= 40 and k >= 40:
            want = 1.0
        elif h >= 40:
            want = 0.5 * math.erfc(-k / math.sqrt(2))
        else:
            want = 0.5 * math.erfc(-h / math.sqrt(2))
        yield r, mu, S, mu[0] + h * math.sqrt(vx), mu[1] + k * math.sqrt(vy), h, k, want


def _sig(r):
    return "bvn:%s" % ("high-correlation" if abs(r) >= 0.925 else "low-correlation")


def _standin(rep, tier, seed, only_search=False):
    rng = random.Random(seed * 13 + 13)
    n = 1500 if tier == "quick" else 60000
    n_mp = 40 if tier == "quick" else 1500
    evals, distinct, samples = 0, set(), []
    worst = 0.0
    for idx, (r, mu, S, x, y, h, k) in enumerate(_cases(rng, n)):
        got = float(_gauss([x], [y], mu, S)[0])
        want = _ref_scipy(x, y, mu, S)
        evals += 1
        distinct.add((round(r, 3), int(h), int(k)))
        inp = {"x": x, "y": y, "mu": mu, "sigma": S, "r": r}
        if len(samples) < 3:
            samples.append(dict(inp, got=got, scipy=want))
        err = abs(got - want)
        worst = max(worst, err if got == got else 1.0)
        bad = None
        if got != got or err > 1e-7:
            bad = "gaussian kernel = %r but the bivariate normal CDF is %r (|err|=%.2e) at r=%s" % (got, want, err, r)
        elif not (-1e-12 <= got <= 1 + 1e-12):
            bad = "CDF value %r outside [0,1] at r=%s" % (got, r)
        if bad:
            try:
                ref2 = _ref_mpmath(x, y, mu, S)
            except Exception:
                ref2 = None
            if ref2 is None or abs(ref2 - want) < 1e-6:      # the two independent references agree: it is the kernel
                rep.violation(bad, _sig(r) + ":accuracy", {"input": inp, "observed": got, "expected": want, "mpmath": ref2,
                                                              "call": "persim.images_kernels.gaussian([x],[y],mu=mu,sigma=sigma)"})
                if only_search:
                    return
        if idx < n_mp and not only_search:
            ref2 = _ref_mpmath(x, y, mu, S)
            evals += 1
            if abs(ref2 - want) > 1e-8:
                rep.note("reference disagreement scipy %r vs mpmath %r at %s" % (want, ref2, inp))
            if got == got and abs(got - ref2) > 1e-7:
                rep.violation("gaussian kernel = %r but an independent integral of the density gives %r at r=%s" % (got, ref2, r), _sig(r) + ":accuracy",
                              {"input": inp, "observed": got, "expected": ref2, "call": "persim.images_kernels.gaussian([x],[y],mu=mu,sigma=sigma)"})
    for (r, mu, S, x, y, h, k, want) in _far_tail_cases(rng, 300 if tier == "quick" else 8000):
        got = float(_gauss([x], [y], mu, S)[0])
        evals += 1
        distinct.add(("far", round(r, 3), h > 0, k > 0))
        if got != got or abs(got - want) > 1e-7:
            rep.violation("far tail: gaussian kernel = %r at (h, k) = (%r, %r) standard deviations from the mean with r=%s; the CDF there is %r" % (got, h, k, r, want), _sig(r) + ":far-tail",
                          {"input": {"x": x, "y": y, "mu": mu, "sigma": S, "r": r}, "observed": repr(got), "expected": want, "call": "persim.images_kernels.gaussian([x],[y],mu=mu,sigma=sigma)"})
            if only_search:
                return
            break
    if only_search:
        return
    # shape laws: monotone in each argument, rectangle mass >= 0, tails
    m = 150 if tier == "quick" else 4000
    for _ in range(m):
        r, mu, S, x, y, h, k = next(_cases(rng, 1))
        dx, dy = rng.uniform(0, 2) * math.sqrt(S[0][0]), rng.uniform(0, 2) * math.sqrt(S[1][1])
        v = _gauss([x, x + dx, x, x + dx], [y, y, y + dy, y + dy], mu, S)
        evals += 1
        inp = {"x": x, "y": y, "dx": dx, "dy": dy, "mu": mu, "sigma": S, "r": r}
        if not (v[1] >= v[0] - 2e-7 and v[2] >= v[0] - 2e-7 and v[3] >= v[1] - 2e-7 and v[3] >= v[2] - 2e-7):
            rep.violation("CDF not monotone: %s at %s" % (v.tolist(), inp), _sig(r) + ":monotone", {"input": inp, "observed": v.tolist()})
        mass = v[3] - v[1] - v[2] + v[0]
        if mass < -4e-7:
            rep.violation("negative rectangle mass %r at %s" % (mass, inp), _sig(r) + ":rectangle", {"input": inp, "observed": float(mass)})
        far = 40.0
        t = _gauss([mu[0] + far * math.sqrt(S[0][0]), mu[0] - far * math.sqrt(S[0][0])], [mu[1] + far * math.sqrt(S[1][1]), mu[1] - far * math.sqrt(S[1][1])], mu, S)
        if abs(t[0] - 1) > 1e-7 or abs(t[1]) > 1e-7:
            rep.violation("tails: CDF(+far)=%r CDF(-far)=%r" % (t[0], t[1]), _sig(r) + ":tails", {"input": inp, "observed": t.tolist()})
    # zero covariance = product of marginals; uniform = box CDF
    from persim.images_kernels import uniform, norm_cdf
    for _ in range(100):
        vx, vy = 10 ** rng.uniform(-2, 2), 10 ** rng.uniform(-2, 2)
        mu = [rng.uniform(-3, 3), rng.uniform(-3, 3)]
        x, y = mu[0] + rng.uniform(-5, 5) * math.sqrt(vx), mu[1] + rng.uniform(-5, 5) * math.sqrt(vy)
        got = float(_gauss([x], [y], mu, [[vx, 0.0], [0.0, vy]])[0])
        want = 0.5 * math.erfc(-(x - mu[0]) / math.sqrt(2 * vx)) * 0.5 * math.erfc(-(y - mu[1]) / math.sqrt(2 * vy))
        evals += 1
        if abs(got - want) > 1e-12:
            rep.violation("zero covariance: %r vs product of marginals %r" % (got, want), "gaussian:product-form", {"input": {"x": x, "y": y, "mu": mu, "var": [vx, vy]}, "observed": got, "expected": want})
        w, hgt = rng.uniform(0.1, 3), rng.uniform(0.1, 3)
        u = float(uniform(np.array([x]), np.array([y]), mu=mu, width=w, height=hgt)[0])
        wu = min(max((x - (mu[0] - w / 2)) / w, 0), 1) * min(max((y - (mu[1] - hgt / 2)) / hgt, 0), 1)
        if abs(u - wu) > 1e-12:
            rep.violation("uniform kernel %r vs box CDF %r" % (u, wu), "uniform:value", {"input": {"x": x, "y": y, "mu": mu, "width": w, "height": hgt}, "observed": u, "expected": wu})
    rep.bounded("bvn-accuracy-and-shape", "%d random points: r in +-%s, variances 1e-2..1e2, standardised arguments in [-9,9] incl. near-diagonal; %d also against an mpmath integral" % (n, R_VALUES, n_mp),
                evals, len(distinct), "distinct = (r, floor h, floor k); |kernel - scipy mvn cdf| <= 1e-7 (worst seen %.2e), range, monotonicity, rectangle mass, tails, product form, box CDF" % worst,
                samples)


def _replay_search(a):
    class C:
        def __init__(self):
            self.v = []

        def violation(self, what, sig, payload, **k):
            self.v.append((what, sig, payload))

        def note(self, *a):
            pass

        def bounded(self, *a, **k):
            pass
    c = C()
    _standin(c, "quick", 0, only_search=True)
    if c.v:
        what, sig, payload = c.v[0]
        return True, payload, sig, what
    return False, None, None, None


def run(rep, tier, seed):
    from contracts.c13_kernels import all_contracts
    cs, table = all_contracts(tier)
    run_contracts(rep, cs, table, tier=tier, replayers=[(r"bvn_cdf|gauss_legendre|gaussian|sbvn|norm_cdf|uniform", _replay_search)], budget_s=400)
    rep.assume("D8 erfc uninterpreted; sqrt/exp/sin/arcsin uninterpreted (A6)",
               "bvn_cdf: arithmetic definedness (divisions, square roots) assumed, not checked; only the control skeleton (standardisation, regime, guards, sign flip, final combination) is proved",
               "the 1e-7 accuracy, range, monotonicity and rectangle positivity of the correlated CDF are decided numerically only (bounded): scipy.stats.multivariate_normal and an mpmath integral are the references")
    _standin(rep, tier, seed)


def replay(doc):
    inp = doc["payload"].get("input", {})
    if "sigma" in inp and "x" in inp:
        got = float(_gauss([inp["x"]], [inp["y"]], inp["mu"], inp["sigma"])[0])
        want = _ref_scipy(inp["x"], inp["y"], inp["mu"], inp["sigma"])
        ok = got == got and abs(got - want) <= 1e-7
        print("replay C13: gaussian(%s,%s; mu=%s, sigma=%s) -> %r ; reference %r ; %s" % (inp["x"], inp["y"], inp["mu"], inp["sigma"], got, want, "HOLDS" if ok else "VIOLATED"))
        return 0 if ok else 1
    print("replay C13: %s" % doc.get("what"))
    return 1
