"""C09 - landscape arithmetic is pointwise and leaves operands untouched"""
import copy
import itertools
import random
import time
import warnings
from fractions import Fraction

import numpy as np

from vlib.deductive import run_contracts

LEVEL = "other"


# ----------------------------------------------------------------------------- E2: the slope-merge chain of exact addition
def _e2_shard(args):
    na, nb, prefixes, budget = args
    import z3
    from persim.landscapes.auxiliary import pos_to_slope_interp, slope_to_pos_interp, sum_slopes
    from pysym.core import SR, Explorer
    xa = [z3.Real("xa%d" % i) for i in range(na)]
    ya = [z3.RealVal(0)] + [z3.Real("ya%d" % i) for i in range(1, na - 1)] + [z3.RealVal(0)]
    xb = [z3.Real("xb%d" % i) for i in range(nb)]
    yb = [z3.RealVal(0)] + [z3.Real("yb%d" % i) for i in range(1, nb - 1)] + [z3.RealVal(0)]
    assume = [a < b for a, b in zip(xa, xa[1:])] + [a < b for a, b in zip(xb, xb[1:])]     # wf: abscissae strictly increasing, end ordinates 0

    def run():
        A = [[SR(x), SR(y)] for x, y in zip(xa, ya)]
        B = [[SR(x), SR(y)] for x, y in zip(xb, yb)]
        return slope_to_pos_interp(sum_slopes(pos_to_slope_interp(A), pos_to_slope_interp(B)))

    def pl(xs, ys, t):
        v = z3.RealVal(0)
        for i in range(len(xs) - 1):
            seg = ys[i] + (ys[i + 1] - ys[i]) * (t - xs[i]) / (xs[i + 1] - xs[i])
            v = z3.If(z3.And(xs[i] <= t, t <= xs[i + 1]), seg, v)
        return v
    ex = Explorer()
    out = {"paths": 0, "discharged": 0, "refuted": [], "undecided": 0, "raised": []}
    for pc, dec, (st, res) in ex.explore(run, assume, budget_s=budget, prefixes=prefixes):
        out["paths"] += 1
        if st != "ok":
            out["raised"].append(repr(res)[:200])
            continue
        tz = lambda v: v.t if isinstance(v, SR) else z3.RealVal(str(Fraction(float(v)).limit_denominator(10 ** 12)))
        rx, ry = [tz(p[0]) for p in res], [tz(p[1]) for p in res]
        goal = [a < b for a, b in zip(rx, rx[1:])]
        # the result's abscissae are exactly the union of the operands' (so it is linear in between) ...
        for x in xa + xb:
            goal.append(z3.Or(*[x == r for r in rx]))
        for r in rx:
            goal.append(z3.Or(*[r == x for x in xa + xb]))
        # ... and at each of them the value is the sum of the operands' values
        for r, y in zip(rx, ry):
            goal.append(y == pl(xa, ya, r) + pl(xb, yb, r))
        s = z3.Solver()
        s.set("timeout", 30000)
        s.add(*pc)
        s.add(z3.Not(z3.And(*goal)))
        r = s.check()
        if r == z3.unsat:
            out["discharged"] += 1
        elif r == z3.sat:
            m = s.model()
            ev = lambda v: str(m.eval(v, model_completion=True))
            out["refuted"].append({"a": [[ev(x), ev(y)] for x, y in zip(xa, ya)], "b": [[ev(x), ev(y)] for x, y in zip(xb, yb)]})
        else:
            out["undecided"] += 1
    out["exhaustive"] = ex.exhaustive
    return out


def _f(s):
    s = s.replace("?", "")
    return float(Fraction(s)) if "/" in s else float(s)


def check_exact_sum(rep, a, b, origin):
    """numeric: the real chain on concrete critical pairs vs pointwise sum"""
    from persim.landscapes.auxiliary import pos_to_slope_interp, slope_to_pos_interp, sum_slopes
    from specs.landscape import pl_f
    try:
        res = slope_to_pos_interp(sum_slopes(pos_to_slope_interp(copy.deepcopy(a)), pos_to_slope_interp(copy.deepcopy(b))))
    except Exception as ex:
        rep.violation("exact sum raised %r on %s + %s" % (ex, a, b), "exact-add:exception", {"input": {"a": a, "b": b}})
        return False
    pts = sorted({p[0] for p in a + b})
    pts = pts + [(u + v) / 2 for u, v in zip(pts, pts[1:])]
    for t in pts:
        got, want = pl_f(res, t), pl_f(a, t) + pl_f(b, t)
        if abs(got - want) > 1e-9 * max(1.0, abs(want)):
            rep.violation("exact sum of %s and %s is %s: at t=%r it gives %r, pointwise sum %r" % (a, b, res, t, got, want), "exact-add:value",
                          {"input": {"a": a, "b": b}, "observed": got, "expected": want, "t": t, "found_by": origin})
            return False
    return True


def e2(rep, na, nb, budget):
    import multiprocessing as mp
    seeds = [list(p) for p in itertools.product([True, False], repeat=2)]
    with mp.get_context("fork").Pool(4) as pool:
        outs = pool.map(_e2_shard, [(na, nb, [p], budget) for p in seeds])
    agg = {"paths": 0, "discharged": 0, "refuted": [], "undecided": 0, "raised": [], "exhaustive": True}
    for o in outs:
        for k in ("paths", "discharged", "undecided"):
            agg[k] += o[k]
        agg["refuted"] += o["refuted"]
        agg["raised"] += o["raised"]
        agg["exhaustive"] = agg["exhaustive"] and o["exhaustive"]
    for r in agg["refuted"]:
        a = [[_f(x), _f(y)] for x, y in r["a"]]
        b = [[_f(x), _f(y)] for x, y in r["b"]]
        if check_exact_sum(rep, a, b, "E2 %d+%d breakpoints" % (na, nb)):
            rep.note("E2 counter-model %s did not reproduce numerically" % r)
    if agg["raised"]:
        rep.note("E2 merge chain: %d paths raised on proxies: %s" % (len(agg["raised"]), agg["raised"][:2]))
        agg["undecided"] += len(agg["raised"])
    rep.bounded("E2 bounded-symbolic slope merge, %d + %d breakpoints" % (na, nb), "%d and %d critical points with strictly increasing abscissae (coincidences across operands allowed), end ordinates 0, all real values" % (na, nb),
                agg["paths"], agg["discharged"],
                "every feasible path of the real pos_to_slope_interp / sum_slopes / slope_to_pos_interp chain run by CPython on proxy reals; per path: result abscissae = union of the operands', value at each = sum of the operands' interpolants (NRA); "
                "discharged=%d refuted=%d undecided=%d" % (agg["discharged"], len(agg["refuted"]), agg["undecided"]), samples=agg["refuted"][:1] or ["all paths discharged"], exhaustive=agg["exhaustive"])


# ----------------------------------------------------------------------------- run-time
def _rand_cp(rng, lattice):
    n = rng.randint(2, 6)
    xs = sorted({(float(rng.randint(0, 8)) if lattice else round(rng.uniform(0, 8), 3)) for _ in range(n + 2)})[:n]
    if len(xs) < 2:
        xs = [0.0, 1.0]
    ys = [0.0] + [float(rng.randint(-3, 3)) if lattice else rng.uniform(-3, 3) for _ in xs[1:-1]] + [0.0]
    return [[x, y] for x, y in zip(xs, ys)]


def _standin(rep, tier, seed):
    from persim.landscapes import PersLandscapeApprox, PersLandscapeExact, average_approx, lc_approx, snap_pl
    from specs.landscape import pl_f
    rng = random.Random(seed * 61 + 9)
    evals, distinct = 0, set()
    n = 150 if tier == "quick" else 4000
    for _ in range(n):
        lat = rng.random() < 0.5
        a, b = _rand_cp(rng, lat), _rand_cp(rng, lat)
        check_exact_sum(rep, a, b, "random")
        evals += 1
        distinct.add((len(a), len(b), lat))
    import contextlib, io
    with warnings.catch_warnings(), contextlib.redirect_stdout(io.StringIO()):
        warnings.simplefilter("ignore")
        for _ in range(60 if tier == "quick" else 1500):
            # exact landscapes with different numbers of depths, operator sequences on shared operands
            cp1 = [_rand_cp(rng, True) for _i in range(rng.randint(1, 3))]
            cp2 = [_rand_cp(rng, True) for _i in range(rng.randint(1, 3))]
            P, Q = PersLandscapeExact(critical_pairs=cp1, hom_deg=0), PersLandscapeExact(critical_pairs=cp2, hom_deg=0)
            snapP, snapQ = copy.deepcopy(P.critical_pairs), copy.deepcopy(Q.critical_pairs)
            s = rng.choice([2.0, -0.5, 3.0])
            ops = [("add", lambda: P + Q, lambda k, t: f(cp1, k, t) + f(cp2, k, t)), ("sub", lambda: P - Q, lambda k, t: f(cp1, k, t) - f(cp2, k, t)),
                   ("neg", lambda: -P, lambda k, t: -f(cp1, k, t)), ("mul", lambda: P * s, lambda k, t: s * f(cp1, k, t)),
                   ("rmul", lambda: s * P, lambda k, t: s * f(cp1, k, t)), ("div", lambda: P / s, lambda k, t: f(cp1, k, t) / s),
                   ("chain", lambda: (P + Q) - Q * 1.0, lambda k, t: f(cp1, k, t))]
            f = lambda cps, k, t: pl_f(cps[k], t) if k < len(cps) else 0.0
            ts = sorted({p[0] for d in cp1 + cp2 for p in d})
            ts = ts + [(u + v) / 2 for u, v in zip(ts, ts[1:])]
            for name, op, want in ops:
                try:
                    R = op()
                except Exception as ex:
                    rep.violation("exact landscape %s raised %r on well-formed operands %s, %s" % (name, ex, cp1, cp2), "exact-op:exception", {"input": {"cp1": cp1, "cp2": cp2, "scalar": s, "op": name}, "observed": repr(ex)})
                    continue
                evals += 1
                distinct.add(("exact", name, len(cp1), len(cp2)))
                depth = max(len(cp1), len(cp2))
                bad = None
                for k in range(depth):
                    for t in ts:
                        got = pl_f([list(map(float, p)) for p in R.critical_pairs[k]], t) if k < len(R.critical_pairs) else 0.0
                        if abs(got - want(k, t)) > 1e-9 * max(1.0, abs(want(k, t))):
                            bad = (k, t, got, want(k, t))
                            break
                    if bad:
                        break
                if bad:
                    rep.violation("exact landscape %s: depth %d at t=%r gives %r, pointwise operation gives %r (operands %s, %s)" % ((name,) + bad + (cp1, cp2)),
                                  "exact-op:%s:%s" % (name, "depths-differ" if len(cp1) != len(cp2) else "same-depths"), {"input": {"cp1": cp1, "cp2": cp2, "scalar": s, "op": name}, "observed": bad[2], "expected": bad[3]})
                if P.critical_pairs != snapP or Q.critical_pairs != snapQ:
                    rep.violation("exact landscape %s changed an operand" % name, "exact-op:operand-mutated", {"input": {"cp1": cp1, "cp2": cp2, "op": name}})
                    P, Q = PersLandscapeExact(critical_pairs=copy.deepcopy(snapP), hom_deg=0), PersLandscapeExact(critical_pairs=copy.deepcopy(snapQ), hom_deg=0)
            # grid landscapes
            ns = rng.choice([5, 9])
            ka, kb = rng.randint(1, 3), rng.randint(1, 3)
            va = np.array([[float(rng.randint(-3, 3)) for _i in range(ns)] for _k in range(ka)])
            vb = np.array([[float(rng.randint(-3, 3)) for _i in range(ns)] for _k in range(kb)])
            if rng.random() < 0.3:
                vb = vb.astype(int)
            A = PersLandscapeApprox(start=0.0, stop=4.0, num_steps=ns, values=va.copy(), hom_deg=0)
            B = PersLandscapeApprox(start=0.0, stop=4.0, num_steps=ns, values=vb.copy(), hom_deg=0)
            pad = lambda v, k: np.vstack([v, np.zeros((k - v.shape[0], ns))]) if v.shape[0] < k else v
            kk = max(ka, kb)
            gops = [("add", lambda: A + B, pad(va, kk) + pad(vb, kk)), ("sub", lambda: A - B, pad(va, kk) - pad(vb, kk)), ("neg", lambda: -A, -va),
                    ("mul", lambda: A * s, s * va), ("rmul", lambda: s * A, s * va), ("div", lambda: A / s, va / s),
                    ("twice", lambda: (A + B) + (A + B), 2 * (pad(va, kk) + pad(vb, kk))), ("after", lambda: A + A, 2 * va)]
            for name, op, want in gops:
                try:
                    R = op()
                except Exception as ex:
                    rep.violation("grid landscape %s raised %r" % (name, ex), "grid-op:exception", {"input": {"a": va.tolist(), "b": vb.tolist(), "scalar": s, "op": name}, "observed": repr(ex)})
                    continue
                evals += 1
                distinct.add(("grid", name, ka, kb))
                if R.values.shape != want.shape or not np.allclose(R.values, want, atol=1e-12):
                    rep.violation("grid landscape %s gives %s, pointwise operation with zero padding gives %s" % (name, R.values.tolist(), want.tolist()),
                                  "grid-op:%s:%s" % (name, "depths-differ" if ka != kb else "same-depths"), {"input": {"a": va.tolist(), "b": vb.tolist(), "scalar": s, "op": name}})
                if not (np.array_equal(A.values, va) and np.array_equal(B.values, vb)):
                    rep.violation("grid landscape %s changed an operand" % name, "grid-op:operand-mutated", {"input": {"a": va.tolist(), "b": vb.tolist(), "op": name}})
                    A = PersLandscapeApprox(start=0.0, stop=4.0, num_steps=ns, values=va.copy(), hom_deg=0)
                    B = PersLandscapeApprox(start=0.0, stop=4.0, num_steps=ns, values=vb.astype(float).copy(), hom_deg=0)
            # rejections
            C = PersLandscapeApprox(start=0.0, stop=5.0, num_steps=ns, values=va.copy(), hom_deg=0)
            D = PersLandscapeApprox(start=0.0, stop=4.0, num_steps=ns, values=va.copy(), hom_deg=1)
            # grids of a single node too: the same start but different stops are different grids
            one = lambda a0, b0: PersLandscapeApprox(start=a0, stop=b0, num_steps=1, values=np.array([[1.0]]), hom_deg=0)
            try:
                evals += 1
                one(0.0, 2.0) + one(0.0, 3.0)
                rep.violation("adding single-node grid landscapes with different stops was not rejected", "grid-op:no-rejection", {"input": {"what": "stop, num_steps=1"}})
            except ValueError:
                pass
            for other, what in ((C, "stop"), (D, "hom_deg")):
                evals += 1
                try:
                    A + other
                    rep.violation("adding grid landscapes with different %s was not rejected" % what, "grid-op:no-rejection", {"input": {"what": what}})
                except ValueError:
                    pass
            # snap to a common grid = linear interpolation of every depth; linear combination / average.
            # Landscapes on their own grids (some already on the requested one); every grid parameter independently left out or
            # given explicitly - zero, negative and integer values included, and values different from what would be derived.
            def lin(x, a0, b0, m0, row):
                if m0 == 1 or b0 == a0:
                    return float(row[0])
                if x <= a0:
                    return float(row[0])
                if x >= b0:
                    return float(row[-1])
                h = (b0 - a0) / (m0 - 1)
                j = min(int((x - a0) / h), m0 - 2)
                return float(row[j] + (x - (a0 + j * h)) * (row[j + 1] - row[j]) / h)
            for _rep in range(4):
                nl = rng.randint(2, 3)
                Ls, snaps0 = [], []
                for _i in range(nl):
                    a0 = rng.choice([-3.0, -1.0, 0.0, 1.0, 2.0])
                    b0 = a0 + rng.choice([2.0, 3.0, 4.0])
                    m0 = rng.choice([3, 5, 9])
                    dd = rng.randint(1, 3)
                    vv = np.array([[float(rng.randint(0, 4)) for _j in range(m0)] for _d in range(dd)])
                    Ls.append(PersLandscapeApprox(start=a0, stop=b0, num_steps=m0, values=vv.copy(), hom_deg=0))
                    snaps0.append((a0, b0, m0, vv.copy()))
                kw = {}
                if rng.random() < 0.6:
                    kw["start"] = rng.choice([0, 0.0, -3.0, -4.0, 1.0, 0.5])
                if rng.random() < 0.6:
                    kw["stop"] = rng.choice([0, 0.0, 3.0, 6.0, 7.5])
                if rng.random() < 0.6:
                    kw["num_steps"] = rng.choice([3, 5, 7, 9])
                if rng.random() < 0.3:      # every landscape already on the requested grid
                    a0, b0, m0, _v = snaps0[0]
                    Ls = [PersLandscapeApprox(start=a0, stop=b0, num_steps=m0, values=np.array([[float(rng.randint(0, 4)) for _j in range(m0)] for _d in range(rng.randint(1, 2))]), hom_deg=0) for _i in range(nl)]
                    snaps0 = [(L.start, L.stop, L.num_steps, L.values.copy()) for L in Ls]
                    kw = {} if rng.random() < 0.5 else {"start": a0, "stop": b0, "num_steps": m0}
                g0 = kw.get("start", min(x[0] for x in snaps0))
                g1 = kw.get("stop", max(x[1] for x in snaps0))
                gm = kw.get("num_steps", max(x[2] for x in snaps0))
                if not g0 < g1:
                    continue
                grid = [g0 + i * (g1 - g0) / (gm - 1) for i in range(gm)]
                desc = {"landscapes": [{"start": x[0], "stop": x[1], "num_steps": x[2], "values": x[3].tolist()} for x in snaps0], "grid_arguments": {k: repr(v) for k, v in kw.items()}}
                try:
                    sn = snap_pl(list(Ls), **kw)
                    coef = [rng.choice([1.0, -2.0, 0.5, 3.0, 0.0]) for _i in range(nl)]
                    lc = lc_approx(list(Ls), list(coef), **kw)
                    av = average_approx(list(Ls), **kw)
                    lc_again = lc_approx(list(Ls), list(coef), **kw)
                except Exception as ex:
                    rep.violation("snap_pl / lc_approx / average_approx raised %r on %s" % (ex, desc), "snap:exception", {"input": desc})
                    continue
                evals += 4
                distinct.add(("snap", nl, tuple(sorted(kw))))
                wants = []
                snap_ok = True
                for (a0, b0, m0, vv), S in zip(snaps0, sn):
                    want = np.array([[lin(x, a0, b0, m0, row) for x in grid] for row in vv])
                    # nodes of the common grid outside a landscape's own sampled window: the statement (linear interpolation of the samples)
                    # is silent there; constant continuation (what the code does) and zero (a landscape vanishes away from its bars) are
                    # both accepted.  Inside the window the interpolant is the only admissible value.
                    outside = np.array([(x < a0 or x > b0) for x in grid])
                    got_v = np.asarray(S.values, dtype=float) if np.shape(S.values) == want.shape else None
                    ok_vals = got_v is not None and bool(np.all(np.isclose(got_v, want, atol=1e-9) | (outside[None, :] & np.isclose(got_v, 0.0, atol=1e-12))))
                    wants.append(got_v if ok_vals else want)
                    if (S.start, S.stop, S.num_steps) != (g0, g1, gm) or not ok_vals:
                        snap_ok = False
                        rep.violation("snap_pl with grid arguments %s: result on grid (%r, %r, %r) with values %s; linear interpolation of every depth onto (%r, %r, %r) gives %s"
                                      % (kw, S.start, S.stop, S.num_steps, np.asarray(S.values).tolist(), g0, g1, gm, want.tolist()), "snap:interp", {"input": desc})
                        break
                if not snap_ok:
                    continue
                # "the same combination of the re-sampled values": of what snap_pl itself returns (checked above)
                k2 = max(w.shape[0] for w in wants)
                padw = lambda v: np.vstack([v, np.zeros((k2 - v.shape[0], gm))]) if v.shape[0] < k2 else v
                if not (lc.values.shape == (k2, gm) and np.allclose(lc.values, sum(c * padw(w) for c, w in zip(coef, wants)), atol=1e-9) and (lc.start, lc.stop, lc.num_steps) == (g0, g1, gm)):
                    rep.violation("lc_approx differs from the same combination of the re-sampled values (coefficients %s, %s)" % (coef, desc), "snap:lc", {"input": dict(desc, coeffs=coef)})
                if not (av.values.shape == (k2, gm) and np.allclose(av.values, sum(padw(w) for w in wants) / nl, atol=1e-9)):
                    rep.violation("average_approx differs from the mean of the re-sampled values (%s)" % desc, "snap:avg", {"input": desc})
                if not np.array_equal(lc.values, lc_again.values):
                    rep.violation("lc_approx repeated on the same landscapes gives a different result (%s)" % desc, "snap:not-repeatable", {"input": dict(desc, coeffs=coef)})
                for L, (a0, b0, m0, vv) in zip(Ls, snaps0):
                    if (L.start, L.stop, L.num_steps) != (a0, b0, m0) or not np.array_equal(L.values, vv):
                        rep.violation("snap_pl / lc_approx / average_approx changed a landscape passed to it (%s)" % desc, "snap:operand-mutated", {"input": desc})
                        break
    rep.bounded("landscape arithmetic (run time)", "%d random pairs of piecewise-linear functions (lattice and real abscissae, coincidences); operator sequences on shared exact / grid operands with different depths, int and float values; snap / lc / average; rejections" % n,
                evals, len(distinct), "result compared pointwise (all breakpoints and midpoints, all depths, missing depth = 0); operands compared before/after every operation and results of repeated calls compared",
                samples=[{"a": [[0, 0], [1, 1], [2, 0]], "b": [[1, 0], [2, 2], [3, 0]]}])


def _replay_standin(prefixes):
    """replayer: run the run-time stand-in in search mode and hand back the first failing input of the given kinds"""
    def f(a):
        class C:
            def __init__(self):
                self.v = []

            def violation(self, what, sig, payload, **k):
                self.v.append((what, sig, payload))

            def note(self, *a):
                pass

            def bounded(self, *a, **k):
                pass
        c = C()
        _standin(c, "quick", 0)
        for what, sig, payload in c.v:
            if sig.startswith(prefixes):
                return True, payload, sig, what
        return False, None, None, None
    return f


def run(rep, tier, seed):
    from contracts.c09_arith import all_contracts
    cs, table = all_contracts(tier)
    run_contracts(rep, cs, table, tier=tier, pid="C09", replayers=[(r"PersLandscapeApprox", _replay_standin(("grid-op",))), (r"PersLandscapeExact", _replay_standin(("exact",)))])
    # snap_pl / lc_approx / average_approx under contract (np.interp and the landscape operators through their contracts)
    from contracts.c09_tools import all_contracts as tool_contracts
    for cs2, t2 in tool_contracts(tier):
        run_contracts(rep, cs2, t2, tier=tier, pid="C09", replayers=[(r"snap_pl|lc_approx|average_approx", _replay_standin(("snap:",)))])
    for na, nb, budget in ([(3, 3, 200)] + ([(4, 3, 900), (4, 4, 1500)] if tier == "thorough" else [])):
        e2(rep, na, nb, budget)
    _standin(rep, tier, seed)
    rep.assume("D25 legacy iteration protocol (grid landscapes are iterated through the real __getitem__), D26 np.interp as an abstract function of (x, xp, fp) passing through the data, D16 object arrays dispatch to the landscapes' operators (which enter through their proved contracts)")
    rep.assume("precondition wf(cp) for exact landscapes: abscissae strictly increasing, first and last ordinate 0 (the code treats the function as 0 left of the first point and constant right of the last)",
               "exact addition (the slope merge) is NOT proved for unbounded length: bounded-symbolic <=3+3 breakpoints (4+4 thorough) and sampled",
               "D15 np.pad zero padding, D16 object-array arithmetic dispatches to the operators, D13 np.interp")
    rep.trust("CPython executing the real merge chain on pysym proxies", "z3 (NRA for the per-path query)")


def replay(doc):
    inp = doc["payload"].get("input", {})
    if "a" in inp and "b" in inp and "op" not in inp:
        class R:
            def __init__(self):
                self.bad = []

            def violation(self, what, sig, payload, **k):
                self.bad.append(what)

            def note(self, *a):
                pass
        r = R()
        check_exact_sum(r, inp["a"], inp["b"], "replay")
        print("replay C09: %s + %s -> %s" % (inp["a"], inp["b"], ("VIOLATED: " + r.bad[0]) if r.bad else "HOLDS"))
        return 1 if r.bad else 0
    print("replay C09: %s" % doc.get("what"))
    return 1
