"""C15 - sliced Wasserstein is the averaged 1-D transport cost and a pseudo-metric"""
import math
import random
import warnings

import numpy as np

from vlib.deductive import run_contracts

LEVEL = "proof"


def _oracle(P1, P2, M):
    """(1/M) sum_i || sort(<theta_i,P1> ++ <theta_i,Delta P2>) - sort(<theta_i,P2> ++ <theta_i,Delta P1>) ||_1 in float64"""
    tot = 0.0
    for i in range(M):
        th = (0.5 + i / M) * math.pi
        c, s = math.cos(th), math.sin(th)
        pr = lambda p: c * p[0] + s * p[1]
        dl = lambda p: ((p[0] + p[1]) / 2.0, (p[0] + p[1]) / 2.0)
        V1 = sorted([pr(p) for p in P1] + [pr(dl(p)) for p in P2])
        V2 = sorted([pr(p) for p in P2] + [pr(dl(p)) for p in P1])
        tot += math.fsum(abs(a - b) for a, b in zip(V1, V2))
    return tot / M


def _sw(P1, P2, M):
    from persim import sliced_wasserstein
    with warnings.catch_warnings():
        warnings.simplefilter("ignore")
        return float(sliced_wasserstein(np.array(P1, dtype=float).reshape(-1, 2), np.array(P2, dtype=float).reshape(-1, 2), M=M))


def _tol(P1, P2, want):
    mag = max([abs(x) for p in P1 + P2 for x in p] + [1e-300])
    # the direction vectors are stored in float32 (A1 treats them as reals): relative 1e-6 of the coordinates per point
    return 4e-6 * mag * (len(P1) + len(P2) + 1) + 1e-6 * abs(want)


def _rand(rng, n, lo, hi):
    out = []
    for _ in range(n):
        b = rng.uniform(lo, hi)
        out.append([b, b + rng.uniform(0, (hi - lo) / 2)])
    return out


def _case(rep, P1, P2, M, tag):
    got, want = _sw(P1, P2, M), _oracle(P1, P2, M)
    inp = {"PD1": P1, "PD2": P2, "M": M}
    neg = any(p[0] + p[1] < 0 for p in P1 + P2)
    if got != got or abs(got - want) > _tol(P1, P2, want):
        rep.violation("sliced_wasserstein = %r but the averaged sorted-L1 cost is %r for %s" % (got, want, inp),
                      "sw:value:" + ("negative-coordinates" if neg else "nonnegative"),
                      {"input": inp, "observed": got, "expected": want, "call": "persim.sliced_wasserstein(PD1, PD2, M)"})
        return False
    return True


def _standin(rep, tier, seed, only_search=False):
    rng = random.Random(seed * 77 + 15)
    evals, distinct, samples = 0, set(), []
    n = 120 if tier == "quick" else 3000
    for it in range(n):
        lo, hi = rng.choice([(0, 4), (-6, -1), (-3, 3), (0, 4e3), (-1e-3, 1e-3), (0, 4e-9), (1e5, 1e5 + 4)])
        P1 = _rand(rng, rng.randint(0, 6), lo, hi)
        P2 = _rand(rng, rng.randint(0, 6), lo, hi)
        P3 = _rand(rng, rng.randint(0, 5), lo, hi)
        M = rng.choice([1, 2, 7, 50, rng.randint(1, 130), rng.randint(40, 130)])
        if it % 3 == 0 and P1:
            # nearly equal diagrams of the same shape (the distance is small but not zero)
            P2 = [[a + (hi - lo) * 1e-7 * rng.uniform(0.5, 1), b + (hi - lo) * 2e-7] for a, b in P1]
        ok = _case(rep, P1, P2, M, "value")
        evals += 1
        distinct.add((len(P1), len(P2), M, lo, hi))
        if len(samples) < 3:
            samples.append({"PD1": P1, "PD2": P2, "M": M})
        if only_search and not ok:
            return
        if not ok:
            continue
        d = _sw(P1, P2, M)
        tol = 4 * _tol(P1, P2, d)
        # laws
        checks = []
        checks.append(("symmetry", abs(_sw(P2, P1, M) - d) <= tol))
        if P1:
            perm = P1[:]
            rng.shuffle(perm)
            checks.append(("reorder-zero", abs(_sw(P1, perm, M)) <= tol))
        checks.append(("triangle", d <= _sw(P1, P3, M) + _sw(P3, P2, M) + 3 * tol))
        mid = (lo + hi) / 2
        checks.append(("diagonal-point", abs(_sw(P1 + [[mid, mid]], P2, M) - d) <= tol + 4 * _tol(P1 + [[mid, mid]], P2, d)))
        c = rng.choice([-7.5, 3.0]) * max(abs(lo), abs(hi), 1e-3)
        sh = lambda P: [[a + c, b + c] for a, b in P]
        checks.append(("shift", abs(_sw(sh(P1), sh(P2), M) - d) <= tol + 4 * _tol(sh(P1), sh(P2), d)))
        checks.append(("scale", abs(_sw([[2.5 * a, 2.5 * b] for a, b in P1], [[2.5 * a, 2.5 * b] for a, b in P2], M) - 2.5 * d) <= 3 * tol))
        if P1 or P2:
            from persim import wasserstein
            with warnings.catch_warnings():
                warnings.simplefilter("ignore")
                w1 = float(wasserstein(np.array(P1).reshape(-1, 2), np.array(P2).reshape(-1, 2)))
            checks.append(("le-2W1", d <= 2 * w1 + tol + 1e-7 * abs(w1)))
        for name, ok2 in checks:
            evals += 1
            if not ok2:
                rep.violation("sliced Wasserstein law '%s' fails on %s" % (name, {"PD1": P1, "PD2": P2, "PD3": P3, "M": M, "shift": c}),
                              "sw:law:" + name, {"input": {"PD1": P1, "PD2": P2, "PD3": P3, "M": M, "shift": c}, "observed": d})
    from persim import sliced_wasserstein as _swf
    # integer-valued diagrams as integer arrays (odd b+d included), and points shared by both diagrams with different multiplicities
    for it in range(40 if tier == "quick" else 800):
        mk = lambda k: [[float(b), float(b + rng.randint(0, 5))] for b in (rng.randint(-3, 6) for _ in range(k))]
        P1, P2 = mk(rng.randint(1, 5)), mk(rng.randint(0, 5))
        if it % 2 == 0 and P1:
            sh = rng.choice(P1)
            P1 = P1 + [list(sh)] * rng.randint(0, 2)
            P2 = P2 + [list(sh)] * rng.randint(1, 3)
        M = rng.choice([1, 3, 10, 50])
        want = _oracle(P1, P2, M)
        for dt in (int, float):
            with warnings.catch_warnings():
                warnings.simplefilter("ignore")
                got = float(_swf(np.array(P1, dtype=dt).reshape(-1, 2), np.array(P2, dtype=dt).reshape(-1, 2), M=M))
            evals += 1
            distinct.add(("typed", np.dtype(dt).kind, len(P1), len(P2)))
            if got != got or abs(got - want) > _tol(P1, P2, want):
                rep.violation("sliced_wasserstein of integer-valued diagrams stored as %s = %r but the averaged sorted-L1 cost is %r (%s, %s, M=%d)" % (np.dtype(dt).name, got, want, P1, P2, M),
                              "sw:value:typed-or-repeated", {"input": {"PD1": P1, "PD2": P2, "M": M, "dtype": np.dtype(dt).name}, "observed": got, "expected": want})
                if only_search:
                    return
                break
    # many points times many directions (beyond 2^20 point-directions, where implementations start to work in blocks), M not a round number
    for (k1, k2, M) in ([(300, 320, 1777)] if tier == "quick" else [(300, 320, 1777), (600, 600, 1500), (700, 500, 1001)]):
        P1, P2 = _rand(rng, k1, 0, 50), _rand(rng, k2, 0, 50)
        ok = _case(rep, P1, P2, M, "large")
        evals += 1
        distinct.add(("large", k1, k2, M))
        if only_search and not ok:
            return
    # shared operands: the same float64 arrays used in several calls (pairwise matrices, triangle checks); every call must still
    # return the distance of the diagrams as the caller built them
    for it in range(25 if tier == "quick" else 500):
        lo, hi = rng.choice([(0, 4), (-3, 3), (10, 14)])
        lists = [_rand(rng, rng.randint(1, 5), lo, hi) for _ in range(3)]
        arrs = [np.array(L, dtype=float) for L in lists]
        M = rng.choice([1, 5, 20])
        seq = [(0, 1), (0, 2), (1, 0), (0, 1), (2, 1), (1, 1)]
        for (i, j) in seq:
            with warnings.catch_warnings():
                warnings.simplefilter("ignore")
                got = float(_swf(arrs[i], arrs[j], M=M))
            want = _oracle(lists[i], lists[j], M)
            evals += 1
            if got != got or abs(got - want) > _tol(lists[i], lists[j], want):
                rep.violation("sliced_wasserstein on arrays already used in earlier calls = %r, but the averaged sorted-L1 cost of the diagrams as built is %r (call sequence %s on three shared arrays, this call %s)" % (got, want, seq, (i, j)),
                              "sw:shared-operands", {"input": {"diagrams": lists, "M": M, "sequence": seq, "failing_call": [i, j]}, "observed": got, "expected": want})
                if only_search:
                    return
                break
    # every number of directions M = 1..130 (and a few larger) on one fixed pair: the direction schedule must be exactly (1/2 + i/M) pi
    A0, B0 = [[0.0, 1.5], [0.5, 3.0], [2.0, 2.25]], [[0.25, 2.0], [1.0, 1.75]]
    for M in list(range(1, 131)) + [196, 200, 257, 500]:
        ok = _case(rep, A0, B0, M, "M-sweep")
        evals += 1
        distinct.add(("M", M))
        if only_search and not ok:
            return
    if not only_search:
        rep.bounded("sliced-wasserstein-laws", "random diagrams of 0..6 points in 5 coordinate ranges (incl. negative), M in {1,2,7,50}", evals, len(distinct),
                    "distinct = (sizes, M, range); value vs float64 oracle (tolerance 4e-6*|coords| for the float32 directions), symmetry, zero on reorder, triangle, diagonal points, shift, scale, <= 2 W1",
                    samples)


def _replay_search(a):
    class C:
        v = []

        def violation(self, what, sig, payload, **k):
            self.v.append((what, sig, payload))

        def bounded(self, *a, **k):
            pass
    c = C()
    c.v = []
    _standin(c, "quick", 0, only_search=True)
    if c.v:
        what, sig, payload = c.v[0]
        return True, payload, sig, what
    return False, None, None, None


def run(rep, tier, seed):
    from contracts.c15_sliced import all_contracts
    cs, table = all_contracts(tier)
    run_contracts(rep, cs, table, tier=tier, replayers=[(r"sliced_wasserstein", _replay_search)])
    rep.assume("D28 element types: allocations with dtype=x.dtype / full_like / empty_like / piecewise keep the integer type of an integer-typed argument (integer-typed variants of the contracts)")
    rep.assume("D12 sorted() returns the non-decreasing rearrangement (functional in its input); D18 cityblock = sum |u_k - v_k|",
               "A6: cos(pi/4)=sin(pi/4)=h with h>0, h^2=1/2; sqrt(2)=2h; other cos/sin values uninterpreted; float32 direction vectors are reals",
               "L: sorted matching is the 1-D optimal transport; metric laws and <= 2 W1 (sampled only)")
    _standin(rep, tier, seed)


def replay(doc):
    inp = doc["payload"].get("input", {})
    if "PD1" in inp and "PD2" in inp and "M" in inp and "PD3" not in inp:
        got, want = _sw(inp["PD1"], inp["PD2"], inp["M"]), _oracle(inp["PD1"], inp["PD2"], inp["M"])
        ok = abs(got - want) <= _tol(inp["PD1"], inp["PD2"], want)
        print("replay C15: sliced_wasserstein(%s, %s, M=%s) -> %r ; oracle %r ; %s" % (inp["PD1"], inp["PD2"], inp["M"], got, want, "HOLDS" if ok else "VIOLATED"))
        return 0 if ok else 1
    print("replay C15: %s" % doc.get("what"))
    return 1
