"""C17 - mGH accepts every graph representation and degrades gracefully"""
import itertools
import random
import warnings

import numpy as np

from vlib.deductive import run_contracts

LEVEL = "other"


def _gh(*a, **k):
    from persim import gromov_hausdorff
    with warnings.catch_warnings(record=True) as w:
        warnings.simplefilter("always")
        r = gromov_hausdorff(*a, **k)
    return r, [str(x.message) for x in w]


def _forms(A):
    import scipy.sparse as sps
    A = np.asarray(A)
    tri = np.triu(A)
    return {"dense-sym": A, "dense-triu": tri, "list-sym": A.tolist(), "list-triu": tri.tolist(), "csr-sym": sps.csr_matrix(A), "csr-triu": sps.csr_matrix(tri),
            # every sparse format and every memory layout of a dense array is "a sparse matrix" / "a dense array"
            "coo-sym": sps.coo_matrix(A), "csc-triu": sps.csc_matrix(tri), "lil-sym": sps.lil_matrix(A), "dok-triu": sps.dok_matrix(tri),
            "dense-fortran": np.asfortranarray(A), "dense-transposed-view": tri.T, "dense-float": A.astype(float), "dense-bool": A.astype(bool),
            "dense-strided-view": np.repeat(np.repeat(A, 2, axis=0), 2, axis=1)[::2, ::2]}


def _rand_graph(rng, n, p=0.5, connected=True):
    from standins.mgh_oracle import dist_matrix
    while True:
        A = np.zeros((n, n), dtype=int)
        for i in range(n):
            for j in range(i + 1, n):
                if rng.random() < p:
                    A[i, j] = A[j, i] = 1
        if not connected or n == 1 or np.isfinite(dist_matrix(A)).all():
            return A


def _standin(rep, tier, seed, only_search=False):
    from standins.mgh_oracle import largest_component, mgh, relabel
    rng = random.Random(seed * 73 + 17)
    evals, distinct, samples = 0, set(), []
    # the integer cast of a distance matrix keeps every entry, wherever the largest one sits (values around each type's limit)
    from persim.gromov_hausdorff import cast_distance_matrix_to_optimal_int_type as _cast
    limits = [0, 1, 126, 127, 128, 200, 255, 256, 32767, 32768, 40000, 65535, 70000, 2 ** 31 - 1, 2 ** 31, 2 ** 32 + 5, 2 ** 40]
    for big in limits:
        for size, pos in ((1, (0, 0)), (2, (0, 1)), (2, (1, 0)), (2, (1, 1)), (3, (2, 1)), (3, (1, 2)), (4, (3, 3))):
            for dt in (np.float64, np.int64):
                DX = np.zeros((size, size), dtype=dt)
                DX[0, 0] = min(big, 3)
                DX[pos] = big
                keep = DX.copy()
                try:
                    got = _cast(DX)
                except Exception as ex:
                    rep.violation("cast_distance_matrix_to_optimal_int_type raised %r on a %s matrix with largest entry %d at %s" % (ex, dt.__name__, big, pos),
                                  "mgh:cast-exception", {"input": {"cast": keep.tolist(), "dtype": dt.__name__}, "observed": repr(ex)})
                    if only_search:
                        return
                    continue
                evals += 1
                distinct.add(("cast", big, size, dt.__name__))
                if not (got.shape == keep.shape and got.dtype.kind == "i" and np.array_equal(got.astype(object), keep.astype(np.int64).astype(object))):
                    rep.violation("integer cast of a distance matrix changed an entry: largest entry %d at %s of a %dx%d %s matrix came back as %r (type %s)"
                                  % (big, pos, size, size, dt.__name__, got[pos].item() if got.shape == keep.shape else None, got.dtype),
                                  "mgh:cast-value", {"input": {"cast": keep.tolist(), "dtype": dt.__name__}, "observed": got.tolist()})
                    if only_search:
                        return
                if not np.array_equal(DX, keep):
                    rep.violation("integer cast modified its argument", "mgh:cast-purity", {"input": {"cast": keep.tolist(), "dtype": dt.__name__}})
                    if only_search:
                        return
    n = 30 if tier == "quick" else 500
    for it in range(n):
        na, nb = rng.randint(2, 5), rng.randint(2, 5)
        A, B = _rand_graph(rng, na), _rand_graph(rng, nb)
        true = mgh(A, B)
        ref_lb = None
        for fa, Fa in _forms(A).items():
            fb = rng.choice(list(_forms(B)))
            Fb = _forms(B)[fb]
            np.random.seed(rng.randint(0, 10 ** 6))
            try:
                (lb, ub), warns = _gh(Fa, Fb)
            except Exception as ex:
                rep.violation("gromov_hausdorff raised %r for formats %s / %s" % (ex, fa, fb), "mgh:format-exception:" + fa.split("-")[0], {"input": {"A": A.tolist(), "B": B.tolist(), "formats": [fa, fb]}, "observed": repr(ex)})
                if only_search:
                    return
                continue
            evals += 1
            distinct.add((na, nb, fa, fb))
            inp = {"A": A.tolist(), "B": B.tolist(), "formats": [fa, fb]}
            if not (lb <= true + 1e-12 and true <= ub + 1e-12):
                rep.violation("bounds (%r, %r) do not bracket the true mGH distance %r for formats %s / %s" % (lb, ub, true, fa, fb), "mgh:bracket:format", {"input": inp, "observed": [lb, ub], "expected": true})
                if only_search:
                    return
            if ref_lb is None:
                ref_lb = lb
            elif lb != ref_lb:
                rep.violation("lower bound depends on the representation: %r vs %r (%s)" % (lb, ref_lb, fa), "mgh:lower-bound-format", {"input": inp, "observed": [lb, ref_lb]})
        # relabelling keeps valid brackets
        pa = list(range(na))
        rng.shuffle(pa)
        (lb, ub), _ = _gh(relabel(A, pa), B)
        evals += 1
        if not (lb <= true + 1e-12 <= ub + 2e-12):
            rep.violation("after relabelling, bounds (%r, %r) do not bracket %r" % (lb, ub, true), "mgh:bracket:relabel", {"input": {"A": relabel(A, pa).tolist(), "B": B.tolist()}, "observed": [lb, ub], "expected": true})
        # collection call
        Cg = _rand_graph(rng, rng.randint(2, 4))
        (lbs, ubs), _ = _gh([A, B, Cg])
        evals += 1
        ok = lbs.shape == (3, 3) and np.array_equal(lbs, lbs.T) and np.array_equal(ubs, ubs.T) and not np.diag(lbs).any() and not np.diag(ubs).any()
        trues = {(0, 1): true, (0, 2): mgh(A, Cg), (1, 2): mgh(B, Cg)}
        ok = ok and all(lbs[i, j] <= t + 1e-12 <= ubs[i, j] + 2e-12 for (i, j), t in trues.items())
        if not ok:
            rep.violation("collection call: matrices not symmetric / zero-diagonal / bracketing: lbs=%s ubs=%s true=%s" % (lbs.tolist(), ubs.tolist(), trues), "mgh:collection", {"input": {"graphs": [A.tolist(), B.tolist(), Cg.tolist()]}})
        # disconnected graph: largest connected component with a warning
        k1, k2 = rng.randint(2, 4), rng.randint(1, 2)
        big, small = _rand_graph(rng, k1 + 1), _rand_graph(rng, k2)
        n_tot = k1 + 1 + k2
        Dg = np.zeros((n_tot, n_tot), dtype=int)
        Dg[:k1 + 1, :k1 + 1] = big
        Dg[k1 + 1:, k1 + 1:] = small
        perm = list(range(n_tot))
        rng.shuffle(perm)
        Dg = relabel(Dg, perm)
        evals += 1
        inp = {"disconnected": Dg.tolist(), "other": B.tolist()}
        try:
            (lb, ub), warns = _gh(Dg, B)
        except Exception as ex:
            rep.violation("a disconnected graph makes gromov_hausdorff raise %r instead of falling back to its largest connected component" % (ex,), "mgh:disconnected:exception",
                          {"input": inp, "observed": repr(ex), "call": "persim.gromov_hausdorff(disconnected, other)"})
            if only_search:
                return
            continue
        true_c = mgh(big, B)
        if not any("disconnected" in w for w in warns):
            rep.violation("no warning for a disconnected graph", "mgh:disconnected:no-warning", {"input": inp})
        if not (lb <= true_c + 1e-12 <= ub + 2e-12):
            rep.violation("disconnected graph: bounds (%r, %r) do not bracket the distance %r of its largest component" % (lb, ub, true_c), "mgh:disconnected:bracket", {"input": inp, "observed": [lb, ub], "expected": true_c})
        if len(samples) < 2:
            samples.append({"A": A.tolist(), "B": B.tolist()})
    # disconnected graphs under *every* relabelling of a few fixed shapes (the fallback must pick the largest component whatever the labels)
    def union(*blocks):
        n = sum(len(b) for b in blocks)
        U = np.zeros((n, n), dtype=int)
        o = 0
        for b in blocks:
            U[o:o + len(b), o:o + len(b)] = b
            o += len(b)
        return U
    K2 = np.array([[0, 1], [1, 0]])
    K3 = np.ones((3, 3), dtype=int) - np.eye(3, dtype=int)
    P3 = np.array([[0, 1, 0], [1, 0, 1], [0, 1, 0]])
    P4 = np.array([[0, 1, 0, 0], [1, 0, 1, 0], [0, 1, 0, 1], [0, 0, 1, 0]])
    point = np.array([[0]])
    shapes = [(union(K2, P4), P4), (union(K2, K3), K3), (union(K2, K2, P3), P3)]
    for U, big in shapes:
        true_c = mgh(big, point)
        perms = list(itertools.permutations(range(len(U))))
        rng.shuffle(perms)
        for perm in perms[: (60 if tier == "quick" else 720)]:
            G2 = relabel(U, list(perm))
            evals += 1
            try:
                (lb, ub), warns = _gh(G2, point)
            except Exception as ex:
                rep.violation("a relabelled disconnected graph makes gromov_hausdorff raise %r" % (ex,), "mgh:disconnected:exception", {"input": {"disconnected": G2.tolist(), "other": point.tolist()}})
                if only_search:
                    return
                break
            if not (lb <= true_c + 1e-12 <= ub + 2e-12):
                rep.violation("disconnected graph %s (relabelled): bounds (%r, %r) do not bracket the distance %r of its largest component to a point" % (G2.tolist(), lb, ub, true_c),
                              "mgh:disconnected:bracket", {"input": {"disconnected": G2.tolist(), "other": point.tolist()}, "observed": [lb, ub], "expected": true_c})
                if only_search:
                    return
                break
    from props.C05 import helper_purity_probe
    evals += helper_purity_probe(rep, rng, 100 if tier == "quick" else 2000)
    # larger sparse graphs: a valid bracket needs lower <= upper, whatever the labelling and the RNG state
    for _ in range(120 if tier == "quick" else 3000):
        A, B = _rand_graph(rng, rng.randint(4, 9), p=rng.choice([0.25, 0.35, 0.5])), _rand_graph(rng, rng.randint(3, 8), p=rng.choice([0.25, 0.35, 0.5]))
        np.random.seed(rng.randint(0, 10 ** 6))
        (lb, ub), _ = _gh(A, B)
        evals += 1
        if lb > ub:
            rep.violation("lower bound %r exceeds upper bound %r on graphs with %d / %d vertices: no distance can lie in that bracket" % (lb, ub, len(A), len(B)), "mgh:bracket:lower-above-upper",
                          {"input": {"A": A.tolist(), "B": B.tolist()}, "observed": [lb, ub]})
            if only_search:
                return
            break
    # the same array objects handed over again and again (collections of three or more, repeated calls): every call sees the graph
    # the caller built, and the caller's arrays are left alone - for every element type and layout of a dense matrix
    for _ in range(6 if tier == "quick" else 120):
        gs = [_rand_graph(rng, rng.randint(4, 6), p=rng.choice([0.5, 0.7, 0.9])) for _i in range(3)]
        for dt in (np.float64, np.int64, np.float32):
            arrs = [np.ascontiguousarray(g.astype(dt)) for g in gs]
            snaps = [a.copy() for a in arrs]
            np.random.seed(5)
            try:
                with warnings.catch_warnings():
                    warnings.simplefilter("ignore")
                    from persim import gromov_hausdorff as _ghf
                    L1, U1 = _ghf(list(arrs))
                    np.random.seed(5)
                    L2, U2 = _ghf(list(arrs))
                    np.random.seed(5)
                    l01, u01 = _ghf(arrs[0], arrs[1])
            except Exception as ex:
                rep.violation("gromov_hausdorff raised %r on a collection of three dense %s matrices handed over twice" % (ex, np.dtype(dt).name), "mgh:format:exception", {"input": {"graphs": [g.tolist() for g in gs], "dtype": np.dtype(dt).name}})
                break
            evals += 3
            true01 = mgh(gs[0], gs[1])
            if any(not np.array_equal(a, b) for a, b in zip(arrs, snaps)):
                rep.violation("gromov_hausdorff wrote into the dense %s adjacency matrices it was given" % np.dtype(dt).name, "mgh:argument-modified", {"input": {"graphs": [g.tolist() for g in gs], "dtype": np.dtype(dt).name}})
                break
            if not (np.array_equal(L1, L2) and np.array_equal(U1, U2)) or not (L1[0, 1] <= true01 + 1e-12 <= U1[0, 1] + 2e-12) or not (l01 <= true01 + 1e-12 <= u01 + 2e-12):
                rep.violation("the same three dense %s matrices give different / invalid estimates when handed over again: first %s / %s, then %s / %s, pair call (%r, %r); true distance of the first pair %r"
                              % (np.dtype(dt).name, L1.tolist(), U1.tolist(), L2.tolist(), U2.tolist(), l01, u01, true01), "mgh:repeated-arrays",
                              {"input": {"graphs": [g.tolist() for g in gs], "dtype": np.dtype(dt).name}, "expected_first_pair": true01})
                break
    # "under any vertex relabelling ... valid brackets": structured shapes (spiders, cycles with leaves) where the curvature-based
    # tightening of the lower bound is reached, each against a relabelled sparse-matrix copy of the other, exact distance by branch and
    # bound; and graphs beyond 128 vertices (where narrow integer types wrap) against a relabelled copy of themselves (distance 0)
    from standins.mgh_oracle import mgh_bb, structured_shapes
    import scipy.sparse as _sp
    shapes2 = structured_shapes(7)
    names = sorted(shapes2)
    for a, b in [(a, b) for a in names for b in names]:
        A, B = shapes2[a], shapes2[b]
        perm = list(range(len(B)))
        rng.shuffle(perm)
        true2 = mgh_bb(A, B)
        np.random.seed(rng.randint(0, 10 ** 6))
        (lb, ub), _w = _gh(A.tolist(), _sp.csr_matrix(np.triu(relabel(B, perm))))
        evals += 1
        distinct.add(("shape", a, b))
        if not (lb <= true2 + 1e-12 <= ub + 2e-12):
            rep.violation("bounds (%r, %r) of gromov_hausdorff(%s as nested lists, relabelled %s as upper-triangular CSR) do not bracket the true distance %r" % (lb, ub, a, b, true2),
                          "mgh:bracket:" + ("lower" if lb > true2 else "upper"), {"input": {"A": A.tolist(), "B": relabel(B, perm).tolist(), "shapes": [a, b]}, "observed": [lb, ub], "expected": true2})
            if only_search:
                return
            break
    for nv, spine in ([(130, 5), (140, 3)] if tier == "quick" else [(129, 4), (130, 5), (140, 3), (200, 6), (257, 5)]):
        M = np.zeros((nv, nv), dtype=int)
        for i in range(spine):
            M[i, i + 1] = M[i + 1, i] = 1
        for v in range(spine + 1, nv):
            M[v % (spine + 1), v] = M[v, v % (spine + 1)] = 1
        perm = list(range(nv))
        rng.shuffle(perm)
        evals += 1
        try:
            (lb, ub), _w = _gh(M, _sp.csr_matrix(relabel(M, perm)))
        except Exception as ex:
            rep.violation("gromov_hausdorff raised %r on a %d-vertex graph and a relabelled sparse copy of it" % (ex, nv), "mgh:large-graph-exception", {"input": {"generator": "caterpillar", "n": nv, "spine": spine}, "observed": repr(ex)})
            if only_search:
                return
            break
        if not (lb == 0 and ub >= 0):
            rep.violation("a %d-vertex graph and a relabelled copy of it get bounds (%r, %r); the distance is 0, so the lower bound must be 0" % (nv, lb, ub), "mgh:isomorphic-lower-bound",
                          {"input": {"generator": "caterpillar", "n": nv, "spine": spine, "perm_seeded": True}, "observed": [lb, ub], "expected": [0, ">=0"]})
            if only_search:
                return
            break
    if not only_search:
        rep.bounded("representations / relabelling / collections / disconnected graphs", "%d random pairs of connected graphs on 2..5 vertices x 6 container formats, relabelings, 3-graph collections, disconnected unions" % n,
                    evals, len(distinct), "brackets vs exact mGH (all maps enumerated), identical lower bounds across formats, symmetric zero-diagonal matrices, largest-component fallback with a warning", samples)


def _replay_search(a):
    class C:
        def __init__(self):
            self.v = []

        def violation(self, what, sig, payload, **k):
            self.v.append((what, sig, payload))

        def note(self, *a):
            pass

        def bounded(self, *a, **k):
            pass
    c = C()
    _standin(c, "quick", 0, only_search=True)
    if c.v:
        what, sig, payload = c.v[0]
        return True, payload, sig, what
    return False, None, None, None


def run(rep, tier, seed):
    from contracts.c17_mgh import all_contracts
    cs, table = all_contracts(tier)
    if cs:
        run_contracts(rep, cs, table, tier=tier, pid="C17", replayers=[(r"gromov|make_distance|determine|cast", _replay_search)])
    rep.assume("D10 scipy shortest_path(directed=False, unweighted=True) gives the same matrix for list / dense / CSR and for upper-triangular / symmetric adjacency",
               "D20 scipy connected_components labels; D19 tril_indices / np.unique(return_counts)")
    _standin(rep, tier, seed)


def replay(doc):
    inp = doc["payload"].get("input", {})
    if "disconnected" in inp:
        try:
            (lb, ub), warns = _gh(np.array(inp["disconnected"]), np.array(inp["other"]))
            print("replay C17: disconnected graph -> bounds (%r, %r), warnings %s: HOLDS" % (lb, ub, warns))
            return 0
        except Exception as ex:
            print("replay C17: disconnected graph -> raised %r: VIOLATED" % (ex,))
            return 1
    if "cast" in inp:
        from persim.gromov_hausdorff import cast_distance_matrix_to_optimal_int_type as _cast
        DX = np.array(inp["cast"], dtype=getattr(np, inp.get("dtype", "float64")))
        try:
            got = _cast(DX.copy())
        except Exception as ex:
            print("replay C17: integer cast raised %r: VIOLATED" % (ex,))
            return 1
        ok = got.shape == DX.shape and np.array_equal(got.astype(object), DX.astype(np.int64).astype(object))
        print("replay C17: integer cast of %s -> %s (%s): %s" % (DX.tolist(), got.tolist(), got.dtype, "HOLDS" if ok else "VIOLATED"))
        return 0 if ok else 1
    print("replay C17: %s" % doc.get("what"))
    return 1
