"""C20 - plots draw exactly the data and matchings they are given"""
import contextlib
import io
import math
import random
import warnings

import numpy as np

from vlib.deductive import run_contracts

LEVEL = "other"       # matching plots: trace contracts proved; plot_diagrams and landscape plots: artists inspected at run time only


def _fresh_axes(current):
    """a figure with two axes; `current` tells which of them is pyplot's current one"""
    import matplotlib
    matplotlib.use("Agg")
    import matplotlib.pyplot as plt
    plt.close("all")
    fig, (a0, a1) = plt.subplots(1, 2)
    other_fig, oa = plt.subplots()          # a second figure that must stay empty
    plt.figure(fig.number)
    plt.sca(a0 if current else a1)
    return plt, fig, a0, a1, oa


def _segments(ax):
    out = []
    for ln in ax.get_lines():
        x, y = ln.get_xdata(), ln.get_ydata()
        if len(x) == 2:
            out.append(((float(x[0]), float(y[0])), (float(x[1]), float(y[1])), ln))
    return out


def _rand_dgm(rng, n, with_inf=False):
    out = []
    for _ in range(n):
        b = round(rng.uniform(0, 5), 2)
        out.append([b, round(b + rng.uniform(0.1, 4), 2)])
    if with_inf and out:
        out[rng.randrange(len(out))][1] = float("inf")
    return np.array(out, dtype=float).reshape(-1, 2)


def labels_needed_later(plot_only, ndg):
    return all(0 <= i < ndg for i in plot_only)


def _check_plot_diagrams(rep, rng, counters):
    from persim import plot_diagrams
    for current in (True, False):
        plt, fig, a0, a1, oa = _fresh_axes(current)
        ndg = rng.randint(1, 3)
        dgms = [_rand_dgm(rng, rng.randint(1, 5), with_inf=rng.random() < 0.4) for _ in range(ndg)]
        dtype = rng.choice([float, np.float32, int])
        if dtype is int:
            dgms = [np.round(np.where(np.isinf(d), 9, d)).astype(int) + np.array([0, 1]) for d in dgms]
        else:
            dgms = [d.astype(dtype) for d in dgms]
        lifetime = rng.random() < 0.4
        legend = rng.random() < 0.5
        title = rng.choice([None, "T"])
        # any selection of the diagrams: single, reordered, repeated indices
        plot_only = rng.choice([None, None, [ndg - 1], [0, 0], list(range(ndg))[::-1], [rng.randrange(ndg) for _i in range(rng.randint(1, 3))]])
        if plot_only and labels_needed_later(plot_only, ndg):
            pass
        xy_range = rng.choice([None, None, [-1, 12, -1, 12]])
        diagonal = rng.random() < 0.7
        labels = rng.choice([None, ["L%d" % i for i in range(ndg)]])
        inp = {"dgms": [d.tolist() for d in dgms], "lifetime": lifetime, "legend": legend, "title": title, "plot_only": plot_only, "xy_range": xy_range,
               "diagonal": diagonal, "labels": labels, "ax_is_current": current, "dtype": str(np.dtype(dtype))}
        arg = dgms if (ndg > 1 or rng.random() < 0.5) else dgms[0]
        before = [d.copy() for d in dgms]
        with warnings.catch_warnings():
            warnings.simplefilter("ignore")
            plot_diagrams(arg, plot_only=plot_only, title=title, xy_range=xy_range, labels=labels, diagonal=diagonal, lifetime=lifetime, legend=legend, ax=a0)
        counters[0] += 1
        bad = []
        shown = [dgms[i] for i in plot_only] if plot_only else dgms
        cols = a0.collections
        if len(cols) != len(shown):
            bad.append("expected %d scatter collections on the given axes, found %d" % (len(shown), len(cols)))
        if a1.collections or a1.lines or oa.collections or oa.lines:
            bad.append("something was drawn on axes other than the one given")
        has_inf = any(np.isinf(d.astype(float)).any() for d in shown)
        ylim, xlim = a0.get_ylim(), a0.get_xlim()
        inf_y = None
        if has_inf:
            cands = [ln for ln in a0.get_lines() if ln.get_label() == r"$\infty$"]
            if len(cands) != 1:
                bad.append("expected exactly one infinity line, found %d" % len(cands))
            else:
                inf_y = float(cands[0].get_ydata()[0])
                if not (ylim[0] < inf_y < ylim[1]):
                    bad.append("infinity line at y=%r is not inside the y-limits %r" % (inf_y, ylim))
        for d, c in zip(shown, cols):
            off = np.asarray(c.get_offsets(), dtype=float)
            want = d.astype(np.float32).astype(float)
            if lifetime:
                want = np.column_stack([want[:, 0], (d.astype(np.float32)[:, 1] - d.astype(np.float32)[:, 0]).astype(float)])
            if has_inf and inf_y is not None:
                want = np.where(np.isinf(want), np.float32(inf_y).astype(float), want)
            if off.shape != want.shape or not np.allclose(off, want, rtol=2e-6, atol=1e-6):
                bad.append("scatter offsets %s differ from the diagram's points %s" % (off.tolist(), want.tolist()))
            if not xy_range:
                fin = want[np.isfinite(want)]
                if len(fin) and not (xlim[0] <= want[:, 0].min() and want[:, 0].max() <= xlim[1] and ylim[0] <= fin.min() + 0 and want[:, 1][np.isfinite(want[:, 1])].max() <= ylim[1]):
                    bad.append("axis limits x=%r y=%r do not contain all finite points" % (xlim, ylim))
        if xy_range and (tuple(xlim) != (xy_range[0], xy_range[1]) or (not lifetime and tuple(ylim) != (xy_range[2], xy_range[3]))):
            bad.append("explicit xy_range %r not applied: limits x=%r y=%r" % (xy_range, xlim, ylim))
        if (a0.get_title() or None) != title:
            bad.append("title %r, requested %r" % (a0.get_title(), title))
        if (a0.get_legend() is not None) != legend:
            bad.append("legend present=%r, requested %r" % (a0.get_legend() is not None, legend))
        if a0.get_xlabel() != "Birth" or a0.get_ylabel() != ("Lifetime" if lifetime else "Death"):
            bad.append("axis labels %r/%r" % (a0.get_xlabel(), a0.get_ylabel()))
        if labels and legend and a0.get_legend() is not None:
            texts = [t.get_text() for t in a0.get_legend().get_texts()]
            wantl = [labels[i] for i in plot_only] if plot_only else labels
            if [t for t in texts if t != r"$\infty$"] != wantl:
                bad.append("legend labels %r, requested %r" % (texts, wantl))
        if any(not np.array_equal(x, y, equal_nan=True) for x, y in zip(before, dgms)):
            bad.append("plot_diagrams modified the diagrams it was given")
        if bad:
            rep.violation("plot_diagrams: %s (options %s)" % (bad[0], {k: v for k, v in inp.items() if k != "dgms"}), "plot_diagrams:" + bad[0].split(" ")[0] + ":" + ("lifetime" if lifetime else "death"),
                          {"input": inp, "problems": bad[:4]})
        plt.close("all")


def _check_matching(rep, rng, counters, which):
    from persim import bottleneck, bottleneck_matching, wasserstein, wasserstein_matching
    dist, plot = (bottleneck, bottleneck_matching) if which == "bottleneck" else (wasserstein, wasserstein_matching)
    for current in (True, False):
        plt, fig, a0, a1, oa = _fresh_axes(current)
        d1, d2 = _rand_dgm(rng, rng.randint(0, 4)), _rand_dgm(rng, rng.randint(1, 4))
        if rng.random() < 0.5:
            d1, d2 = d2, d1
        if rng.random() < 0.4:
            d1, d2 = np.round(d1 * 2).astype(int), np.round(d2 * 2).astype(int)       # integer-typed diagrams are legitimate inputs
            d1[:, 1] += (d1[:, 1] <= d1[:, 0]) if d1.size else 0
            d2[:, 1] += (d2[:, 1] <= d2[:, 0]) if d2.size else 0
        with warnings.catch_warnings():
            warnings.simplefilter("ignore")
            dval, m = dist(d1, d2, matching=True)
            m = np.asarray(m, dtype=float).reshape(-1, 3)
            plot(d1, d2, m, ax=a0)
        counters[0] += 1
        inp = {"dgm1": d1.tolist(), "dgm2": d2.tolist(), "matching": m.tolist(), "ax_is_current": current, "which": which}
        A = d1 if d1.size else np.array([[0.0, 0.0]])
        B = d2 if d2.size else np.array([[0.0, 0.0]])
        want = []
        for (i, j, c) in m:
            i, j = int(i), int(j)
            if i == -1 and j == -1:
                continue
            if i == -1:
                p, q = B[j], ((B[j][0] + B[j][1]) / 2,) * 2
            elif j == -1:
                p, q = A[i], ((A[i][0] + A[i][1]) / 2,) * 2
            else:
                p, q = A[i], B[j]
            if float(p[0]) == float(q[0]) and float(p[1]) == float(q[1]):
                continue          # degenerate pair (a point on the diagonal and its own foot): no visible segment is demanded
            want.append(((float(p[0]), float(p[1])), (float(q[0]), float(q[1]))))
        segs = [s for s in _segments(a0) if s[2].get_linestyle() in ("-", "--") and s[2].get_label().startswith("_") and not _is_diag(s)]
        stray = _segments(a1) + _segments(oa)
        bad = []
        if stray:
            bad.append("%d matching segment(s) were drawn on axes other than the one given (e.g. %s)" % (len(stray), stray[0][:2]))
        got = [(s[0], s[1]) for s in segs if s[0] != s[1]]
        for w in want:
            if not any(_close(w, g) for g in got + [(s[0], s[1]) for s in stray]):
                bad.append("no segment drawn for the pair %s" % (w,))
                break
        missing_here = [w for w in want if not any(_close(w, g) for g in got)]
        if missing_here and not bad:
            bad.append("segment for %s is not on the given axes" % (missing_here[0],))
        if len(got) != len(want) and not bad:
            bad.append("%d segments on the given axes for %d matched pairs" % (len(got), len(want)))
        if which == "bottleneck" and len(m) and not bad:
            k = int(np.argmax(m[:, 2]))
            i, j = int(m[k, 0]), int(m[k, 1])
            if not (i == -1 and j == -1):
                styles = {(s[2].get_linestyle(), s[2].get_linewidth(), s[2].get_color()) for s in segs}
                if len(segs) > 1 and len(styles) < 2:
                    bad.append("the bottleneck pair is not marked distinctly")
        if bad:
            rep.violation("%s_matching: %s (ax is %sthe current axes; dgm1=%s dgm2=%s)" % (which, bad[0], "" if current else "not ", d1.tolist(), d2.tolist()),
                          "%s_matching:%s" % (which, "other-axes" if "other than" in bad[0] or "not on the given" in bad[0] else "segments"), {"input": inp, "problems": bad[:3]})
        plt.close("all")


def _is_diag(s):
    (x0, y0), (x1, y1), ln = s
    return abs(x0 - y0) < 1e-9 and abs(x1 - y1) < 1e-9 and ln.get_linestyle() == "--" and str(ln.get_color()) not in ("C2", "C3", "g")


def _close(a, b, tol=1e-6):
    f = lambda u, v: all(abs(x - y) <= tol * max(1, abs(x)) for p, q in zip(u, v) for x, y in zip(p, q))
    return f(a, b) or f(a, (b[1], b[0]))


def _check_landscape_plots(rep, rng, counters):
    from persim.landscapes import PersLandscapeApprox, PersLandscapeExact, plot_landscape_simple
    plt, fig, a0, a1, oa = _fresh_axes(False)
    d = _rand_dgm(rng, rng.randint(2, 4))
    with warnings.catch_warnings(), contextlib.redirect_stdout(io.StringIO()):
        warnings.simplefilter("ignore")
        P = PersLandscapeExact(dgms=[d], hom_deg=0)
        plot_landscape_simple(P, ax=a0)
        counters[0] += 1
        lines = a0.get_lines()
        bad = None
        if len(lines) != len(P.critical_pairs):
            bad = "expected one line per depth (%d), found %d" % (len(P.critical_pairs), len(lines))
        else:
            for ln, cp in zip(lines, P.critical_pairs):
                xy = np.column_stack([ln.get_xdata(), ln.get_ydata()]).astype(float)
                if not np.allclose(xy, np.array(cp, dtype=float)):
                    bad = "a depth's line does not go through its critical points"
        if a1.get_lines() or oa.get_lines():
            bad = "landscape drawn on axes other than the one given"
        if bad:
            rep.violation("plot_landscape_simple (exact): %s" % bad, "landscape-plot:exact", {"input": {"dgm": d.tolist()}})
        plt2, fig2, b0, b1, ob = _fresh_axes(False)
        A = PersLandscapeApprox(dgms=[d], start=0.0, stop=10.0, num_steps=21, hom_deg=0)
        if np.asarray(A.values).dtype.kind not in "fiu":
            plt.close("all")
            return            # the 'empty' sentinel of the class (known finding of C08): nothing to plot
        plot_landscape_simple(A, ax=b0)
        counters[0] += 1
        lines = b0.get_lines()
        grid = np.linspace(0.0, 10.0, 21)
        bad = None
        if len(lines) != len(A.values):
            bad = "expected one line per depth (%d), found %d" % (len(A.values), len(lines))
        else:
            for ln, row in zip(lines, A.values):
                if not (np.allclose(ln.get_xdata(), grid) and np.allclose(ln.get_ydata(), row)):
                    bad = "a depth's line does not show the sampled values on the grid"
        if b1.get_lines() or ob.get_lines():
            bad = "landscape drawn on axes other than the one given"
        if bad:
            rep.violation("plot_landscape_simple (grid): %s" % bad, "landscape-plot:grid", {"input": {"dgm": d.tolist()}})
    plt.close("all")


def _standin(rep, tier, seed):
    rng = random.Random(seed * 71 + 20)
    counters = [0]
    n = 25 if tier == "quick" else 400
    for _ in range(n):
        _check_plot_diagrams(rep, rng, counters)
        _check_matching(rep, rng, counters, "bottleneck")
        _check_matching(rep, rng, counters, "wasserstein")
    for _ in range(5 if tier == "quick" else 60):
        _check_landscape_plots(rep, rng, counters)
    rep.bounded("artists on an Agg canvas", "%d rounds x {plot_diagrams with random options, bottleneck_matching, wasserstein_matching} with the supplied axes current and not current; landscape 2-D plots" % n,
                counters[0], max(2, counters[0] // 2), "scatter offsets vs float32 points (lifetime / infinity substitution), limits, infinity line inside the axes, title / labels / legend, one segment per matched pair on the *given* axes with the right end-points, bottleneck pair styled differently, nothing on other axes or figures, inputs unchanged",
                samples=[{"options": "random plot_only / lifetime / diagonal / legend / labels / xy_range / dtype"}])


def run(rep, tier, seed):
    from contracts.c20_plots import all_contracts
    cs, table = all_contracts(tier)
    run_contracts(rep, cs, table, tier=tier, pid="C20")
    # plot_diagrams as a call-trace contract (scatter coordinates, infinity line inside the axes, limits, title / legend, frame)
    from contracts.c20_plots import plot_diagrams_contracts
    cs2, t2 = plot_diagrams_contracts(tier)

    def _replay_pd(a):
        class C:
            def __init__(self):
                self.v = []

            def violation(self, what, sig, payload, **k):
                self.v.append((what, sig, payload))

            def note(self, *a):
                pass

            def bounded(self, *a, **k):
                pass
        c = C()
        _standin(c, "quick", 0)
        for what, sig, payload in c.v:
            if "plot_diagrams" in what or "diagram" in sig:
                return True, payload, sig, what
        return False, None, None, None
    run_contracts(rep, cs2, t2, tier=tier, pid="C20", replayers=[(r"plot_diagrams", _replay_pd)])
    rep.assume("D22 matplotlib turns the recorded Axes calls into the artists named by the property (Line2D per plot call, PathCollection per scatter)",
               "the matching passed to the plotting functions is a certificate in the sense of C06 (integer-valued indices in range or -1)")
    _standin(rep, tier, seed)


def replay(doc):
    print("replay C20: %s ; inputs in the file, re-run ./check C20 to redraw on an Agg canvas" % doc.get("what"))
    return 1
