"""C16 - persistent entropy is the Shannon entropy of normalised bar lengths"""
import itertools
import math
import random
import warnings

import numpy as np

from vlib.deductive import run_contracts

LEVEL = "proof"
INF = float("inf")


def _oracle(dgm, keep_inf, val_inf, normalize):
    """-> ('raise', None) | ('value', H) per the statement, for one diagram given as list of [b, d]"""
    bars = []
    for b, d in dgm:
        if d == INF:
            if not keep_inf:
                continue
            d = val_inf
        bars.append(d - b)
    if any(l <= 0 for l in bars):
        return "raise", None
    L = math.fsum(bars)
    H = -math.fsum((l / L) * math.log(l / L) for l in bars) if bars else 0.0
    if normalize:
        if len(bars) < 2:
            return "undefined", None
        H = H / math.log(len(bars))
    return "value", H


def _call(dgms, keep_inf, val_inf, normalize):
    from persim.persistent_entropy import persistent_entropy
    with warnings.catch_warnings():
        warnings.simplefilter("ignore")
        try:
            r = persistent_entropy(dgms, keep_inf=keep_inf, val_inf=val_inf, normalize=normalize)
            return "value", [float(x) for x in np.atleast_1d(r)]
        except Exception as ex:
            return "raise", repr(ex)


def _check_case(rep, dg_list, single, keep_inf, val_inf, normalize, tag):
    """one call on the real code vs the oracle; returns a signature class or None when skipped"""
    arrs = [np.array(d, dtype=float).reshape(-1, 2) for d in dg_list]
    arg = arrs[0] if single else arrs
    inp = {"dgms": dg_list, "single": single, "keep_inf": keep_inf, "val_inf": val_inf, "normalize": normalize}
    if keep_inf and val_inf is None:
        kind, got = _call(arg, keep_inf, val_inf, normalize)
        if kind != "raise":
            rep.violation("keep_inf=True without val_inf must raise, returned %s" % got, "entropy:keep_inf-no-value", {"input": inp, "observed": got})
        return "noval"
    want = [_oracle(d, keep_inf, val_inf, normalize) for d in dg_list]
    if any(w[0] == "undefined" for w in want):
        return None
    kind, got = _call(arg, keep_inf, val_inf, normalize)
    should_raise = any(w[0] == "raise" for w in want)
    if should_raise:
        if kind != "raise":
            rep.violation("a bar of non-positive length must raise, got %s for %s" % (got, inp), "entropy:no-raise-on-nonpositive-bar",
                          {"input": inp, "observed": got, "expected": "Exception", "call": "persistent_entropy(dgms, keep_inf, val_inf, normalize)"})
        return "raise"
    if kind == "raise":
        rep.violation("unexpected exception %s for %s" % (got, inp), "entropy:spurious-raise", {"input": inp, "observed": got})
        return "value"
    vals = [w[1] for w in want]
    if len(got) != len(vals) or any((g != g) or abs(g - v) > 1e-9 * max(1.0, abs(v)) for g, v in zip(got, vals)):
        rep.violation("entropy %s differs from -sum p log p = %s for %s" % (got, vals, inp),
                      "entropy:value" + (":inf-bar" if any(d == INF for dg in dg_list for _b, d in dg) else ""),
                      {"input": inp, "observed": got, "expected": vals, "call": "persistent_entropy(dgms, keep_inf, val_inf, normalize)"})
    for g, dg in zip(got, dg_list):
        n = sum(1 for _b, d in dg if keep_inf or d != INF)
        hi = 1.0 if normalize else (math.log(n) if n else 0.0)
        if g == g and not (-1e-12 <= g <= hi + 1e-9):
            rep.violation("entropy %r outside [0, %r]" % (g, hi), "entropy:bounds", {"input": inp, "observed": g})
    return "value"


def _enumerate_small():
    pts = [(0.0, 1.0), (0.0, 2.0), (1.0, 2.0), (1.0, 1.0), (2.0, 1.0), (1.0, INF), (0.0, INF)]
    for n in range(0, 4):
        for combo in itertools.combinations_with_replacement(pts, n):
            yield [list(p) for p in combo]


def _standin(rep, tier, seed, limit=None):
    rng = random.Random(seed * 31 + 16)
    evals, distinct, samples = 0, set(), []
    flags = [(k, v, nm) for k in (False, True) for v in (None, 5.0, 1.0) for nm in (False, True)]
    small = list(_enumerate_small())
    for dg in small:
        for (k, v, nm) in flags:
            c = _check_case(rep, [dg], True, k, v, nm, "small")
            if c:
                evals += 1
                distinct.add((len(dg), k, v is None, nm, c, tuple(sorted(map(tuple, dg)))))
    # lists of diagrams: element-wise and in order
    for _ in range(60 if tier == "quick" else 1500):
        dgs = [rng.choice(small) for _ in range(rng.randint(1, 3))]
        k, v, nm = rng.choice(flags)
        c = _check_case(rep, dgs, False, k, v, nm, "list")
        if c:
            evals += 1
            distinct.add(("list", len(dgs), k, v is None, nm, c))
            if len(samples) < 3:
                samples.append({"dgms": dgs, "keep_inf": k, "val_inf": v, "normalize": nm})
    # random real-valued barcodes: invariances (reorder, shift, scale) and equal-length maximum
    for _ in range(100 if tier == "quick" else 3000):
        n = rng.randint(1, 8)
        dg = []
        for _i in range(n):
            b = rng.uniform(-5, 5)
            dg.append([b, b + rng.uniform(1e-3, 4)])
        scale = rng.choice([1e-6, 1.0, 1e6])
        dg = [[b * scale, d * scale] for b, d in dg]
        c = _check_case(rep, [dg], True, False, None, rng.random() < 0.5, "rand")
        evals += 1
        distinct.add(("rand", n, scale))
        _k, base = _call(np.array(dg), False, None, False)
        if _k == "value":
            sh = rng.uniform(-10, 10) * scale
            perm = dg[:]
            rng.shuffle(perm)
            for name, other in (("shift", [[b + sh, d + sh] for b, d in dg]), ("scale", [[b * 3.5, d * 3.5] for b, d in dg]), ("reorder", perm)):
                _k2, o = _call(np.array(other), False, None, False)
                if _k2 != "value" or abs(o[0] - base[0]) > 1e-7 * max(1.0, abs(base[0])):
                    rep.violation("entropy not invariant under %s: %s vs %s" % (name, base, o), "entropy:invariance:" + name, {"input": {"dgm": dg, "other": other}, "observed": [base, o]})
            eq = [[i * 1.0, i * 1.0 + 2.5] for i in range(n)]
            _k3, e = _call(np.array(eq), False, None, False)
            if _k3 != "value" or abs(e[0] - math.log(n)) > 1e-9:
                rep.violation("equal bars should give log n=%r, got %s" % (math.log(n), e), "entropy:equal-bars", {"input": {"dgm": eq}, "observed": e})
    rep.bounded("entropy-vs-shannon", "all multisets of <=3 bars over 7 lattice points (incl. inf, zero and negative length) x 12 flag combinations; random lists; random barcodes of 1..8 bars at scales 1e-6..1e6",
                evals, len(distinct), "distinct = (multiset, flags, outcome class); value vs fsum oracle, raise iff non-positive bar, bounds, invariances", samples,
                exhaustive=True)


def _replay_search(a):
    """deductive refutation -> look for a concrete failing input with the exhaustive small enumeration"""
    class Collect:
        def __init__(self):
            self.v = []

        def violation(self, what, sig, payload, **k):
            self.v.append((what, sig, payload))
    c = Collect()
    for dg in _enumerate_small():
        for k in (False, True):
            for v in (None, 5.0, 1.0):
                for nm in (False, True):
                    _check_case(c, [dg], True, k, v, nm, "replay")
                    if c.v:
                        what, sig, payload = c.v[0]
                        return True, payload, sig, what
    return False, None, None, None


def _purity(rep, seed=0):
    from persim.persistent_entropy import persistent_entropy
    from vlib.deductive import purity_probe
    import warnings
    rng = random.Random(seed + 9)
    calls = []
    for it in range(12):
        k = rng.randint(2, 4)
        D = np.array([[b, b + rng.uniform(0.5, 3)] for b in (rng.uniform(0, 3) for _i in range(k))], dtype=float)
        if it % 3 != 2:
            D[rng.randrange(k), 1] = np.inf
        D2 = D.copy() + 1.0
        kw = [{}, {"keep_inf": True, "val_inf": 9.0}, {"keep_inf": True, "val_inf": 20.0, "normalize": True}, {"normalize": True}][it % 4]
        calls.append(("persistent_entropy(D, %s) on a float64 array" % kw, (lambda D=D, kw=kw: persistent_entropy(D, **kw)), [D]))
        calls.append(("persistent_entropy([D, D2], %s) on float64 arrays" % kw, (lambda D=D, D2=D2, kw=kw: persistent_entropy([D, D2], **kw)), [D, D2]))
    with warnings.catch_warnings():
        warnings.simplefilter("ignore")
        return purity_probe(rep, "persistent_entropy", calls, "entropy:argument-modified")


def _replay_frame(a):
    class C:
        def __init__(self):
            self.v = []

        def violation(self, what, sig, payload, **k):
            self.v.append((what, sig, payload))
    c = C()
    _purity(c)
    if c.v:
        what, sig, payload = c.v[0]
        return True, payload, sig, what
    return False, None, None, None


def run(rep, tier, seed):
    from contracts.c16_entropy import all_contracts
    cs, table = all_contracts(tier)
    run_contracts(rep, cs, table, tier=tier, replayers=[(r"\.frame\.", _replay_frame), (r"persistent_entropy", _replay_search)])
    _purity(rep, seed)
    rep.assume("Sigma-extensionality and Sigma-positivity meta-rules (induction on n; applied by the generator after proving their pointwise premises)",
               "D6 boolean-mask indexing = order-preserving sub-array; log uninterpreted with sign facts only",
               "Jensen: 0 <= H <= log n with equality cases (sampled only)")
    _standin(rep, tier, seed)


def replay(doc):
    inp = doc["payload"].get("input", {})
    if "dgms" in inp:
        class R:
            bad = []

            def violation(self, what, sig, payload, **k):
                self.bad.append(what)
        r = R()
        _check_case(r, inp["dgms"], inp.get("single", True), inp["keep_inf"], inp["val_inf"], inp["normalize"], "replay")
        print("replay C16: %s -> %s" % (inp, "VIOLATED: " + r.bad[0] if r.bad else "HOLDS"))
        return 1 if r.bad else 0
    print("replay C16: obligation %s (no direct input)" % doc.get("obligation"))
    return 1
