"""C07 - bottleneck and Wasserstein obey the metric and invariance laws at any size"""
import math
import random

from vlib.deductive import run_contracts
from . import _dist_common as dc

LEVEL = "other"      # mixed: entrywise laws + value contracts proved; the laws of the optimum are paper lemmas L3-L9, sampled


def _d(kind, a, b):
    (r), _ = dc.call(kind, a, b)
    return float(r)


def _standin(rep, tier, seed, only_search=False):
    rng = random.Random(seed * 29 + 7)
    evals, distinct, samples = 0, set(), []
    sizes = [0, 1, 2, 5, 12, 30, 60] if tier == "quick" else [0, 1, 2, 5, 12, 30, 60, 120, 200]
    n = 40 if tier == "quick" else 400
    def structured(k):
        """families where laws are delicate: staircases sharing points, a dominant bar next to small ones"""
        m = rng.choice([2, 3, 6, 25] if tier == "quick" else [2, 3, 6, 25, 100, 200])
        if k % 3 == 0:
            A = [[float(i), float(i + 10)] for i in range(m)]
            B = [[float(i + 1), float(i + 11)] for i in range(m)]
            C = [[float(i) + 0.5, float(i) + 10.5] for i in range(m)]
        elif k % 3 == 1:
            # one dominant bar in one diagram only, next to bars that do match (clustered when k is odd)
            a, b1 = rng.uniform(4, 7), rng.uniform(9, 14)
            cl = (m - 1) if (k % 2 == 0) else 0
            h = min(0.1, a / (4.0 * max(cl, 1)))          # spacing that keeps every clustered bar well above the diagonal for any m
            A = [[0.0, a]] + [[h * i, a - h * i] for i in range(1, cl + 1)]
            B = [[0.0, b1], [0.0, a - 1.0]] + [[h * i, a - h * i - h / 2] for i in range(1, cl + 1)]
            C = [[0.0, (a + b1) / 2]]
        else:
            A = [[float(i), float(i) + 3.0] for i in range(m)]
            B = A[: m // 2] + [[p[0] + 0.25, p[1] + 0.25] for p in A[m // 2:]]
            C = A[1:]
        return A, B, C
    for it in range(n):
        na, nb, nc = rng.choice(sizes), rng.choice(sizes), rng.choice(sizes[:5])
        if it in (1, 2, 3):
            # "any size": a few triples beyond the block sizes libraries like to work in (128, 256), in every tier
            na, nb = [(150, 90), (129, 140), (200, 257)][it - 1]
        lat = rng.random() < 0.3
        A, B, C = dc.rand_dgm(rng, na, lattice=lat), dc.rand_dgm(rng, nb, lattice=lat), dc.rand_dgm(rng, nc, lattice=lat)
        if rng.random() < 0.3 and na:
            B = [[p[0] + rng.uniform(-0.05, 0.05), p[1] + rng.uniform(0, 0.05)] for p in A]     # noisy copy
        if it % 4 == 0:
            A, B, C = structured(it // 4)
            na, nb, nc = len(A), len(B), len(C)
        if any(p[1] < p[0] for p in A + B + C):
            rep.note("generator produced a point below the diagonal; case skipped (not a persistence diagram)")
            continue
        for kind, fn in (("inf", "bottleneck"), ("2", "wasserstein")):
            d = _d(kind, A, B)
            mag = max([abs(x) for p in A + B + C for x in p] + [1.0])
            tol = 64 * 2.3e-16 * mag * (len(A) + len(B) + len(C) + 2) * 8
            inp = {"dgm1": A, "dgm2": B, "dgm3": C}
            checks = []
            checks.append(("nonnegative", d >= 0))
            checks.append(("symmetry", abs(_d(kind, B, A) - d) <= tol))
            if A:
                perm = A[:]
                rng.shuffle(perm)
                checks.append(("reorder-zero", abs(_d(kind, A, perm)) <= tol))
            checks.append(("triangle", d <= _d(kind, A, C) + _d(kind, C, B) + tol))
            m = rng.uniform(0, 5)
            checks.append(("diagonal-point", abs(_d(kind, A + [[m, m]], B) - d) <= tol))
            c = rng.choice([-3.0, 7.5])
            sh = lambda P: [[p[0] + c, p[1] + c] for p in P]
            checks.append(("shift", abs(_d(kind, sh(A), sh(B)) - d) <= tol * 4))
            lam = rng.choice([0.5, 3.0])
            sc = lambda P: [[lam * p[0], lam * p[1]] for p in P]
            checks.append(("scale", abs(_d(kind, sc(A), sc(B)) - lam * d) <= tol * 4))
            if kind == "inf":
                want = max([(p[1] - p[0]) / 2 for p in A] + [0.0])
                checks.append(("empty", abs(_d(kind, A, []) - want) <= tol))
                checks.append(("bottleneck-le-wasserstein", d <= _d("2", A, B) + tol))
            else:
                want = math.fsum((p[1] - p[0]) / math.sqrt(2) for p in A)
                checks.append(("empty", abs(_d(kind, A, []) - want) <= tol))
            for name, ok in checks:
                evals += 1
                distinct.add((fn, name, na, nb))
                if not ok:
                    rep.violation("%s law '%s' fails for diagrams of %d/%d/%d points: %s" % (fn, name, na, nb, nc, inp if na + nb + nc <= 12 else "(large; see replay file)"),
                                  "%s:law:%s" % (fn, name), {"input": dict(inp, shift=c, scale=lam, diagonal_point=m), "observed": d, "law": name, "fn": fn})
                    if only_search:
                        return
        if len(samples) < 2 and na + nb <= 8:
            samples.append({"dgm1": A, "dgm2": B})
    # the same births and the same deaths, paired differently (as multisets of coordinates the two diagrams agree): the distance is
    # positive, and adding a diagonal point or passing through a third diagram must not change that
    for it in range(16 if tier == "quick" else 300):
        k = rng.randint(2, 8)
        lat = rng.random() < 0.4
        P = dc.rand_dgm(rng, k, lattice=lat)
        bs, dsd = sorted(p[0] for p in P), sorted(p[1] for p in P)
        A = [[b, d] for b, d in zip(bs, dsd)]
        sh = dsd[:]
        for _t in range(30):
            rng.shuffle(sh)
            if all(d >= b for b, d in zip(bs, sh)) and sh != dsd:
                break
        else:
            continue
        B = [[b, d] for b, d in zip(bs, sh)]
        for kind, fn in (("inf", "bottleneck"), ("2", "wasserstein")):
            d0 = _d(kind, A, B)
            m = rng.uniform(0, 5)
            d1 = _d(kind, A + [[m, m]], B)
            d2 = _d(kind, A, B + [[m, m]])
            tol = 64 * 2.3e-16 * 8 * (2 * k + 3) * 8
            evals += 3
            distinct.add((fn, "re-paired", k))
            if abs(d1 - d0) > tol or abs(d2 - d0) > tol:
                rep.violation("%s law 'diagonal-point' fails on diagrams with equal births and equal deaths paired differently: d(A,B)=%r, with a diagonal point added %r / %r (%s, %s)" % (fn, d0, d1, d2, A, B),
                              "%s:law:diagonal-point" % fn, {"input": {"dgm1": A, "dgm2": B, "diagonal_point": m}, "observed": [d0, d1, d2], "law": "diagonal-point", "fn": fn})
                if only_search:
                    return
                break
    # the laws on the families where candidate costs tie up to rounding, on split pools and on long chains
    cnt = 0
    for A, B, src in dc.enumerate_pairs(tier, random.Random(seed * 3 + 1)):
        if src not in ("decimal-ties", "split-pool", "chain"):
            continue
        cnt += 1
        db, dw = _d("inf", A, B), _d("2", A, B)
        tol = 64 * 2.3e-16 * max([abs(x) for p in A + B for x in p] + [1.0]) * (len(A) + len(B) + 2) * 8
        m = 0.45
        checks = [("symmetry", abs(_d("inf", B, A) - db) <= tol and abs(_d("2", B, A) - dw) <= tol),
                  ("bottleneck-le-wasserstein", db <= dw + tol),
                  ("diagonal-point", abs(_d("inf", A + [[m, m]], B) - db) <= tol and abs(_d("2", A, B + [[m, m]]) - dw) <= tol),
                  ("scale", abs(_d("inf", [[2 * x for x in p] for p in A], [[2 * x for x in p] for p in B]) - 2 * db) <= 4 * tol)]
        if len(A) == len(B) == 1:
            mid = [[(A[0][0] + B[0][0]) / 2, (A[0][1] + B[0][1]) / 2]]
            checks.append(("triangle", db <= _d("inf", A, mid) + _d("inf", mid, B) + tol))
        for name, ok in checks:
            evals += 1
            distinct.add(("family-laws", src, name))
            if not ok:
                rep.violation("law '%s' fails on the %s family: bottleneck %r, wasserstein %r (%s, %s)" % (name, src, db, dw, A if len(A) < 8 else "...", B if len(B) < 8 else "..."),
                              "bottleneck:law:%s" % name, {"input": {"dgm1": A, "dgm2": B}, "observed": [db, dw], "law": name, "fn": "bottleneck/wasserstein"})
                if only_search:
                    return
    # persistences spanning 13 to 16 orders of magnitude: a huge bar shared by both diagrams next to ordinary ones
    for _ in range(10 if tier == "quick" else 150):
        big = [0.0, rng.choice([1e13, 1e15, 1e16])]
        small = dc.rand_dgm(rng, rng.randint(1, 3))
        small = [p for p in small if p[1] > p[0]] or [[2.0, 3.0]]
        A, B = [big] + small, [big]
        for kind, fn in (("inf", "bottleneck"), ("2", "wasserstein")):
            got = _d(kind, A, B)
            want = dc.oracle(kind, small, [])           # the shared bar pairs with itself at cost 0
            evals += 1
            distinct.add((fn, "extreme-ratio"))
            if abs(got - want) > 1e-9 * max(1.0, want) + 64 * 2.3e-16 * big[1]:
                rep.violation("%s of %s vs %s = %r; the shared bar cancels and the rest goes to the diagonal at cost %r" % (fn, A, B, got, want), "%s:law:empty" % fn,
                              {"input": {"dgm1": A, "dgm2": B}, "observed": got, "expected": want, "law": "shared-bar-cancels", "fn": fn})
                if only_search:
                    return
    # all scales and shifts: dyadic diagrams moved far along the diagonal (2^20 .. 2^40) or rescaled by powers of two (2^-40 .. 2^30).
    # Every coordinate, difference and half-difference stays exactly representable, so the bottleneck distance must transform
    # exactly and the Wasserstein distance up to the rounding of its square roots and sums - no tolerance may depend on the magnitude.
    for it in range(25 if tier == "quick" else 400):
        mk = lambda k: [[b, b + rng.choice([0.25, 0.5, 1.0, 1.75, 3.0, 5.5, 9.0])] for b in (rng.randint(0, 24) * 0.25 for _ in range(k))]
        A, B = mk(rng.randint(1, 6)), mk(rng.randint(0, 6))
        for kind, fn in (("inf", "bottleneck"), ("2", "wasserstein")):
            d = _d(kind, A, B)
            rel = 0.0 if kind == "inf" else 1e-12
            for c in (2.0 ** 20, 2.0 ** 30, -(2.0 ** 25), 2.0 ** 40):
                got = _d(kind, [[p[0] + c, p[1] + c] for p in A], [[p[0] + c, p[1] + c] for p in B])
                evals += 1
                distinct.add((fn, "far-shift", c))
                # bottleneck: only differences of coordinates enter - exact.  Wasserstein rotates the coordinates before subtracting:
                # rounding proportional to the magnitude of the coordinates is inherent to that evaluation (64 ulp of |c| per point)
                slack = 0.0 if kind == "inf" else 64 * 2.3e-16 * abs(c) * (len(A) + len(B) + 2)
                if abs(got - d) > rel * max(d, 1.0) + slack:
                    rep.violation("%s law 'shift' fails: translating both diagrams by %r along the diagonal changes the distance from %r to %r (%s, %s)" % (fn, c, d, got, A, B),
                                  "%s:law:shift" % fn, {"input": {"dgm1": A, "dgm2": B, "shift": c}, "observed": got, "expected": d, "law": "shift", "fn": fn})
                    if only_search:
                        return
                    break
            for lam in (2.0 ** -40, 2.0 ** -30, 2.0 ** -10, 2.0 ** 30):
                got = _d(kind, [[lam * p[0], lam * p[1]] for p in A], [[lam * p[0], lam * p[1]] for p in B])
                evals += 1
                distinct.add((fn, "far-scale", lam))
                if abs(got - lam * d) > rel * lam * max(d, 1.0):
                    rep.violation("%s law 'scale' fails: rescaling both diagrams by %r gives %r, expected %r (%s, %s)" % (fn, lam, got, lam * d, A, B),
                                  "%s:law:scale" % fn, {"input": {"dgm1": A, "dgm2": B, "scale": lam}, "observed": got, "expected": lam * d, "law": "scale", "fn": fn})
                    if only_search:
                        return
                    break
    if not only_search:
        rep.bounded("metric-and-invariance-laws", "%d random triples with sizes in %s (incl. noisy copies and lattice diagrams)" % (n, sizes), evals, len(distinct),
                    "distinct = (distance, law, sizes); laws: >=0, symmetry, zero on reorder, triangle, diagonal points, diagonal shift, scaling, empty-diagram formulas, bottleneck <= Wasserstein",
                    samples)


def _replay_search(a):
    class C:
        def __init__(self):
            self.v = []

        def violation(self, what, sig, payload, **k):
            self.v.append((what, sig, payload))

        def note(self, *a):
            pass

        def bounded(self, *a, **k):
            pass
    c = C()
    _standin(c, "quick", 0, only_search=True)
    if c.v:
        what, sig, payload = c.v[0]
        return True, payload, sig, what
    return False, None, None, None


def run(rep, tier, seed):
    from contracts.c01_bottleneck import all_contracts as b_all
    from contracts.c02_wasserstein import all_contracts as w_all
    from contracts.c07_laws import all_contracts as l_all
    cs = [c for c in b_all(tier)[0] + w_all(tier)[0] if c.variant == "matching=False"] + l_all(tier)[0]
    run_contracts(rep, cs, {}, tier=tier, pid="C07", replayers=[(r"bottleneck|wasserstein|C07", _replay_search)])
    rep.assume("L3-L9: each law of the min-max / min-sum value follows from the entrywise fact proved on the cost spec (symmetry by transposition, shift/scale by entrywise invariance, "
               "triangle by composing matchings, diagonal points neutral, d(X, empty) formulas, bottleneck <= Wasserstein) - paper lemmas, sampled",
               "the dependency contracts of C01 / C02 (D2-D7)")
    _standin(rep, tier, seed)


def replay(doc):
    p = doc["payload"]
    inp = p.get("input", {})
    if "dgm1" in inp and "law" in p:
        class R:
            def __init__(self):
                self.v = []

            def violation(self, what, sig, payload, **k):
                self.v.append(what)
        # re-evaluate just this law on the stored triple
        kind = "inf" if p.get("fn") == "bottleneck" else "2"
        A, B, C = inp["dgm1"], inp["dgm2"], inp.get("dgm3", [])
        d = _d(kind, A, B)
        print("replay C07: %s law %s on stored diagrams: d=%r (re-run the check for the full comparison)" % (p.get("fn"), p["law"], d))
        return 1
    print("replay C07: %s" % doc.get("what"))
    return 1
