"""C02 - Wasserstein distance is the true min-sum matching cost"""
import random

from vlib.deductive import run_contracts
from . import _dist_common as dc

LEVEL = "proof"
KIND = "2"


def _standin(rep, tier, seed, only_search=False):
    rng = random.Random(seed * 19 + 2)
    evals, distinct, samples = 0, set(), []
    for a, b, src in dc.enumerate_pairs(tier, rng):
        ok = dc.value_case(rep, KIND, a, b, src)
        evals += 1
        distinct.add((dc.classify(a, b), len(a), len(b), src))
        if len(samples) < 3 and src == "random":
            samples.append({"dgm1": a, "dgm2": b})
        if only_search and not ok:
            return
    # numeric scale: the same pair translated far along the diagonal (the distance is translation invariant)
    for off in (1e3, 1e6, 1e8):
        for _ in range(10 if tier == "quick" else 200):
            a, b = dc.rand_dgm(rng, rng.randint(1, 3), offset=off), dc.rand_dgm(rng, rng.randint(1, 3), offset=off)
            ok = dc.value_case(rep, KIND, a, b, "offset")
            evals += 1
            distinct.add(("offset", off, len(a), len(b)))
            if only_search and not ok:
                return
    evals += dc.view_cases(rep, KIND, rng, 12 if tier == "quick" else 300)
    evals += dc.huge_typed_case(rep, KIND, rng)
    if not only_search:
        rep.bounded("wasserstein-vs-bruteforce", "all pairs of diagrams with <=2 points on a 3x3 lattice (+ one infinite bar), random pairs of <=4 points, scales 1e-9..1e6, diagonal offsets 1e3/1e6/1e8",
                    evals, len(distinct), "distinct = (feature class, sizes, source); oracle = all permutations of the augmented matrix built from the statement (<=7x7), float rule of DESIGN 2.6", samples, exhaustive=True)


def _replay_search(a):
    class C:
        def __init__(self):
            self.v = []

        def violation(self, what, sig, payload, **k):
            self.v.append((what, sig, payload))

        def note(self, *a):
            pass

        def bounded(self, *a, **k):
            pass
    c = C()
    _standin(c, "quick", 0, only_search=True)
    if c.v:
        what, sig, payload = c.v[0]
        return True, payload, sig, what
    return False, None, None, None


def run(rep, tier, seed):
    from contracts.c02_wasserstein import all_contracts
    cs, table = all_contracts(tier)
    cs = [c for c in cs if c.variant.startswith("matching=False")]
    run_contracts(rep, cs, table, tier=tier, pid="C02", replayers=[(r"wasserstein", _replay_search)])
    rep.assume("D4 scipy.optimize.linear_sum_assignment returns rows arange(n) and a column permutation of minimal total cost",
               "D5 sklearn pairwise_distances = Euclidean distance over all columns (in real arithmetic; its float cancellation is visible to the stand-in only)",
               "D6 mask indexing; A6 cos(pi/4)=sin(pi/4)=h, h^2=1/2, sqrt(2)=2h",
               "L2 augmented square problem = partial matchings with the diagonal; (0,0) placeholder neutral")
    _standin(rep, tier, seed)


def replay(doc):
    inp = doc["payload"].get("input", {})
    if "dgm1" in inp:
        class R:
            bad = []

            def violation(self, what, sig, payload, **k):
                self.bad.append(what)
        r = R()
        r.bad = []
        dc.value_case(r, KIND, inp["dgm1"], inp["dgm2"], "replay")
        print("replay C02: wasserstein(%s, %s) -> %s" % (inp["dgm1"], inp["dgm2"], ("VIOLATED: " + r.bad[0]) if r.bad else "HOLDS"))
        return 1 if r.bad else 0
    print("replay C02: %s" % doc.get("what"))
    return 1
