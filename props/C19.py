"""C19 - public API is pure, repeatable and representation-independent"""
import ast
import contextlib
import copy
import io
import os
import random
import warnings

import numpy as np

from vlib.deductive import run_contracts

LEVEL = "other"
REPO = os.environ.get("VERIF_REPO", "/repo")


def _snap(x):
    if isinstance(x, np.ndarray):
        return ("nd", x.dtype.str, x.shape, x.tobytes())
    if isinstance(x, (list, tuple)):
        return (type(x).__name__, tuple(_snap(v) for v in x))
    if isinstance(x, dict):
        return ("dict", tuple(sorted((k, _snap(v)) for k, v in x.items())))
    if hasattr(x, "__dict__") and type(x).__module__.startswith("persim"):
        # a landscape / imager object passed as an argument: everything it holds is part of the observable argument
        # (its public attributes; private `_name` members are caches an implementation may fill lazily without changing anything observable)
        return ("obj", type(x).__name__, tuple(sorted((k, _snap(v)) for k, v in vars(x).items() if not k.startswith("_"))))
    return ("v", repr(x))


def _same(a, b):
    try:
        return _same0(a, b)
    except Exception:
        # a comparison that cannot be carried out decides nothing (never an alarm by itself)
        return True


def _same0(a, b):
    if isinstance(a, np.ndarray) or isinstance(b, np.ndarray):
        a, b = np.asarray(a), np.asarray(b)
        if a.dtype.kind not in "fc" or b.dtype.kind not in "fc":      # strings (the 'empty' sentinel of grid landscapes), ints, objects
            return a.shape == b.shape and bool(np.array_equal(a, b))
        return a.shape == b.shape and bool(np.array_equal(a, b, equal_nan=True))
    if isinstance(a, (list, tuple)) and isinstance(b, (list, tuple)):
        return len(a) == len(b) and all(_same0(x, y) for x, y in zip(a, b))
    if hasattr(a, "critical_pairs") and hasattr(b, "critical_pairs"):
        return _same(a.critical_pairs, b.critical_pairs)
    if hasattr(a, "values") and hasattr(b, "values") and not isinstance(a, dict):
        return _same(a.values, b.values)
    try:
        return bool(a == b)
    except Exception:
        return a is b


def _close(a, b, tol=1e-9):
    if isinstance(a, (list, tuple)) and isinstance(b, (list, tuple)) and len(a) == len(b):
        return all(_close(x, y, tol) for x, y in zip(a, b))
    if hasattr(a, "critical_pairs") and hasattr(b, "critical_pairs"):
        return _close(np.array(a.critical_pairs, dtype=object).tolist(), np.array(b.critical_pairs, dtype=object).tolist(), tol)
    if hasattr(a, "values") and hasattr(b, "values"):
        return _close(a.values, b.values, tol)
    try:
        return bool(np.allclose(np.asarray(a, dtype=float), np.asarray(b, dtype=float), rtol=tol, atol=tol, equal_nan=True))
    except Exception:
        return _same(a, b)


def entry_points(rng):
    """(name, callable(args) -> result, args factory) for the public API"""
    import importlib
    import matplotlib
    matplotlib.use("Agg")
    import matplotlib.pyplot as plt
    import persim
    from persim import PersImage, PersistenceImager, bottleneck, gromov_hausdorff, heat, plot_diagrams, sliced_wasserstein, wasserstein
    from persim import bottleneck_matching, wasserstein_matching
    from persim.landscapes import (PersLandscapeApprox, PersLandscapeExact, PersistenceLandscaper, average_approx, death_vector, lc_approx,
                                   snap_pl, vectorize, plot_landscape_simple)
    from persim.persistent_entropy import persistent_entropy
    ik = importlib.import_module("persim.images_kernels")
    iw = importlib.import_module("persim.images_weights")

    def dg(n=None, dtype=float, inf=False):
        n = n or rng.randint(2, 4)
        out = []
        for _ in range(n):
            b = rng.randint(0, 5)
            out.append([b, b + rng.randint(1, 5)])
        a = np.array(out, dtype=dtype)
        if inf and dtype in (float, np.float32):
            a[0, 1] = np.inf
        return a

    def fresh_ax():
        plt.close("all")
        fig, ax = plt.subplots()
        return ax
    eps = []
    add = lambda name, fn, mk, reps=True: eps.append((name, fn, mk, reps))
    add("bottleneck", lambda a, b: bottleneck(a, b), lambda: (dg(), dg()))
    add("bottleneck(matching)", lambda a, b: bottleneck(a, b, matching=True), lambda: (dg(), dg()))
    add("bottleneck(inf)", lambda a, b: bottleneck(a, b), lambda: (dg(inf=True), dg()))
    add("wasserstein", lambda a, b: wasserstein(a, b), lambda: (dg(), dg()))
    add("wasserstein(matching)", lambda a, b: wasserstein(a, b, matching=True), lambda: (dg(), dg()))
    add("heat", lambda a, b: heat(a, b, sigma=0.7), lambda: (dg(), dg()))
    add("sliced_wasserstein", lambda a, b: sliced_wasserstein(a, b, M=7), lambda: (dg(), dg()))
    add("persistent_entropy", lambda a: persistent_entropy(a), lambda: (dg(inf=True),))
    add("persistent_entropy(list)", lambda a: persistent_entropy(a, keep_inf=True, val_inf=9.0, normalize=True), lambda: ([dg(inf=True), dg(3)],))

    def gh(a, b):
        np.random.seed(3)
        return gromov_hausdorff(a, b)
    add("gromov_hausdorff", gh, lambda: (np.array([[0, 1, 0, 1], [1, 0, 1, 0], [0, 1, 0, 1], [1, 0, 1, 0]]), np.array([[0, 1, 1], [1, 0, 1], [1, 1, 0]])))
    add("gromov_hausdorff(self-loops, dense)", gh, lambda: (np.array([[1, 1, 0, 1], [1, 0, 1, 0], [0, 1, 1, 1], [1, 0, 1, 0]]), np.array([[0, 1, 1], [1, 1, 1], [1, 1, 0]])))
    add("gromov_hausdorff(disconnected)", gh, lambda: (np.array([[0, 1, 0, 0], [1, 0, 0, 0], [0, 0, 0, 1], [0, 0, 1, 0]]), np.array([[0, 1], [1, 0]])))

    def mk_imager(weight="persistence", wp=None, kp=None):
        return PersistenceImager(birth_range=(0.0, 6.0), pers_range=(0.0, 6.0), pixel_size=1.0, weight=weight,
                                 weight_params=wp or ({"n": 1.0} if weight == "persistence" else {"low": 0.0, "high": 1.0, "start": 0.0, "end": 3.5}),
                                 kernel_params=kp or {"sigma": [[1.0, 0.0], [0.0, 1.0]]})
    add("imager.transform", lambda a: mk_imager().transform(a), lambda: (dg(),))
    add("imager.transform(ramp)", lambda a: mk_imager("linear_ramp").transform(a), lambda: (dg(),))
    add("imager.transform(corr, list)", lambda a: mk_imager(kp={"sigma": [[1.0, 0.5], [0.5, 1.0]]}).transform(a), lambda: ([dg(), dg()],))
    add("imager.transform(skew=False)", lambda a: mk_imager().transform(a, skew=False), lambda: (dg(),))
    add("imager.fit_transform", lambda a: mk_imager().fit_transform(a), lambda: ([dg(), dg()],))

    def fit_state(a):
        pi = mk_imager()
        pi.fit(a)
        return [pi.birth_range, pi.pers_range, pi.resolution]
    add("imager.fit", fit_state, lambda: ([dg(), dg()],))

    def plot_dg(a):
        pi = mk_imager()
        pi.plot_diagram(a, ax=fresh_ax())
        return 0
    add("imager.plot_diagram", plot_dg, lambda: (dg(),))
    add("PersImage.transform", lambda a: PersImage(pixels=(4, 4), verbose=False).transform(a), lambda: (dg(),))
    add("kernels.gaussian", lambda x, y: ik.gaussian(x, y, mu=np.array([0.5, 0.5]), sigma=np.array([[1.0, 0.3], [0.3, 2.0]])), lambda: (np.linspace(-1, 2, 5), np.linspace(0, 3, 5)))
    for rr in (0.97, 0.8, -0.95):     # strongly correlated kernels interleaved with each other and with everything else
        add("kernels.gaussian(r=%s)" % rr, (lambda x, y, rr=rr: ik.gaussian(x, y, mu=np.array([0.5, 0.5]), sigma=np.array([[1.0, rr * np.sqrt(2.0)], [rr * np.sqrt(2.0), 2.0]]))), lambda: (np.linspace(-1, 2, 5), np.linspace(0, 3, 5)))
    add("kernels.uniform", lambda x, y: ik.uniform(x, y, mu=np.array([0.5, 0.5]), width=1.0, height=2.0), lambda: (np.linspace(-1, 2, 5), np.linspace(0, 3, 5)))
    add("weights.linear_ramp", lambda b, p: iw.linear_ramp(b, p, low=0.0, high=1.0, start=0.0, end=3.5), lambda: (lambda D: (D[:, 0], D[:, 1]))(dg()))
    add("weights.persistence", lambda b, p: iw.persistence(b, p, n=2.0), lambda: (lambda D: (D[:, 0], D[:, 1]))(dg().astype(float)))
    add("PersLandscapeExact", lambda a: PersLandscapeExact(dgms=[a], hom_deg=0).critical_pairs, lambda: (dg(),))
    add("PersLandscapeApprox", lambda a: PersLandscapeApprox(dgms=[a], start=0.0, stop=10.0, num_steps=11, hom_deg=0).values, lambda: (dg(),))

    def land_ops(a, b):
        P, Q = PersLandscapeExact(dgms=[a], hom_deg=0), PersLandscapeExact(dgms=[b], hom_deg=0)
        A, B = PersLandscapeApprox(dgms=[a], start=0.0, stop=10.0, num_steps=11), PersLandscapeApprox(dgms=[b], start=0.0, stop=10.0, num_steps=11)
        return [(P + Q).critical_pairs, (P - Q).p_norm(2), (2.0 * P).sup_norm(), (A + B).values, (A - B).p_norm(1), (A / 2.0).sup_norm(), -A.values]
    add("landscape operators and norms", land_ops, lambda: (dg(), dg()))

    def tools(a, b):
        A, B = PersLandscapeApprox(dgms=[a], start=0.0, stop=10.0, num_steps=11), PersLandscapeApprox(dgms=[b], start=1.0, stop=9.0, num_steps=5)
        return [list(death_vector([a])), vectorize(PersLandscapeExact(dgms=[a]), start=0.0, stop=10.0, num_steps=7).values, [s.values for s in snap_pl([A, B])],
                lc_approx([A, B], [1.0, -2.0]).values, average_approx([A, B]).values, PersistenceLandscaper(hom_deg=0, start=0.0, stop=10.0, num_steps=6).fit_transform([a])]
    add("landscape tools and transformer", tools, lambda: (dg(), dg()))

    # landscapes themselves as arguments (shared operands): on a common grid, on different grids, exact ones
    def mk_grid_landscapes(same):
        a, b, c = dg(), dg(), dg()
        g2 = (0.0, 10.0, 11) if same else (1.0, 9.0, 5)
        return ([PersLandscapeApprox(dgms=[a], start=0.0, stop=10.0, num_steps=11), PersLandscapeApprox(dgms=[b], start=g2[0], stop=g2[1], num_steps=g2[2]),
                 PersLandscapeApprox(dgms=[c], start=0.0, stop=10.0, num_steps=11)],)

    def grid_tools(ls):
        return [[s.values for s in snap_pl(ls)], lc_approx(ls, [1.0, -2.0, 0.5]).values, average_approx(ls).values,
                [s.values for s in snap_pl(ls, start=0.0, stop=10.0, num_steps=11)], lc_approx(ls, [2.0, 1.0, 1.0], start=0.0, stop=10.0, num_steps=11).values, average_approx(ls).values]
    add("landscape tools on landscapes sharing a grid", grid_tools, lambda: mk_grid_landscapes(True))
    add("landscape tools on landscapes with different grids", grid_tools, lambda: mk_grid_landscapes(False))

    def grid_ops(ls):
        A, B = ls[0], ls[2]
        return [(2.0 * A).p_norm(2), (A / 2.0).p_norm(1), (A * 3.0).sup_norm(), (A + B).values, (A - B).values, (2.0 * A).values, (A * 3.0).values, (A / 2.0).values, (-A).values, A.p_norm(2), B.sup_norm(), (A + A).values, A[0:1]]
    add("grid landscape operators on shared operands", grid_ops, lambda: mk_grid_landscapes(True))

    def exact_ops(P, Q):
        return [(2.0 * P).p_norm(2), (P / 2.0).sup_norm(), (P + Q).critical_pairs, (P - Q).critical_pairs, (P + P).critical_pairs, (2.0 * P).critical_pairs, (P / 2.0).critical_pairs, (-Q).critical_pairs, P.p_norm(2), Q.sup_norm(),
                vectorize(P, start=0.0, stop=10.0, num_steps=7).values, (P + Q).critical_pairs]
    add("exact landscape operators on shared operands", exact_ops, lambda: (PersLandscapeExact(dgms=[dg()], hom_deg=0), PersLandscapeExact(dgms=[dg()], hom_deg=0)))

    # ---- consistency entries: functions returning (label, x, y) triples whose x and y must be identical
    cons = lambda name, fn, mk: eps.append((name, fn, mk, "consistency"))

    # lazily computed objects: a query on a landscape built with compute=False answers the same before and after any other query,
    # and the same as on an eagerly computed landscape
    def lazy_exact(a):
        out = []
        E = PersLandscapeExact(dgms=[a], hom_deg=0)
        ref = {"sup_norm": float(E.sup_norm()), "p_norm": float(E.p_norm(2)), "critical_pairs": E.critical_pairs}
        for first in ("sup_norm", "p_norm", "critical_pairs"):
            P = PersLandscapeExact(dgms=[a], hom_deg=0, compute=False)
            q = {"sup_norm": lambda: float(P.sup_norm()), "p_norm": lambda: float(P.p_norm(2)), "critical_pairs": lambda: (P.compute_landscape(), P.critical_pairs)[1]}
            r_first = q[first]()
            for k in q:
                if k != first:
                    q[k]()
            out.append(("%s first vs after the other queries" % first, r_first, q[first]()))
            out.append(("%s on a lazily built landscape vs an eagerly built one" % first, r_first, ref[first]))
        return out
    cons("exact landscape built with compute=False", lazy_exact, lambda: (dg(),))

    # a transformer that was never fitted: transforming one collection must not change what it returns for another
    def unfitted_transformer(a, b):
        tr = PersistenceLandscaper(hom_deg=0, num_steps=7)
        fresh = lambda X: PersistenceLandscaper(hom_deg=0, num_steps=7).transform([X])
        r = [tr.transform([a]), tr.transform([b]), tr.transform([a])]
        return [("transform(A) on a never-fitted transformer vs a fresh one", r[0], fresh(a)), ("transform(B) after transform(A) vs a fresh transformer", r[1], fresh(b)),
                ("transform(A) again", r[2], fresh(a))]
    cons("landscape transformer never fitted", unfitted_transformer, lambda: (dg().astype(float), dg().astype(float) + 3.0))

    def pl(a, b):
        plot_diagrams([a, b], lifetime=True, ax=fresh_ax())
        plot_diagrams(a, ax=fresh_ax())
        return 0
    add("plot_diagrams", pl, lambda: (dg(inf=True), dg()))
    add("plot_diagrams(float32)", pl, lambda: (dg(dtype=np.float32, inf=True), dg(dtype=np.float32)))

    def mplots(a, b):
        d, m = bottleneck(a, b, matching=True)
        bottleneck_matching(a, b, m, ax=fresh_ax())
        d2, m2 = wasserstein(a, b, matching=True)
        wasserstein_matching(a, b, m2, ax=fresh_ax())
        return 0
    add("matching plots", mplots, lambda: (dg().astype(float), dg().astype(float)))

    def lplot(a):
        plot_landscape_simple(PersLandscapeExact(dgms=[a], hom_deg=0), ax=fresh_ax())
        return 0
    add("plot_landscape_simple", lplot, lambda: (dg(),))
    return eps


REPRESENTATION = [   # (name, function of two diagrams given in the stated form) - forms the function accepts
    ("bottleneck", ["list", "int", "float"]), ("wasserstein", ["list", "int", "float"]), ("heat", ["list", "int", "float"]),
    ("sliced_wasserstein", ["int", "float"]), ("persistent_entropy", ["int", "float"]), ("imager.transform", ["list", "int", "float"]),
    ("imager.transform(ramp)", ["list", "int", "float"]), ("PersLandscapeExact", ["int", "float"]), ("PersLandscapeApprox", ["int", "float"]),
]


def _standin(rep, tier, seed, only_search=False):
    rng = random.Random(seed * 83 + 19)
    evals, distinct = 0, set()
    rounds = 3 if tier == "quick" else 40
    with warnings.catch_warnings(), contextlib.redirect_stdout(io.StringIO()):
        warnings.simplefilter("ignore")
        for rnd in range(rounds):
            eps = entry_points(rng)
            results = {}
            for name, fn, mk, _r in eps:
                if _r == "consistency":
                    args = mk()
                    try:
                        triples = fn(*args)
                    except Exception as ex:
                        rep.note("consistency entry %s raised %r" % (name, ex))
                        continue
                    evals += 1
                    distinct.add(name)
                    for label, x, y in triples:
                        if not _same(x, y):
                            rep.violation("%s: %s differ (%s vs %s)" % (name, label, repr(x)[:120], repr(y)[:120]), "repeatability:" + name.split("(")[0],
                                          {"input": {"entry_point": name, "args": repr(args)[:600]}, "which": label})
                            if only_search:
                                return
                            break
                    continue
                args = mk()
                before = _snap(args)
                try:
                    r1 = fn(*args)
                except Exception as ex:
                    rep.note("entry point %s raised %r on %s" % (name, ex, args))
                    continue
                evals += 1
                distinct.add(name)
                if _snap(args) != before:
                    rep.violation("%s modified an argument passed to it (bytes differ after the call)" % name, "purity:argument-modified:" + name.split("(")[0],
                                  {"input": {"entry_point": name, "args": repr(args)[:600]}, "call": name})
                    if only_search:
                        return
                    args = mk()
                results[name] = (fn, args, r1)
            # repeat, and interleave with the other entry points
            order = list(results)
            rng.shuffle(order)
            for name in order:
                fn, args, r1 = results[name]
                try:
                    r2 = fn(*copy.deepcopy(args)) if name.startswith("plot") else fn(*args)
                except Exception as ex:
                    continue
                evals += 1
                if not _same(r1, r2):
                    rep.violation("%s returned a different result when repeated after other calls" % name, "repeatability:" + name.split("(")[0], {"input": {"entry_point": name, "args": repr(args)[:600]}})
                    if only_search:
                        return
            # representation independence
            for name, forms in REPRESENTATION:
                fn = next(f for n, f, _m, _r in eps if n == name)
                base = [[rng.randint(0, 4), 0] for _ in range(rng.randint(2, 4))]
                base = [[b, b + rng.randint(1, 5)] for b, _ in base]
                base2 = [[b + 1, d + 2] for b, d in base]
                nargs = fn.__code__.co_argcount
                outs = {}
                for form in forms:
                    conv = {"list": lambda x: [list(p) for p in x], "int": lambda x: np.array(x, dtype=int), "float": lambda x: np.array(x, dtype=float)}[form]
                    try:
                        outs[form] = fn(*([conv(base), conv(base2)][:nargs]))
                    except Exception as ex:
                        outs[form] = ("raised", repr(ex))
                evals += len(forms)
                ref = outs.get("float")
                for form, o in outs.items():
                    if isinstance(ref, tuple) and ref and ref[0] == "raised":
                        break
                    if (isinstance(o, tuple) and o and o[0] == "raised") or not _close(o, ref):
                        rep.violation("%s gives a different result for the same diagram supplied as %s (%s) than as a float array (%s); diagram %s" % (name, form, repr(o)[:120], repr(ref)[:120], base),
                                      "representation:%s:%s" % (name.split("(")[0], form), {"input": {"entry_point": name, "diagram": base, "second": base2, "form": form}})
                        if only_search:
                            return
            # mGH reproducible under a fixed seed
            A = np.array([[0, 1, 1, 0, 0], [1, 0, 1, 1, 0], [1, 1, 0, 0, 1], [0, 1, 0, 0, 1], [0, 0, 1, 1, 0]])
            B = np.array([[0, 1, 0, 0], [1, 0, 1, 0], [0, 1, 0, 1], [0, 0, 1, 0]])
            from persim import gromov_hausdorff
            import random as _stdlib_random

            def rgraph(nv):
                # random tree plus a few extra edges: irregular shapes, where the greedy upper bound depends on the draws
                M = np.zeros((nv, nv), dtype=int)
                for v in range(1, nv):
                    u = rng.randrange(v)
                    M[u, v] = M[v, u] = 1
                for _e in range(rng.randint(0, 2)):
                    u, v = rng.randrange(nv), rng.randrange(nv)
                    if u != v:
                        M[u, v] = M[v, u] = 1
                return M
            pairs = [(A, B)] + [(rgraph(rng.randint(3, 7)), rgraph(rng.randint(3, 7))) for _ in range(6 if tier == "quick" else 40)]
            for GA, GB in pairs:
                outs = []
                for rep_i in range(3):
                    # only the NumPy seed is fixed: the state of every other generator differs from call to call
                    _stdlib_random.seed(1000 * rnd + rep_i)
                    np.random.seed(11)
                    outs.append(gromov_hausdorff(GA, GB))
                evals += 1
                if any(o != outs[0] for o in outs):
                    rep.violation("gromov_hausdorff is not reproducible under a fixed NumPy seed: %s on the same pair of graphs" % outs, "repeatability:mgh-seed", {"input": {"A": GA.tolist(), "B": GB.tolist(), "numpy_seed": 11}, "observed": [list(map(float, o)) for o in outs]})
                    if only_search:
                        return
                    break
        # the deprecated PersImage caches `specs` from the first diagram it sees: results depend on the history of the object
        from persim import PersImage
        d1, d2 = np.array([[0.0, 1.0], [0.5, 2.0]]), np.array([[0.0, 6.0], [1.0, 9.0]])
        pim = PersImage(pixels=(4, 4), verbose=False)
        pim.transform(d1.copy())
        later = pim.transform(d2.copy())
        fresh = PersImage(pixels=(4, 4), verbose=False).transform(d2.copy())
        evals += 1
        if not _same(later, fresh):
            rep.violation("PersImage.transform(d2) after transform(d1) on the same object differs from a fresh PersImage: the first call cached `specs`", "repeatability:persimage-specs-cache",
                          {"input": {"d1": d1.tolist(), "d2": d2.tolist()}, "call": "p = PersImage(pixels=(4,4)); p.transform(d1); p.transform(d2)  vs  PersImage(pixels=(4,4)).transform(d2)"})
    if not only_search:
        rep.bounded("public entry points: byte-level purity, repetition, interleaving, representations", "%d rounds x %d entry points (distances, kernels, weights, entropy, imagers, landscapes, tools, plots) on random lattice diagrams; list / int / float forms" % (rounds, len(distinct)),
                    evals, len(distinct), "arguments byte-compared before/after every call; each result recomputed after a shuffled interleaving of all other calls; equal-valued list/int/float inputs must agree; mGH reproducible under np.random.seed",
                    samples=sorted(distinct)[:4])


def _static_scan(rep):
    """no module-level state is written and the global NumPy generator is the only randomness source"""
    bad, rng_sites, other_rng = [], [], []
    for root, _d, files in os.walk(os.path.join(REPO, "persim")):
        for f in files:
            if not f.endswith(".py"):
                continue
            p = os.path.join(root, f)
            tree = ast.parse(open(p).read())
            for n in ast.walk(tree):
                if isinstance(n, (ast.Global, ast.Nonlocal)):
                    bad.append("%s:%d %s" % (os.path.relpath(p, REPO), n.lineno, type(n).__name__))
                if isinstance(n, ast.Attribute) and ast.unparse(n).startswith(("np.random", "numpy.random", "random.")):
                    rng_sites.append("%s:%d %s" % (os.path.relpath(p, REPO), n.lineno, ast.unparse(n)))
                    txt = ast.unparse(n)
                    # generators with a state of their own are not governed by np.random.seed
                    if txt.startswith("random.") or txt.split(".")[-1] in ("default_rng", "Generator", "RandomState", "SeedSequence", "PCG64", "MT19937", "Philox", "SFC64"):
                        other_rng.append("%s:%d %s" % (os.path.relpath(p, REPO), n.lineno, txt))
                if isinstance(n, ast.Import) and any(a.name.split(".")[0] in ("random", "secrets", "uuid") for a in n.names):
                    rng_sites.append("%s:%d import %s" % (os.path.relpath(p, REPO), n.lineno, ",".join(a.name for a in n.names)))
                    other_rng.append("%s:%d import %s" % (os.path.relpath(p, REPO), n.lineno, ",".join(a.name for a in n.names)))
                if isinstance(n, ast.ImportFrom) and (n.module or "").split(".")[0] in ("random", "secrets", "uuid"):
                    other_rng.append("%s:%d from %s import ..." % (os.path.relpath(p, REPO), n.lineno, n.module))
                if isinstance(n, ast.Attribute) and ast.unparse(n) in ("os.urandom", "os.getrandom"):
                    other_rng.append("%s:%d %s" % (os.path.relpath(p, REPO), n.lineno, ast.unparse(n)))
    rep.add_function("static:persim/*", "persim/", 1)
    rep.add_obligation("static:no_global_or_nonlocal_state_written", "discharged" if not bad else "refuted", backend="ast-scan", cls="P", func="static:persim/*", detail="; ".join(bad) or None)
    only_gh = all(s.startswith("persim/gromov_hausdorff.py") for s in rng_sites)
    rep.add_obligation("static:randomness_only_from_numpy_global_generator_in_mgh_upper_bound", "discharged" if only_gh else "refuted", backend="ast-scan", cls="P", func="static:persim/*",
                       detail="; ".join(rng_sites))
    rep.add_obligation("static:no_generator_other_than_the_numpy_global_one", "discharged" if not other_rng else "refuted", backend="ast-scan", cls="P", func="static:persim/*", detail="; ".join(other_rng) or None)
    if other_rng and not any(v["signature"] == "repeatability:mgh-seed" for v in rep.violations):
        rep.violation("random numbers are drawn from a generator that np.random.seed does not govern: %s" % other_rng[:3], "purity:rng-not-numpy-global", {"sites": other_rng}, failing_input_found=False)
    if bad:
        rep.violation("module-level state is written through global/nonlocal: %s" % bad[:3], "purity:global-state", {"sites": bad}, failing_input_found=False)
    if not only_gh:
        rep.violation("random numbers are drawn outside the mGH upper bound: %s" % [s for s in rng_sites if not s.startswith("persim/gromov_hausdorff.py")][:3], "purity:rng-elsewhere", {"sites": rng_sites}, failing_input_found=False)


def _replay_search(a):
    class C:
        def __init__(self):
            self.v = []

        def violation(self, what, sig, payload, **k):
            if sig != "repeatability:persimage-specs-cache":
                self.v.append((what, sig, payload))

        def note(self, *a):
            pass

        def bounded(self, *a, **k):
            pass
    c = C()
    _standin(c, "quick", 0, only_search=True)
    if c.v:
        what, sig, payload = c.v[0]
        return True, payload, sig, what
    return False, None, None, None


ONLY = r"\.frame\.|\.dtype_store\."      # the clauses of the re-verified contracts that belong to this property


def run(rep, tier, seed):
    # frame (ownership) obligations: every contract of the other properties carries `frame.*` clauses; here a cross-section of
    # all public entry points is re-verified and only those clauses are kept
    from contracts import (c01_bottleneck, c02_wasserstein, c04_images, c05_mgh, c09_arith, c14_heat, c15_sliced, c16_entropy, c17_mgh, c20_plots)
    cs, table = [], {}
    pick = {c01_bottleneck: ["matching=True"], c02_wasserstein: ["matching=True"], c14_heat: ["", ""], c15_sliced: [""],
            c16_entropy: ["single,keep_inf=False,val_inf=None,normalize=False", "list2,keep_inf=True,val_inf=x,normalize=True"],
            c04_images: ["gauss_iso,user,skew=True", "user,user,skew=False"], c09_arith: ["same_grid=True", "neg", "mul", ""], c20_plots: ["bottleneck", "wasserstein"],
            c05_mgh: ["", "", "", "", ""], c17_mgh: ["connected", "disconnected", "pair"]}
    for mod, variants in pick.items():
        mcs, mt = mod.all_contracts(tier)
        for c in mcs:
            if c.module == "spec":
                continue
            if c.variant in variants:
                cs.append((c, mt))
    # verify group-wise (each module needs its own table of callee contracts)
    bymod = {}
    for c, mt in cs:
        bymod.setdefault(id(mt), (mt, []))[1].append(c)
    for mt, lst in bymod.values():
        run_contracts(rep, lst, mt, tier=tier, pid="C19", replayers=[(r"frame|dtype_store", _replay_search)], only=ONLY)
    # landscape tools: the operands handed to snap_pl / lc_approx are observably unchanged (fields and buffers), proved against a
    # snap_pl contract that does not promise fresh objects
    from contracts import c09_tools
    for cs2, t2 in c09_tools.all_contracts(tier):
        cs2 = [c for c in cs2 if c.qualname in ("snap_pl", "lc_approx") and c.variant in ("given=", "given=start,stop,num_steps")]
        if cs2:
            run_contracts(rep, cs2, t2, tier=tier, pid="C19", replayers=[(r"frame|dtype_store", _replay_search)], only=ONLY)
    # plot_diagrams works on private single-precision copies: no store into the caller's arrays on any path
    from contracts.c20_plots import plot_diagrams_contracts
    cs3, t3 = plot_diagrams_contracts("quick")
    run_contracts(rep, cs3[:2], t3, tier=tier, pid="C19", replayers=[(r"frame|dtype_store", _replay_search)], only=ONLY)
    # second cross-section (constructors, landscape tools and norms, imager methods, kernels, transformers, the mGH lower-bound chain):
    # the contracts of the other properties re-verified for their ownership clauses only
    from contracts import c03_ctor, c04_images, c08_tools, c10_norms, c12_imager, c13_kernels, c18_transformers
    more = [(c03_ctor.all_contracts, ["degrees=2,hom_deg=1,compute=True", "degrees=3,hom_deg=0,compute=False"]),
            (c03_ctor.approx_ctor_contracts, ["degrees=2,hom_deg=1,given=", "degrees=3,hom_deg=2,given=start,stop"]),
            (c08_tools.all_contracts, ["hom_deg=0", "flatten=True", "flatten=False"]),
            (c08_tools.vectorize_contracts, None),
            (c10_norms.all_contracts, ["p=1", "valid"]),
            (c10_norms.approx_contracts, ["", "values:float", "valid"]),
            (c04_images.c11_contracts, ["single,n_jobs=None,skew=True", "list2,n_jobs=2,skew=True"]),
            (c12_imager.all_contracts, ["", "ps", "b", "p", "list2,skew=True"]),
            (c13_kernels.all_contracts, ["", "corr", "low"]),
            (c18_transformers.all_contracts, ["fresh", "vs fit;transform,skew=default"]),
            (c05_mgh.lb_confirm_contracts, None),
            (c09_tools.all_contracts, ["given=,m=3"])]
    for fn, variants in more:
        r = fn(tier if tier == "quick" else "quick")
        for mcs, mt in ([r] if isinstance(r, tuple) else r):
            lst = [c for c in mcs if c.module != "spec" and (variants is None or c.variant in variants)
                   and not (fn is c09_tools.all_contracts and c.qualname != "average_approx")]
            if lst:
                run_contracts(rep, lst, mt, tier=tier, pid="C19", replayers=[(r"frame|dtype_store", _replay_search)], only=ONLY)
    # keep only ownership / dtype clauses in this property's ledger
    # (a function whose run stopped at a construct outside the engine's subset keeps an undecided `<function>` entry: its ownership
    # clause was not generated, which must not read as "nothing to prove")
    keep = [o for o in rep.obligations if (".frame." in o["name"] or ".dtype_store." in o["name"] or o["name"].startswith("static:")
                                           or o["name"].endswith((".<function>", ".<engine>")))]
    dropped = len(rep.obligations) - len(keep)
    rep.obligations[:] = keep
    rep.undecided[:] = [u for u in rep.undecided if ".frame." in u["name"] or ".dtype_store." in u["name"] or u["name"].endswith((".<function>", ".<engine>"))]
    for f in rep.functions.values():
        f["obligations"] = f["discharged"] = 0
    for o in keep:
        f = rep.functions.get(o.get("func"))
        if f is not None:
            f["obligations"] += 1
            f["discharged"] += int(o["status"] == "discharged")
    rep.note("%d functional obligations of the re-verified contracts are accounted under their own properties, not here" % dropped)
    _standin(rep, tier, seed)
    _static_scan(rep)
    rep.assume("A5 NumPy view/copy classification (basic slices, .T are views sharing the buffer; np.array, np.copy, astype(copy=True), mask/fancy indexing, arithmetic are fresh buffers; np.asarray aliases an ndarray)",
               "ownership tracking: every in-place write executed on any path of a function under contract targets a buffer not reachable from a parameter; functions outside the contracts are covered by the byte-level stand-in only",
               "D24 copy.deepcopy")


def replay(doc):
    print("replay C19: %s ; entry point and arguments in the file; re-run ./check C19" % doc.get("what"))
    return 1
