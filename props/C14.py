"""C14 - heat-kernel distance is a real pseudo-metric, stable w.r.t. Wasserstein"""
import math
import random
import warnings

import numpy as np

from vlib.deductive import run_contracts

LEVEL = "proof"


def _k(F, G, s):
    """oracle: multi-scale kernel of Reininghaus et al. (float64, pairwise, Kahan-free but order-independent via fsum)"""
    terms = []
    for p in F:
        for q in G:
            terms.append(math.exp(-((p[0] - q[0]) ** 2 + (p[1] - q[1]) ** 2) / (8 * s)) -
                         math.exp(-((p[0] - q[1]) ** 2 + (p[1] - q[0]) ** 2) / (8 * s)))
    return math.fsum(terms) / (8 * math.pi * s)


def _sq_oracle(F, G, s):
    return _k(F, F, s) + _k(G, G, s) - 2 * _k(F, G, s)


def _heat(F, G, s):
    from persim import heat
    with warnings.catch_warnings():
        warnings.simplefilter("ignore")
        return float(heat(np.array(F, dtype=float).reshape(-1, 2), np.array(G, dtype=float).reshape(-1, 2), sigma=s))


def _heat_typed(F, G, s, form):
    """the same diagrams handed over as integer arrays / nested lists of ints (integer-valued diagrams only)"""
    from persim import heat
    conv = {"int": lambda X: np.array(X, dtype=int).reshape(-1, 2), "list": lambda X: [[int(a), int(b)] for a, b in X], "float": lambda X: np.array(X, dtype=float).reshape(-1, 2)}
    with warnings.catch_warnings():
        warnings.simplefilter("ignore")
        return float(heat(conv[form[0]](F), conv[form[1]](G), sigma=s))


def _rand_dgm(rng, n, scale=1.0, lattice=False):
    out = []
    for _ in range(n):
        b = rng.choice([0, 0.5, 1, 2]) if lattice else rng.uniform(0, 3)
        l = rng.choice([0, 0.5, 1, 1.5]) if lattice else rng.uniform(0, 2)
        out.append([b * scale, (b + l) * scale])
    return out


def _standin(rep, tier, seed):
    from persim import wasserstein
    rng = random.Random(seed * 1009 + 14)
    n = 150 if tier == "quick" else 2500
    evals, distinct, samples = 0, set(), []
    sigmas = [1e-4, 1e-3, 1e-2, 0.1, 0.4, 1.0, 10.0, 100.0]
    for it in range(n):
        s = rng.choice(sigmas)
        scale = rng.choice([1.0, 1.0, 1e-2, 1e2])
        F = _rand_dgm(rng, rng.randint(0, 6), scale, lattice=rng.random() < 0.3)
        G = _rand_dgm(rng, rng.randint(0, 6), scale, lattice=rng.random() < 0.3)
        H = _rand_dgm(rng, rng.randint(0, 5), scale)
        evals += 1
        d = _heat(F, G, s)
        want_sq = _sq_oracle(F, G, s)
        acc = 64 * 2.3e-16 * (len(F) + len(G) + 1) ** 2 / (8 * math.pi * s)      # DESIGN 2.6, compared squared
        inp = {"dgm1": F, "dgm2": G, "sigma": s}
        distinct.add((len(F), len(G), s, scale))
        if len(samples) < 3:
            samples.append(dict(inp, got=d, want_squared=want_sq))
        if d != d or d < 0 or math.isinf(d):
            rep.violation("heat(F,G,sigma=%s) = %r is not a finite non-negative real; F=%s G=%s" % (s, d, F, G), "heat:nan" if d != d else "heat:negative-or-inf",
                          {"input": inp, "observed": repr(d), "expected": "sqrt(%r)" % max(want_sq, 0.0), "call": "persim.heat(dgm1, dgm2, sigma)"})
            continue
        if abs(d * d - max(want_sq, 0.0)) > acc + 1e-9 * abs(want_sq):
            rep.violation("heat^2 = %r but k(F,F)+k(G,G)-2k(F,G) = %r" % (d * d, want_sq), "heat:value", {"input": inp, "observed": d, "expected_squared": want_sq})
        if it % 6 == 0:
            # integer-valued diagrams in every representation (int arrays, lists of ints, mixed with float arrays): same value
            Fi = [[float(rng.randint(0, 4)), 0.0] for _i in range(rng.randint(1, 4))]
            Fi = [[b, b + rng.randint(0, 3)] for b, _d in Fi]
            Gi = [[float(rng.randint(0, 4)), 0.0] for _i in range(rng.randint(1, 4))]
            Gi = [[b, b + rng.randint(1, 3)] for b, _d in Gi]
            wsq = max(_sq_oracle(Fi, Gi, s), 0.0)
            acc_i = 64 * 2.3e-16 * (len(Fi) + len(Gi) + 1) ** 2 / (8 * math.pi * s)
            for form in (("int", "int"), ("int", "float"), ("float", "int"), ("list", "list")):
                dt = _heat_typed(Fi, Gi, s, form)
                evals += 1
                distinct.add(("typed", form))
                if dt != dt or abs(dt * dt - wsq) > acc_i + 1e-9 * abs(wsq):
                    rep.violation("heat of integer-valued diagrams given as %s/%s = %r but sqrt(k(F,F)+k(G,G)-2k(F,G)) = %r (F=%s, G=%s, sigma=%s)" % (form[0], form[1], dt, math.sqrt(wsq), Fi, Gi, s),
                                  "heat:value:typed", {"input": {"dgm1": Fi, "dgm2": Gi, "sigma": s, "forms": list(form)}, "observed": dt, "expected_squared": wsq})
                    break
        if it % 7 == 0:
            # sigma in every numeric spelling of the same value
            sv = rng.choice([1, 2, 3])
            want_i = max(_sq_oracle(F, G, float(sv)), 0.0)
            acc_s = 64 * 2.3e-16 * (len(F) + len(G) + 1) ** 2 / (8 * math.pi * sv)
            for spell in (sv, float(sv), np.int64(sv), np.int32(sv), np.float32(sv), np.array(float(sv))):
                ds_ = _heat(F, G, spell)
                evals += 1
                if ds_ != ds_ or abs(ds_ * ds_ - want_i) > acc_s + 1e-6 * abs(want_i):
                    rep.violation("heat(F, G, sigma=%r of type %s) = %r but sqrt(k(F,F)+k(G,G)-2k(F,G)) = %r" % (spell, type(spell).__name__, ds_, math.sqrt(want_i)), "heat:value:sigma-type",
                                  {"input": {"dgm1": F, "dgm2": G, "sigma": repr(spell), "sigma_type": type(spell).__name__}, "observed": ds_, "expected_squared": want_i})
                    break
        # reordering of the same multiset
        if F:
            Fp = F[:]
            rng.shuffle(Fp)
            z = _heat(F, Fp, s)
            evals += 1
            if z != z:
                rep.violation("heat(F, permutation of F) is NaN; F=%s perm=%s sigma=%s" % (F, Fp, s), "heat:nan",
                              {"input": {"dgm1": F, "dgm2": Fp, "sigma": s}, "observed": "nan", "expected": 0.0, "call": "persim.heat(dgm1, dgm2, sigma)"})
            elif z * z > 64 * 2.3e-16 * (2 * len(F) + 1) ** 2 / (8 * math.pi * s):
                rep.violation("heat(F, permutation of F) = %r, not 0" % z, "heat:reorder-nonzero", {"input": {"dgm1": F, "dgm2": Fp, "sigma": s}, "observed": z, "expected": 0.0})
        # symmetry, triangle, diagonal points, diagonal shift, Wasserstein stability
        d2 = _heat(G, F, s)
        if d2 == d2 and abs(d2 * d2 - d * d) > 2 * acc:
            rep.violation("heat not symmetric: %r vs %r" % (d, d2), "heat:symmetry", {"input": inp, "observed": [d, d2]})
        dh, gh = _heat(F, H, s), _heat(H, G, s)
        if all(x == x for x in (dh, gh)) and d > dh + gh + 4 * math.sqrt(acc) + 1e-9 * (dh + gh):
            rep.violation("triangle inequality fails %r > %r + %r" % (d, dh, gh), "heat:triangle", {"input": dict(inp, dgm3=H), "observed": [d, dh, gh]})
        Fd = F + [[scale * 0.7, scale * 0.7]]
        dd = _heat(Fd, G, s)
        if dd == dd and abs(dd * dd - d * d) > 4 * acc:
            rep.violation("adding a diagonal point changes the distance: %r vs %r" % (d, dd), "heat:diagonal-point", {"input": dict(inp, dgm1_aug=Fd), "observed": [d, dd]})
        c = rng.choice([-3.0, 1.5, 10.0]) * scale
        ds = _heat([[a + c, b + c] for a, b in F], [[a + c, b + c] for a, b in G], s)
        if ds == ds and abs(ds * ds - d * d) > 8 * acc + 1e-7 * abs(d * d):
            rep.violation("diagonal translation by %s changes the distance: %r vs %r" % (c, d, ds), "heat:shift", {"input": dict(inp, shift=c), "observed": [d, ds]})
        if F and G:
            with warnings.catch_warnings():
                warnings.simplefilter("ignore")
                # 1-Wasserstein with L2 ground metric is an upper bound of the L-infinity one used in the theorem only up to
                # a constant; the stability theorem is stated for W1 with the L-inf... we use the Euclidean W1 >= Linf W1
                w1 = float(wasserstein(np.array(F), np.array(G)))
            bound = w1 / (4 * s * math.sqrt(math.pi)) * math.sqrt(2)
            if d > bound + 4 * math.sqrt(acc) + 1e-9 * bound:
                rep.violation("stability bound fails: heat %r > sqrt2*W1/(4 sigma sqrt(pi)) = %r" % (d, bound), "heat:stability", {"input": inp, "observed": d, "expected": "<= %r" % bound})
    # the same arrays at every sigma, in sequence (results must not depend on earlier calls), and large exact translations
    from persim import heat as _heat_fn
    for it in range(12 if tier == "quick" else 300):
        F = np.array([[rng.randint(0, 8) / 4.0, 0] for _ in range(rng.randint(1, 4))])
        F[:, 1] = F[:, 0] + np.array([rng.randint(1, 8) / 4.0 for _ in range(len(F))])
        G = np.array([[rng.randint(0, 8) / 4.0, 0] for _ in range(rng.randint(1, 4))])
        G[:, 1] = G[:, 0] + np.array([rng.randint(1, 8) / 4.0 for _ in range(len(G))])
        for s in sigmas:
            with warnings.catch_warnings():
                warnings.simplefilter("ignore")
                d = float(_heat_fn(F, G, sigma=s))
            evals += 1
            want_sq = _sq_oracle(F.tolist(), G.tolist(), s)
            acc = 64 * 2.3e-16 * (len(F) + len(G) + 1) ** 2 / (8 * math.pi * s)
            if d != d or abs(d * d - max(want_sq, 0.0)) > acc + 1e-9 * abs(want_sq):
                rep.violation("heat(F, G, sigma=%s) = %r, oracle squared %r, when the same arrays are used with several sigmas in sequence (F=%s, G=%s)" % (s, d, want_sq, F.tolist(), G.tolist()),
                              "heat:value-depends-on-earlier-calls", {"input": {"dgm1": F.tolist(), "dgm2": G.tolist(), "sigma": s, "sigmas_in_order": sigmas}, "observed": d, "expected_squared": want_sq})
                break
        base = float(_heat_fn(F, G, sigma=0.4))
        for t in (2.0 ** 20, 2.0 ** 23, 2.0 ** 26):
            with warnings.catch_warnings():
                warnings.simplefilter("ignore")
                dt = float(_heat_fn(F + t, G + t, sigma=0.4))
            evals += 1
            if dt != dt or abs(dt - base) > 1e-9 * max(1.0, base):
                rep.violation("heat is not invariant under the exact diagonal translation by %r: %r vs %r (F=%s, G=%s)" % (t, dt, base, F.tolist(), G.tolist()), "heat:shift",
                              {"input": {"dgm1": F.tolist(), "dgm2": G.tolist(), "sigma": 0.4, "shift": t}, "observed": [base, dt]})
                break
    rep.bounded("heat-laws", "random diagrams of 0..6 points, sigma in %s, scales 1e-2..1e2, reorderings" % sigmas, evals, len(distinct),
                "distinct = (|F|,|G|,sigma,scale); NaN-freedom, value vs fsum oracle (squared), zero on reordering, symmetry, triangle, diagonal points, shift, stability",
                samples)


def _purity(rep, seed=0):
    from persim import heat
    from vlib.deductive import purity_probe
    rng = random.Random(seed + 5)
    calls = []
    for _ in range(6):
        F = np.array(_rand_dgm(rng, rng.randint(1, 4)), dtype=float)
        G = np.array(_rand_dgm(rng, rng.randint(1, 4)), dtype=float)
        s = rng.choice([0.4, 1.0, 0.125, 2.0])
        calls.append(("heat(F, G, sigma=%s) on float64 arrays" % s, (lambda F=F, G=G, s=s: heat(F, G, sigma=s)), [F, G]))
    with warnings.catch_warnings():
        warnings.simplefilter("ignore")
        return purity_probe(rep, "heat", calls, "heat:argument-modified")


def _replay_frame(a):
    class C:
        def __init__(self):
            self.v = []

        def violation(self, what, sig, payload, **k):
            self.v.append((what, sig, payload))
    c = C()
    _purity(c)
    if c.v:
        what, sig, payload = c.v[0]
        return True, payload, sig, what
    return False, None, None, None


def run(rep, tier, seed):
    from contracts.c14_heat import all_contracts
    cs, table = all_contracts(tier)
    run_contracts(rep, cs, table, tier=tier, replayers=[(r"frame", _replay_frame)])
    rep.assume("D28 element types: allocations with dtype=x.dtype / full_like / empty_like / piecewise keep the integer type of an integer-typed argument (integer-typed variants of the contracts)")
    _purity(rep, seed)
    rep.assume("L: the multi-scale kernel is positive definite (Reininghaus et al. 2015), hence the radicand is >= 0 in real arithmetic (precondition of heat's contract)",
               "L: pseudo-metric laws and Wasserstein stability follow from the kernel form (sampled only)",
               "NaN-freedom and exact zero on reorderings are properties of float summation order: bounded stand-in only")
    _standin(rep, tier, seed)


def replay(doc):
    inp = doc["payload"].get("input", {})
    if "dgm1" in inp and "dgm2" in inp:
        d = _heat(inp["dgm1"], inp["dgm2"], inp["sigma"])
        want = _sq_oracle(inp["dgm1"], inp["dgm2"], inp["sigma"])
        ok = (d == d) and d >= 0 and abs(d * d - max(want, 0)) <= 1e-9 + 1e-6 * abs(want)
        print("replay C14: heat(%s, %s, sigma=%s) -> %r ; oracle squared %r ; %s" % (inp["dgm1"], inp["dgm2"], inp["sigma"], d, want, "HOLDS" if ok else "VIOLATED"))
        return 0 if ok else 1
    print("replay C14: obligation %s (no direct input)" % doc.get("obligation"))
    return 1
