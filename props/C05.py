"""C05 - mGH estimates always bracket the true modified Gromov-Hausdorff distance"""
import itertools
import random
import warnings

import numpy as np

from vlib.deductive import run_contracts

LEVEL = "other"


def _gh(A, B, order=None, seed=None):
    from persim import gromov_hausdorff
    if seed is not None:
        np.random.seed(seed)
    with warnings.catch_warnings():
        warnings.simplefilter("ignore")
        if order is None:
            return gromov_hausdorff(np.asarray(A), np.asarray(B))
        return gromov_hausdorff(np.asarray(A), np.asarray(B), mapping_sample_size_order=np.array(order))


def _feasible_bruteforce(v, u, d):
    """is there an injective assignment of v-entries to u-entries with |v_k - u_f(k)| < d ?  (v, u: lists of distances)"""
    if len(v) > len(u):
        return False
    for f in itertools.permutations(range(len(u)), len(v)):
        if all(abs(v[k] - u[f[k]]) < d for k in range(len(v))):
            return True
    return False


def helper_purity_probe(rep, rng, n):
    """the helpers of the lower bound must not modify the distance-distribution tables they are handed (their rows are reused for
    every candidate assignment); returns the number of evaluations"""
    import importlib, sys
    importlib.import_module("persim.gromov_hausdorff")
    G = sys.modules["persim.gromov_hausdorff"]
    ev = 0
    for _ in range(n):
        md = rng.randint(1, 4)
        v = [rng.randint(0, 3) for _i in range(md)]
        u = [rng.randint(0, 3) for _i in range(md)]
        d = rng.randint(1, md)
        va, ua = np.array(v), np.array(u)
        G.check_assignment_feasibility(va, ua, d)
        ev += 1
        if not (np.array_equal(va, v) and np.array_equal(ua, u)):
            rep.violation("check_assignment_feasibility modified its arguments: %s,%s -> %s,%s (the caller reuses these rows, so later confirmations of the lower bound are computed on depleted data)" % (v, u, va.tolist(), ua.tolist()),
                          "mgh:feasibility-mutates-arguments", {"input": {"v": v, "u": u, "d": d}, "call": "persim.gromov_hausdorff.check_assignment_feasibility(v, u, d)"})
            break
    return ev


def _standin(rep, tier, seed, only_search=False):
    from standins.mgh_oracle import connected_graphs, dist_matrix, mgh, relabel
    import importlib, sys
    importlib.import_module("persim.gromov_hausdorff")
    G = sys.modules["persim.gromov_hausdorff"]
    rng = random.Random(seed * 79 + 5)
    evals, distinct, samples = 0, set(), []
    small = []
    for n in (1, 2, 3, 4):
        small += list(connected_graphs(n))
    pairs = list(itertools.product(small, small))
    rng.shuffle(pairs)
    pairs = pairs[: (250 if tier == "quick" else len(pairs))]
    orders = [None, [0.0, 0.0], [1.0, 1.0]]
    for A, B in pairs:
        true = mgh(A, B)
        for order in (orders if tier == "thorough" else [rng.choice(orders)]):
            for s in ([rng.randint(0, 10 ** 6)] if tier == "quick" else [rng.randint(0, 10 ** 6) for _ in range(4)]):
                lb, ub = _gh(A, B, order, s)
                evals += 1
                distinct.add((len(A), len(B), int(A.sum()), int(B.sum()), str(order)))
                inp = {"A": A.tolist(), "B": B.tolist(), "mapping_sample_size_order": order, "numpy_seed": s}
                bad = None
                if not (lb <= true + 1e-12):
                    bad = ("lower", "lower bound %r exceeds the true mGH distance %r" % (lb, true))
                elif not (true <= ub + 1e-12):
                    bad = ("upper", "upper bound %r is below the true mGH distance %r" % (ub, true))
                elif (2 * lb) != int(2 * lb) or (2 * ub) != int(2 * ub) or lb < 0 or ub < 0:
                    bad = ("half", "estimates (%r, %r) are not non-negative multiples of 1/2" % (lb, ub))
                if bad:
                    rep.violation("gromov_hausdorff: %s (graphs on %d / %d vertices)" % (bad[1], len(A), len(B)), "mgh:bracket:" + bad[0], {"input": inp, "observed": [lb, ub], "expected": true,
                                                                                                                                     "call": "np.random.seed(seed); persim.gromov_hausdorff(A, B, mapping_sample_size_order)"})
                    if only_search:
                        return
    # isomorphic graphs (relabelings) of 5..7 vertices: lower bound 0
    from props.C17 import _rand_graph
    for _ in range(60 if tier == "quick" else 1500):
        n = rng.randint(3, 7)
        A = _rand_graph(rng, n, p=rng.choice([0.3, 0.5, 0.7]))
        perm = list(range(n))
        rng.shuffle(perm)
        B = relabel(A, perm)
        lb, ub = _gh(A, B, None, rng.randint(0, 10 ** 6))
        evals += 1
        distinct.add(("iso", n, int(A.sum())))
        if lb != 0:
            rep.violation("isomorphic graphs (a relabelling of the same %d-vertex graph) get lower bound %r, not 0" % (n, lb), "mgh:isomorphic-lower-bound",
                          {"input": {"A": A.tolist(), "perm": perm}, "observed": [lb, ub], "expected": [0, ">=0"], "call": "persim.gromov_hausdorff(A, relabel(A, perm))"})
            if only_search:
                return
    # random 5-vertex pairs vs exact
    for _ in range(15 if tier == "quick" else 400):
        A, B = _rand_graph(rng, rng.randint(4, 5)), _rand_graph(rng, rng.randint(3, 5))
        true = mgh(A, B)
        lb, ub = _gh(A, B, None, rng.randint(0, 10 ** 6))
        evals += 1
        if not (lb <= true + 1e-12 <= ub + 2e-12):
            rep.violation("bounds (%r, %r) do not bracket the true distance %r" % (lb, ub, true), "mgh:bracket:" + ("lower" if lb > true else "upper"), {"input": {"A": A.tolist(), "B": B.tolist()}, "observed": [lb, ub], "expected": true})
            if only_search:
                return
    # structured shapes up to 7 (thorough: 8) vertices - spiders, brooms, cycles with pendant leaves: diameter >= 3 and many equidistant
    # points, where the lower bound is tightened through bounded curvatures (Theorems A / B); exact distance by branch and bound
    from standins.mgh_oracle import mgh_bb, structured_shapes
    shapes = structured_shapes(7 if tier == "quick" else 8)
    names = sorted(shapes)
    spairs = [(a, b) for a in names for b in names]
    for a, b in spairs:
        true = mgh_bb(shapes[a], shapes[b])
        lb, ub = _gh(shapes[a], shapes[b], None, rng.randint(0, 10 ** 6))
        evals += 1
        distinct.add(("shape", a, b))
        if not (lb <= true + 1e-12 <= ub + 2e-12):
            rep.violation("bounds (%r, %r) of gromov_hausdorff(%s, %s) do not bracket the true distance %r" % (lb, ub, a, b, true), "mgh:bracket:" + ("lower" if lb > true else "upper"),
                          {"input": {"A": shapes[a].tolist(), "B": shapes[b].tolist(), "shapes": [a, b]}, "observed": [lb, ub], "expected": true})
            if only_search:
                return
            break
    # sizes around the limits of the integer types the code stores distances and counts in (127/128, 255/256 vertices), small and
    # large diameters: the estimates must exist (no exception), be multiples of 1/2 with lower <= upper,
    # and a relabelled copy must get lower bound 0
    def caterpillar(nv, spine):
        M = np.zeros((nv, nv), dtype=int)
        for i in range(spine):
            M[i, i + 1] = M[i + 1, i] = 1
        for v in range(spine + 1, nv):
            M[v % (spine + 1), v] = M[v, v % (spine + 1)] = 1
        return M
    big = [(126, 5), (127, 3), (128, 4), (129, 6), (130, 5)] + ([(255, 4), (256, 5), (258, 7), (200, 150), (140, 130)] if tier != "quick" else [(140, 130)])
    for nv, spine in big:
        A = caterpillar(nv, spine)
        perm = list(range(nv))
        rng.shuffle(perm)
        for B, iso in ((caterpillar(nv - 1, max(2, spine - 1)), False), (relabel(A, perm), True)):
            evals += 1
            distinct.add(("big", nv, spine, iso))
            try:
                with warnings.catch_warnings():
                    warnings.simplefilter("ignore")
                    np.random.seed(rng.randint(0, 10 ** 6))
                    from persim import gromov_hausdorff as _ghf
                    lb, ub = _ghf(A, B)
            except Exception as ex:
                rep.violation("gromov_hausdorff raised %r on connected graphs with %d / %d vertices (caterpillars, spine %d)" % (ex, nv, len(B), spine), "mgh:large-graph-exception",
                              {"input": {"generator": "caterpillar", "n": nv, "spine": spine, "isomorphic_copy": iso}, "observed": repr(ex), "call": "persim.gromov_hausdorff(caterpillar(n, spine), ...)"})
                if only_search:
                    return
                break
            if not (0 <= lb <= ub and float(2 * lb).is_integer() and float(2 * ub).is_integer()) or (iso and lb != 0):
                rep.violation("bounds (%r, %r) on graphs with %d / %d vertices are not a valid bracket%s" % (lb, ub, nv, len(B), " of distance 0 (relabelled copy)" if iso else ""), "mgh:large-graph-bracket",
                              {"input": {"generator": "caterpillar", "n": nv, "spine": spine, "isomorphic_copy": iso}, "observed": [lb, ub]})
                if only_search:
                    return
                break
    # larger sparse graphs (exact distance out of reach): a valid bracket at least needs lower <= upper
    for _ in range(150 if tier == "quick" else 4000):
        A, B = _rand_graph(rng, rng.randint(4, 9), p=rng.choice([0.25, 0.35, 0.5])), _rand_graph(rng, rng.randint(3, 8), p=rng.choice([0.25, 0.35, 0.5]))
        lb, ub = _gh(A, B, None, rng.randint(0, 10 ** 6))
        evals += 1
        if lb > ub:
            rep.violation("lower bound %r exceeds upper bound %r on graphs with %d / %d vertices" % (lb, ub, len(A), len(B)), "mgh:bracket:lower-above-upper", {"input": {"A": A.tolist(), "B": B.tolist()}, "observed": [lb, ub]})
            if only_search:
                return
            break
    # the assignment feasibility test: pure, and equal to brute force
    for _ in range(150 if tier == "quick" else 4000):
        md = rng.randint(1, 4)
        v = [rng.randint(0, 3) for _i in range(md)]
        u = [rng.randint(0, 3) for _i in range(md)]
        d = rng.randint(1, md)
        va, ua = np.array(v), np.array(u)
        got = G.check_assignment_feasibility(va, ua, d)
        evals += 1
        if not (np.array_equal(va, v) and np.array_equal(ua, u)):
            rep.violation("check_assignment_feasibility modified its arguments: %s,%s -> %s,%s" % (v, u, va.tolist(), ua.tolist()), "mgh:feasibility-mutates-arguments", {"input": {"v": v, "u": u, "d": d}})
            if only_search:
                return
        # distributions: entry k (from the left) = number of distances equal to (max_d - k); expand to multisets
        ev = [md - 1 - k + 1 for k, c in enumerate(v) for _c in range(c)]
        eu = [md - 1 - k + 1 for k, c in enumerate(u) for _c in range(c)]
        if len(ev) <= 6 and len(eu) <= 6:
            want = _feasible_bruteforce(ev, eu, d)
            if bool(got) != want:
                rep.violation("check_assignment_feasibility(%s, %s, %d) = %r, brute force %r" % (v, u, d, got, want), "mgh:feasibility-value", {"input": {"v": v, "u": u, "d": d}, "observed": bool(got), "expected": want})
    # the two table helpers of the lower bound against their definitions: one frequency distribution per row (entry j = number of
    # points at distance max_d - j), and the unique maximal distributions under the dominance order of the sorted vectors
    def dominated(v, u):
        # v < u  iff the entries of v can be matched to strictly larger entries of u (sorted comparison), v != u as multisets
        ev = sorted([d for d, c in v for _ in range(c)])
        eu = sorted([d for d, c in u for _ in range(c)])
        return len(ev) == len(eu) and all(a <= b for a, b in zip(ev, eu)) and ev != eu
    for _ in range(40 if tier == "quick" else 800):
        A = _rand_graph(rng, rng.randint(3, 8), p=rng.choice([0.3, 0.5]))
        DX = dist_matrix(A).astype(int)
        md = int(DX.max()) + rng.randint(0, 1)
        DXc = G.cast_distance_matrix_to_optimal_int_type(DX.copy())          # as estimate() hands it over: narrowest integer type
        R = G.represent_distance_matrix_rows_as_distributions(DXc, DXc.dtype.type(md))
        evals += 1
        want = np.array([[int(np.sum(DX[i] == md - j)) for j in range(md)] for i in range(len(DX))])
        if R.shape != want.shape or not np.array_equal(np.asarray(R, dtype=int), want):
            rep.violation("represent_distance_matrix_rows_as_distributions: table %s differs from the distance frequencies %s (graph on %d vertices, max_d=%d)" % (np.asarray(R).tolist(), want.tolist(), len(DX), md),
                          "mgh:distribution-table", {"input": {"DX": DX.tolist(), "max_d": md}, "observed": np.asarray(R).tolist(), "expected": want.tolist()})
            if only_search:
                return
            break
        U = G.find_unique_max_distributions(R)
        rows = [tuple(int(x) for x in r) for r in np.asarray(R)]
        as_pairs = lambda r: [(md - j, c) for j, c in enumerate(r)]
        maximal = {r for r in rows if not any(dominated(as_pairs(r), as_pairs(o)) for o in rows)}
        got = {tuple(int(x) for x in r) for r in np.asarray(U)}
        evals += 1
        if got != maximal or len(np.asarray(U)) != len(got):
            rep.violation("find_unique_max_distributions returned %s; the unique maximal rows of %s are %s" % (sorted(got), rows, sorted(maximal)), "mgh:unique-max-rows",
                          {"input": {"distributions": [list(r) for r in rows]}, "observed": sorted(got), "expected": sorted(maximal)})
            if only_search:
                return
            break
    # bounded curvature: a principal submatrix with all off-diagonal entries >= d
    for _ in range(40 if tier == "quick" else 800):
        A = _rand_graph(rng, rng.randint(3, 7))
        DX = dist_matrix(A).astype(int)
        d = rng.randint(1, int(DX.max()))
        K = G.find_largest_size_bounded_curvature(DX, DX.max(), d)
        evals += 1
        ok = K.shape[0] == K.shape[1] and (K.shape[0] < 2 or K[np.triu_indices_from(K, 1)].min() >= d)
        if ok and K.shape[0] >= 1:
            ok = any(np.array_equal(DX[np.ix_(idx, idx)], K) for idx in itertools.combinations(range(len(DX)), K.shape[0]))
        if not ok:
            rep.violation("find_largest_size_bounded_curvature did not return a d-bounded principal submatrix", "mgh:curvature", {"input": {"DX": DX.tolist(), "d": d}, "observed": K.tolist()})
    if not only_search:
        rep.bounded("mGH brackets vs exact distance", "%d pairs of connected labelled graphs on <=4 vertices (all maps enumerated), 5-vertex pairs, pairs of structured shapes (spiders, brooms, cycles with leaves) up to 7/8 vertices vs branch-and-bound, relabelings of 3..7-vertex graphs, 3 sampling orders, random NumPy seeds" % len(pairs),
                    evals, len(distinct), "lower <= exact mGH <= upper, multiples of 1/2, isomorphic => lower bound 0; check_assignment_feasibility pure and equal to brute force; bounded curvature is a d-bounded principal submatrix", samples)


def _replay_search(a):
    class C:
        def __init__(self):
            self.v = []

        def violation(self, what, sig, payload, **k):
            self.v.append((what, sig, payload))

        def note(self, *a):
            pass

        def bounded(self, *a, **k):
            pass
    c = C()
    _standin(c, "quick", 0, only_search=True)
    if c.v:
        what, sig, payload = c.v[0]
        return True, payload, sig, what
    return False, None, None, None


def run(rep, tier, seed):
    from contracts.c05_mgh import all_contracts
    cs, table = all_contracts(tier)
    run_contracts(rep, cs, table, tier=tier, pid="C05", replayers=[(r"gromov_hausdorff", _replay_search)])
    # the confirmation step of the lower bound: logical structure of the row test (hypothesis of Theorem B) and of its caller (Theorem A or B)
    from contracts.c05_mgh import lb_confirm_contracts
    for cs2, t2 in lb_confirm_contracts(tier):
        run_contracts(rep, cs2, t2, tier=tier, pid="C05", replayers=[(r"gromov_hausdorff", _replay_search)])
    rep.assume("L12 the distortion of any total map bounds inf dis from above; L13 trivial lower bound from diameters and cardinalities (precondition of find_lb's contract)",
               "L14 Theorems A / B of Oles et al. 2019 (assumed): for a d-bounded curvature K of X with more points than Y, or with a row whose distance distribution admits no bottleneck assignment "
               "within d against the distribution of ANY row of DY, 2 mGH >= d.  The logical structure of confirm_lb_using_bounded_curvature(_row) - exists row of K, for all rows of DY, not feasible - is proved; "
               "the helpers represent_distance_matrix_rows_as_distributions / find_unique_max_distributions / find_largest_size_bounded_curvature and the VALUE of check_assignment_feasibility "
               "(assumed contracts: one distribution per row; a sub-collection of the rows; a d-bounded principal submatrix; feasibility of the bottleneck assignment) are exercised by the bounded stand-in only",
               "D11 np.random.permutation returns a permutation, np.random.choice a vertex, whatever the generator state; D23 np.max / argmin",
               "lower-bound soundness is NOT proved beyond the enumerated sizes")
    _standin(rep, tier, seed)


def replay(doc):
    inp = doc["payload"].get("input", {})
    if inp.get("generator") == "caterpillar":
        nv, spine = inp["n"], inp["spine"]
        M = np.zeros((nv, nv), dtype=int)
        for i in range(spine):
            M[i, i + 1] = M[i + 1, i] = 1
        for v in range(spine + 1, nv):
            M[v % (spine + 1), v] = M[v, v % (spine + 1)] = 1
        try:
            with warnings.catch_warnings():
                warnings.simplefilter("ignore")
                r = _gh(M, M[:-1, :-1] if not inp.get("isomorphic_copy") else M, None, 0)
            ok = 0 <= r[0] <= r[1]
            print("replay C05: caterpillar(%d, %d): bounds %r: %s" % (nv, spine, r, "HOLDS" if ok else "VIOLATED"))
            return 0 if ok else 1
        except Exception as ex:
            print("replay C05: caterpillar(%d, %d): raised %r: VIOLATED" % (nv, spine, ex))
            return 1
    if "A" in inp and "B" in inp:
        from standins.mgh_oracle import mgh
        lb, ub = _gh(inp["A"], inp["B"], inp.get("mapping_sample_size_order"), inp.get("numpy_seed"))
        true = mgh(np.array(inp["A"]), np.array(inp["B"]))
        ok = lb <= true + 1e-12 <= ub + 2e-12
        print("replay C05: bounds (%r, %r), exact mGH %r: %s" % (lb, ub, true, "HOLDS" if ok else "VIOLATED"))
        return 0 if ok else 1
    print("replay C05: %s" % doc.get("what"))
    return 1
