"""C12 - imager geometry stays self-consistent under any configuration history"""
import math
import random
import warnings

import numpy as np

from vlib.deductive import run_contracts

LEVEL = "proof"


def _wf_violations(pi, asked=None, op="?"):
    """float-level check of the class invariant on a real PersistenceImager; asked = dict of requested ranges"""
    bad = []
    ps = pi.pixel_size
    rb, rp = pi.resolution
    scale = max(abs(pi.birth_range[0]), abs(pi.birth_range[1]), abs(pi.pers_range[0]), abs(pi.pers_range[1]), ps, 1e-300)
    eps = 64 * 2.3e-16 * scale * 4
    if not (isinstance(rb, (int, np.integer)) and isinstance(rp, (int, np.integer)) and rb >= 1 and rp >= 1):
        bad.append(("resolution", "resolution %r is not a pair of positive ints" % (pi.resolution,)))
        return bad
    if abs(pi.width - rb * ps) > eps or abs(pi.height - rp * ps) > eps:
        bad.append(("size", "resolution*pixel_size = (%r, %r) but width/height = (%r, %r)" % (rb * ps, rp * ps, pi.width, pi.height)))
    if abs((pi.birth_range[1] - pi.birth_range[0]) - pi.width) > eps or abs((pi.pers_range[1] - pi.pers_range[0]) - pi.height) > eps:
        bad.append(("range", "ranges %r %r do not span width/height %r %r" % (pi.birth_range, pi.pers_range, pi.width, pi.height)))
    for name, pts, r, rng in (("birth", pi._bpnts, rb, pi.birth_range), ("pers", pi._ppnts, rp, pi.pers_range)):
        if len(pts) != r + 1:
            bad.append(("mesh", "%s mesh has %d nodes for resolution %d" % (name, len(pts), r)))
            continue
        d = np.diff(pts)
        if len(d) and float(np.max(np.abs(d - ps))) > 1e-9 * ps + eps:
            bad.append(("pixel", "%s pixels are %r wide, configured pixel_size %r" % (name, float(d[0]), ps)))
        if abs(pts[0] - rng[0]) > eps:
            bad.append(("mesh", "%s mesh starts at %r, range starts at %r" % (name, pts[0], rng[0])))
    if asked:
        for name, rng in (("birth", pi.birth_range), ("pers", pi.pers_range)):
            if name in asked:
                lo, hi = asked[name]
                if rng[0] > lo + eps or rng[1] < hi - eps:
                    bad.append(("cover", "%s range %r does not contain the requested %r" % (name, rng, (lo, hi))))
                if (rng[1] - rng[0]) - (hi - lo) > ps * (1 + 1e-9) + eps:
                    bad.append(("excess", "%s range %r exceeds the requested %r by more than one pixel (%r)" % (name, rng, (lo, hi), ps)))
    return bad


def _run_history(hist):
    """execute a history [(op, args...)] on the real class; returns list of (step, kind, text)"""
    from persim import PersistenceImager
    out = []
    with warnings.catch_warnings():
        warnings.simplefilter("ignore")
        pi = None
        for step, h in enumerate(hist):
            op = h[0]
            asked = {}
            try:
                _apply = True
                if op == "init":
                    from persim import PersistenceImager as _PI
                    _PI(birth_range=tuple(h[1]), pers_range=tuple(h[2]), pixel_size=h[3])
            except Exception as ex:
                out.append((step, op + ":exception", "constructor raised %r" % (ex,)))
                break
            if op == "init":
                _, br, pr, ps = h
                pi = PersistenceImager(birth_range=tuple(br), pers_range=tuple(pr), pixel_size=ps)
                asked = {"birth": br, "pers": pr}
            elif op == "birth_range":
                pi.birth_range = tuple(h[1])
                asked = {"birth": h[1]}
            elif op == "pers_range":
                pi.pers_range = tuple(h[1])
                asked = {"pers": h[1]}
            elif op == "pixel_size":
                old = {"birth": pi.birth_range, "pers": pi.pers_range}
                pi.pixel_size = h[1]
                asked = old
            elif op == "fit":
                d = np.array(h[1], dtype=float)
                try:
                    pi.fit(d, skew=True)
                except Exception as ex:
                    out.append((step, op + ":exception", "fit raised %r" % (ex,)))
                    break
                asked = {"birth": (float(d[:, 0].min()), float(d[:, 0].max())),
                         "pers": (float((d[:, 1] - d[:, 0]).min()), float((d[:, 1] - d[:, 0]).max()))}
            elif op == "fit_transform":
                d = np.array(h[1], dtype=float)
                sk = bool(h[2])
                arg = d if sk else np.column_stack([d[:, 0], d[:, 1] - d[:, 0]])      # skew=False: already (birth, persistence)
                try:
                    pi.fit_transform(arg, skew=sk)
                except Exception as ex:
                    out.append((step, op + ":exception", "fit_transform raised %r" % (ex,)))
                    break
                asked = {"birth": (float(d[:, 0].min()), float(d[:, 0].max())),
                         "pers": (float((d[:, 1] - d[:, 0]).min()), float((d[:, 1] - d[:, 0]).max()))}
            elif op == "fit_many":
                ds = [np.array(x, dtype=float) for x in h[1]]
                try:
                    pi.fit(ds, skew=True)
                except Exception as ex:
                    out.append((step, op + ":exception", "fit raised %r" % (ex,)))
                    break
                allp = np.vstack(ds)
                asked = {"birth": (float(allp[:, 0].min()), float(allp[:, 0].max())),
                         "pers": (float((allp[:, 1] - allp[:, 0]).min()), float((allp[:, 1] - allp[:, 0]).max()))}
            for kind, text in _wf_violations(pi, asked, op):
                out.append((step, op + ":" + kind, text))
            if pi.resolution[0] * pi.resolution[1] <= 4000:
                img = pi.transform(np.array([[pi.birth_range[0], pi.birth_range[0] + pi.pers_range[1]]]), skew=True)
                if tuple(img.shape) != tuple(pi.resolution):
                    out.append((step, op + ":image-shape", "image shape %r but resolution %r" % (img.shape, pi.resolution)))
            if out:
                break
    return out


def _rand_history(rng):
    nice = [0.1, 0.2, 0.3, 0.25, 0.5, 0.7, 1.0, 1 / 3, 0.05, 0.305, 2.0, 0.75]
    def rng_range():
        lo = rng.choice([0.0, -1.0, 0.1, rng.uniform(-5, 5)])
        ext = rng.choice([0.3, 0.7, 1.0, 0.9, 2.04, 0.6, rng.uniform(0.05, 7)])
        return (lo, lo + ext)
    hist = [("init", rng_range(), rng_range(), rng.choice(nice + [rng.uniform(0.01, 1.5)]))]
    for _ in range(rng.randint(0, 4)):
        op = rng.choice(["birth_range", "pers_range", "pixel_size", "fit", "fit_many", "fit_transform", "near_multiple"])
        if op == "near_multiple":
            # an extent that is a whole number of pixels up to a relative 1e-7 .. 1e-13 (either side): the count must still cover it
            ps_now = [h for h in hist if h[0] in ("init", "pixel_size")][-1]
            ps_now = ps_now[3] if ps_now[0] == "init" else ps_now[1]
            lo = rng.choice([0.0, -1.0, 0.25])
            ext = rng.randint(1, 6) * ps_now * (1 + rng.choice([1, -1]) * rng.choice([3e-7, 1e-9, 1e-12, 2e-14]))
            hist.append((rng.choice(["birth_range", "pers_range"]), (lo, lo + ext)))
            continue
        if op == "fit_transform":
            pts = []
            for _i in range(rng.randint(2, 5)):
                b = rng.uniform(-3, 3)
                pts.append([b, b + rng.uniform(0.1, 4)])
            if len({p[0] for p in pts}) > 1:
                hist.append((op, pts, rng.random() < 0.5))
            continue
        if op == "pixel_size":
            hist.append((op, rng.choice(nice + [rng.uniform(0.01, 1.5)])))
        elif op == "fit":
            n = rng.randint(2, 5)
            pts = []
            for _i in range(n):
                b = rng.uniform(-3, 3)
                pts.append([b, b + rng.uniform(0.1, 4)])
            hist.append((op, pts))
        elif op == "fit_many":
            # a collection of diagrams in arbitrary order: later ones may extend the extent at either end, at both, or not at all
            ds = []
            for _d in range(rng.randint(2, 4)):
                c, w = rng.uniform(-2, 2), rng.choice([0.2, 1.0, 3.0])
                pts = []
                for _i in range(rng.randint(1, 3)):
                    b = c + rng.uniform(-w, w)
                    pts.append([b, b + rng.uniform(0.1, 0.1 + 2 * w)])
                ds.append(pts)
            if len({p[0] for d in ds for p in d}) > 1 and len({round(p[1] - p[0], 12) for d in ds for p in d}) > 1:
                hist.append((op, ds))
        else:
            hist.append((op, rng_range()))
    return hist


FIXED_HISTORIES = [
    [("init", (0, 1), (0, 1), 0.3)],
    [("init", (0, 1), (0, 2), 3.0)],
    [("init", (0.0, 2.04), (0.0, 1.0), 1.0), ("pixel_size", 0.305)],
    [("init", (0, 1), (0, 1), 0.2), ("birth_range", (0.0, 0.3)), ("pixel_size", 0.1)],
    [("init", (0, 1), (0, 1), 0.2), ("pers_range", (0.0, 0.7)), ("pixel_size", 0.1)],
    [("init", (0, 1), (0, 1), 1.0), ("pixel_size", 1 / 3)],
    [("init", (0, 1), (0, 2), 1), ("fit", [[1, 2], [4, 8], [-1, 5.25]]), ("pixel_size", 0.7), ("birth_range", (0.0, 2.1))],
    [("init", (0, 1), (0, 1), 0.5), ("fit_many", [[[0.0, 1.0], [1.0, 3.0]], [[-1.0, 0.5], [4.0, 9.0]]])],
    [("init", (0, 1), (0, 1), 0.5), ("fit_many", [[[-1.0, 0.5], [4.0, 9.0]], [[0.0, 1.0], [1.0, 3.0]]])],
]


def _standin(rep, tier, seed, only_search=False):
    rng = random.Random(seed * 101 + 12)
    n = 400 if tier == "quick" else 20000
    evals, distinct, samples = 0, set(), []
    hists = list(FIXED_HISTORIES) + [_rand_history(rng) for _ in range(n)]
    for hist in hists:
        res = _run_history(hist)
        evals += 1
        distinct.add(tuple(h[0] for h in hist) + (round(float(hist[0][3]), 4),))
        if len(samples) < 3:
            samples.append([list(h) for h in hist])
        if res:
            step, kind, text = res[0]
            rep.violation("after %s (step %d of history %s): %s" % (hist[step][0], step, hist[:step + 1], text), "geom:" + kind,
                          {"input": {"history": [list(h) for h in hist[:step + 1]]}, "observed": text,
                           "call": "PersistenceImager(...) followed by the listed assignments / fits"})
            if only_search:
                return
    if not only_search:
        rep.bounded("geometry-histories", "7 fixed + %d random histories: constructor then <=4 of {birth_range=, pers_range=, pixel_size=, fit}; quotients incl. 0.3/0.1, 0.7/0.1, 1/3, 2.04/0.305" % n,
                    evals, len(distinct), "distinct = (operation sequence, first pixel size); float-level WF, coverage, excess <= one pixel, image shape after every step", samples)


def _replay_search(a):
    class C:
        def __init__(self):
            self.v = []

        def violation(self, what, sig, payload, **k):
            self.v.append((what, sig, payload))

        def bounded(self, *a, **k):
            pass
    c = C()
    _standin(c, "quick", 0, only_search=True)
    if c.v:
        what, sig, payload = c.v[0]
        return True, payload, sig, what
    return False, None, None, None


def run(rep, tier, seed):
    from contracts.c12_imager import all_contracts
    cs, table = all_contracts(tier)
    run_contracts(rep, cs, table, tier=tier, replayers=[(r"PersistenceImager", _replay_search)])
    rep.assume("real arithmetic (A1): the setters' int(width/pixel_size) is exact in R; its float truncation is visible only to the float sweep",
               "D14 np.linspace(start, stop, num, endpoint=False)[k] = start + k*(stop-start)/num",
               "induction over the history: constructor establishes WF, every mutator preserves it (meta-argument)")
    _standin(rep, tier, seed)


def replay(doc):
    inp = doc["payload"].get("input", {})
    if "history" in inp:
        hist = [tuple(h) for h in inp["history"]]
        res = _run_history(hist)
        print("replay C12: history %s -> %s" % (hist, ("VIOLATED: " + res[0][2]) if res else "HOLDS"))
        return 1 if res else 0
    print("replay C12: %s" % doc.get("what"))
    return 1
