"""C18 - transformers: fit+transform == fit_transform, and refits forget the past"""
import contextlib
import copy
import io
import random
import warnings

import numpy as np

from vlib.deductive import run_contracts

LEVEL = "proof"


def _rand_dgm(rng, n, tie=None):
    """tie: None, 'birth' (all births equal), 'pers' (all persistences equal), 'point' (a single point)"""
    out = []
    b0, p0 = float(rng.randint(0, 5)), float(rng.randint(1, 4))
    for _ in range(1 if tie == "point" else n):
        b = b0 if tie == "birth" else round(rng.uniform(0, 6), 2)
        out.append([b, (b + p0) if tie == "pers" else round(b + rng.uniform(0.5, 5), 2)])
    return np.array(out)


def _img_state(pi):
    return (tuple(pi.birth_range), tuple(pi.pers_range), tuple(pi.resolution), pi.pixel_size, pi.width, pi.height, pi._bpnts.tolist(), pi._ppnts.tolist())


def _standin(rep, tier, seed, only_search=False):
    from persim import PersistenceImager
    from persim.landscapes import PersistenceLandscaper, PersLandscapeApprox
    rng = random.Random(seed * 67 + 18)
    evals, distinct, samples = 0, set(), []
    n = 60 if tier == "quick" else 1500
    with warnings.catch_warnings(), contextlib.redirect_stdout(io.StringIO()):
        warnings.simplefilter("ignore")
        for it in range(n):
            # ---------------- imager: random call sequences vs a fresh imager fitted on the last fit's data
            ps = rng.choice([0.5, 1.0, 0.3])
            pi = PersistenceImager(pixel_size=ps)
            seqs = [rng.choice(["fit", "transform", "fit_transform", "fit"]) for _ in range(rng.randint(2, 5))]
            last_fit = None
            hist = []
            # the same coordinate convention throughout one history, given by keyword, positionally or left to the default
            skew = rng.choice([True, True, False])
            how = rng.choice(["kw", "pos"]) if not skew else rng.choice(["kw", "pos", "default"])
            sk_a, sk_k = ((skew,), {}) if how == "pos" else (((), {"skew": skew}) if how == "kw" else ((), {}))
            for op in seqs:
                # refits on data with the same number of pixels but a shifted range are the delicate case
                if last_fit is not None and rng.random() < 0.5:
                    sh = rng.choice([ps * 4, ps * 10, 10.0])
                    X = [d + [sh, sh] for d in last_fit] if rng.random() < 0.5 else [d + [0.0, sh] for d in last_fit]
                else:
                    # data tied along an axis (H0-like diagrams: equal births; equal persistences; one point) is data like any other
                    tie = rng.choice([None, None, None, "birth", "pers", "point"])
                    X = [_rand_dgm(rng, rng.randint(2, 4), tie) for _ in range(1 if tie else rng.randint(1, 2))]
                Xc = copy.deepcopy(X)
                hist.append((op, [x.tolist() for x in X], {"skew": skew, "passed": how}))
                if op == "fit":
                    pi.fit(X, *sk_a, **sk_k)
                    last_fit = Xc
                elif op == "fit_transform":
                    out = pi.fit_transform(X, *sk_a, **sk_k)
                    last_fit = Xc
                    ref = PersistenceImager(pixel_size=ps)
                    ref.fit(Xc, skew=skew)
                    want = ref.transform(Xc, skew=skew)
                    evals += 1
                    if not (len(out) == len(want) and all(np.array_equal(a, b) for a, b in zip(out, want))):
                        rep.violation("fit_transform differs from fit followed by transform on a fresh imager after history %s" % [h[0] for h in hist], "imager:fit_transform-vs-fit-transform", {"input": {"pixel_size": ps, "history": hist}})
                else:
                    if last_fit is None:
                        continue
                    before = _img_state(pi)
                    o1 = pi.transform(X, *sk_a, **sk_k)
                    o2 = pi.transform(X, *sk_a, **sk_k)
                    evals += 1
                    if _img_state(pi) != before:
                        rep.violation("imager transform altered the fitted state", "imager:transform-mutates-state", {"input": {"pixel_size": ps, "history": hist}})
                    if not all(np.array_equal(a, b) for a, b in zip(o1, o2)):
                        rep.violation("imager transform not repeatable", "imager:transform-not-repeatable", {"input": {"pixel_size": ps, "history": hist}})
                    single = [pi.transform(x, skew=skew) for x in X]
                    if not all(np.array_equal(a, b) for a, b in zip(o1, single)):
                        rep.violation("imager transform of a collection is not element by element, in order", "imager:collection-order", {"input": {"pixel_size": ps, "history": hist}})
                if op in ("fit", "fit_transform"):
                    ref = PersistenceImager(pixel_size=ps)
                    ref.fit(last_fit, skew=skew)
                    evals += 1
                    distinct.add(("imager", tuple(h[0] for h in hist)))
                    if _img_state(pi) != _img_state(ref):
                        rep.violation("after history %s the imager's fitted state %s differs from a fresh imager fitted on the last data %s: a fit depends on earlier fits" % ([h[0] for h in hist], _img_state(pi)[:3], _img_state(ref)[:3]),
                                      "imager:refit-depends-on-history", {"input": {"pixel_size": ps, "history": hist}, "observed": list(_img_state(pi)[:3]), "expected": list(_img_state(ref)[:3])})
                        if only_search:
                            return
            # ---------------- imager: collections holding the same array object several times, and parallel transforms of three or
            # more diagrams of different sizes (element by element, in order, whatever the worker schedule)
            if it % 3 == 0:
                a, b, c = _rand_dgm(rng, 3), _rand_dgm(rng, 5), _rand_dgm(rng, 4)
                for X in ([a, a], [a, b, a], [c] * 3, [a, b, c], [b, c, a], [c, a, b, a]):
                    pi1, pi2 = PersistenceImager(pixel_size=ps), PersistenceImager(pixel_size=ps)
                    out = pi1.fit_transform(list(X))
                    pi2.fit(list(X))
                    want = pi2.transform(list(X))
                    evals += 1
                    distinct.add(("imager-collection", len(X), len({id(x) for x in X})))
                    if _img_state(pi1) != _img_state(pi2) or not (len(out) == len(want) and all(np.array_equal(p_, q_) for p_, q_ in zip(out, want))):
                        rep.violation("fit_transform on a collection of %d diagrams (%d distinct array objects) differs from fit followed by transform: states %s vs %s" % (len(X), len({id(x) for x in X}), _img_state(pi1)[:3], _img_state(pi2)[:3]),
                                      "imager:fit_transform-vs-fit-transform", {"input": {"pixel_size": ps, "collection_sizes": [len(x) for x in X], "object_ids_repeat": [[i for i, y in enumerate(X) if y is x] for x in X], "diagrams": [x.tolist() for x in X]}})
                        if only_search:
                            return
                        break
                    single = [pi2.transform(x) for x in X]
                    for nj in (1, 2):
                        par = pi2.transform(list(X), n_jobs=nj)
                        evals += 1
                        if not (len(par) == len(single) and all(np.array_equal(p_, q_) for p_, q_ in zip(par, single))):
                            rep.violation("imager transform(collection of sizes %s, n_jobs=%d) is not element by element, in order" % ([len(x) for x in X], nj), "imager:collection-order",
                                          {"input": {"pixel_size": ps, "collection_sizes": [len(x) for x in X], "n_jobs": nj, "diagrams": [x.tolist() for x in X]}})
                            if only_search:
                                return
                            break
            # ---------------- landscaper
            fixed = rng.choice([{}, {"start": 0.0}, {"stop": 20.0}, {"start": 0.0, "stop": 20.0}])
            ns = rng.choice([5, 11])
            for flat in (False, True):
                tr = PersistenceLandscaper(hom_deg=0, num_steps=ns, flatten=flat, **fixed)
                seqs = [rng.choice(["fit", "transform", "fit_transform"]) for _ in range(rng.randint(1, 4))]
                n_fits = 0
                hist = []
                for op in seqs:
                    X = [_rand_dgm(rng, rng.randint(2, 4)), _rand_dgm(rng, 2)]
                    hist.append((op, [x.tolist() for x in X]))
                    ref = PersistenceLandscaper(hom_deg=0, num_steps=ns, flatten=flat, **fixed)
                    if op == "fit":
                        tr.fit(X)
                        n_fits += 1
                        ref.fit(X)
                    elif op == "fit_transform":
                        out = tr.fit_transform(X)
                        n_fits += 1
                        want = ref.fit(X).transform(X)
                        evals += 1
                        if n_fits == 1 and not np.array_equal(out, want):
                            rep.violation("landscaper fit_transform differs from fit().transform() after history %s" % [h[0] for h in hist], "landscaper:fit_transform-vs-fit-transform", {"input": {"fixed": fixed, "history": hist}})
                    else:
                        before = (tr.start, tr.stop, tr.num_steps, tr.hom_deg, tr.flatten)
                        o1 = tr.transform(X)
                        o2 = tr.transform(X)
                        evals += 1
                        if (tr.start, tr.stop, tr.num_steps, tr.hom_deg, tr.flatten) != before:
                            rep.violation("landscaper transform altered the transformer's state: %s -> %s (history %s, user-fixed %s)" % (before, (tr.start, tr.stop), [h[0] for h in hist], fixed),
                                          "landscaper:transform-mutates-state", {"input": {"fixed": fixed, "history": hist}})
                            if only_search:
                                return
                        if not np.array_equal(o1, o2):
                            rep.violation("landscaper transform not repeatable", "landscaper:transform-not-repeatable", {"input": {"fixed": fixed, "history": hist}})
                        want = PersLandscapeApprox(dgms=X, start=before[0], stop=before[1], num_steps=ns, hom_deg=0).values
                        if not np.array_equal(o1, want.flatten() if flat else want):
                            rep.violation("landscaper transform differs from the approximate landscape on its grid", "landscaper:transform-values", {"input": {"fixed": fixed, "history": hist}})
                        continue
                    evals += 1
                    distinct.add(("landscaper", tuple(h[0] for h in hist), tuple(sorted(fixed))))
                    if (tr.start, tr.stop) != (ref.start, ref.stop):
                        sig = "landscaper:refit-keeps-earlier-grid" if n_fits >= 2 else "landscaper:fit-state"
                        rep.violation("after history %s (user-fixed %s) the landscaper grid is (%r, %r) but a fresh transformer fitted on the last data learns (%r, %r)" % ([h[0] for h in hist], fixed, tr.start, tr.stop, ref.start, ref.stop),
                                      sig, {"input": {"fixed": fixed, "history": hist}, "observed": [tr.start, tr.stop], "expected": [ref.start, ref.stop]})
                        if only_search and sig != "landscaper:refit-keeps-earlier-grid":
                            return
            if len(samples) < 2:
                samples.append({"imager_ops": seqs})
    if not only_search:
        rep.bounded("transformer call sequences", "%d random sequences of fit / transform / fit_transform per transformer (skew on/off, by keyword / position / default), with refits on shifted data of equal pixel count and on data tied along an axis, 4 choices of user-fixed grid ends, flatten on/off" % n,
                    evals, len(distinct), "after every fit the learned state must equal that of a fresh transformer (same user-fixed parameters) fitted on the same data; transform repeatable, state-preserving, element-wise in order; fit_transform == fit;transform",
                    samples)


def _replay_search(a):
    class C:
        def __init__(self):
            self.v = []

        def violation(self, what, sig, payload, **k):
            if sig != "landscaper:refit-keeps-earlier-grid" or "refit" in str(a.get("label", "")):
                self.v.append((what, sig, payload))

        def note(self, *a):
            pass

        def bounded(self, *a, **k):
            pass
    c = C()
    _standin(c, "quick", 0, only_search=True)
    if "[refit]" in a["label"]:
        # the deductive refutation of the refit variant is the known finding: reproduce it directly
        from persim.landscapes import PersistenceLandscaper
        tr = PersistenceLandscaper(hom_deg=0)
        X1, X2 = [np.array([[0.0, 3.0], [1.0, 4.0]])], [np.array([[2.0, 9.0], [5.0, 6.0]])]
        tr.fit(X1)
        tr.fit(X2)
        if (tr.start, tr.stop) != (2.0, 9.0):
            return True, {"input": {"fits": [X1[0].tolist(), X2[0].tolist()]}, "observed": [tr.start, tr.stop], "expected": [2.0, 9.0]}, "landscaper:refit-keeps-earlier-grid", \
                "PersistenceLandscaper().fit(X1).fit(X2) keeps the grid (%r, %r) learned from X1; the data of the last fit give (2.0, 9.0)" % (tr.start, tr.stop)
        return False, None, None, None
    if c.v:
        what, sig, payload = c.v[0]
        return True, payload, sig, what
    return False, None, None, None


def run(rep, tier, seed):
    from contracts.c18_transformers import all_contracts
    from contracts.c08_tools import transformer_contract
    from contracts.c04_images import imager_transform_contract
    cs, table = all_contracts(tier)
    cs = cs + [transformer_contract(False), transformer_contract(True), imager_transform_contract("list2"), imager_transform_contract("single")]
    from contracts.c08_tools import approx_summary
    table = dict(table)
    table["__class_summaries"] = {"PersLandscapeApprox": approx_summary}
    run_contracts(rep, cs, table, tier=tier, pid="C18", replayers=[(r"Persistence", _replay_search)])
    rep.assume("D21 sklearn TransformerMixin.fit_transform(X) = fit(X).transform(X) for the landscaper (its own fit_transform is inherited)", "D24 copy.deepcopy yields pointwise-equal private copies",
               "induction over call sequences: per-method state contracts compose (meta-argument); the sequences themselves are sampled")
    _standin(rep, tier, seed)


def replay(doc):
    inp = doc["payload"].get("input", {})
    if "fits" in inp:
        from persim.landscapes import PersistenceLandscaper
        tr = PersistenceLandscaper(hom_deg=0)
        for X in inp["fits"]:
            tr.fit([np.array(X)])
        last = np.array(inp["fits"][-1])
        ok = (tr.start, tr.stop) == (float(last[:, 0].min()), float(last[:, 1].max()))
        print("replay C18: successive landscaper fits -> grid (%r, %r); last data would give (%r, %r): %s" % (tr.start, tr.stop, last[:, 0].min(), last[:, 1].max(), "HOLDS" if ok else "VIOLATED"))
        return 0 if ok else 1
    print("replay C18: %s" % doc.get("what"))
    return 1
