"""C04 - persistence image pixels are weighted kernel mass over each pixel"""
import random

import numpy as np

from vlib.deductive import run_contracts
from . import _img_common as ic

LEVEL = "proof"


def _case(rep, cfg, dgm, skew=True, form="float"):
    """form: how the diagram is handed over - 'float' array, 'int' array or nested 'list' (the last two for integer-valued diagrams)"""
    pi = ic.make_imager(cfg)
    raw = dgm if skew else [[b, d - b] for b, d in dgm]
    if form == "float":
        got = ic.transform(pi, raw, skew=skew)
    else:
        import warnings
        arg = np.array(raw, dtype=int) if form == "int" else [[int(b), int(d)] for b, d in raw]
        with warnings.catch_warnings():
            warnings.simplefilter("ignore")
            got = pi.transform(arg, skew=skew)
    want = ic.oracle_image(dgm, True, cfg["birth_range"], cfg["pers_range"], cfg["pixel_size"], cfg["weight"], cfg["weight_params"],
                           cfg["kernel"], cfg["kernel_params"], pi._bpnts, pi._ppnts)
    inp = {"config": {k: v for k, v in cfg.items()}, "diagram": dgm, "skew": skew, "form": form}
    if got.shape != want.shape:
        rep.violation("image shape %s but %s expected (axes are (birth, persistence))" % (got.shape, want.shape), "image:shape", {"input": inp, "observed": list(got.shape)})
        return False
    err = float(np.max(np.abs(got - want))) if got.size else 0.0
    if not np.all(np.isfinite(got)) or err > ic.pixel_tol(dgm, cfg):
        a, c = np.unravel_index(int(np.argmax(np.abs(got - want))), got.shape)
        rep.violation("pixel (%d,%d) = %r but the weighted kernel mass is %r (kernel %s, weight %s)" % (a, c, float(got[a, c]), float(want[a, c]), cfg["kclass"], cfg["weight"]),
                      "image:pixel:%s:%s" % (cfg["kclass"] if cfg["kclass"] != "corr" else ("corr-high" if abs(cfg["kernel_params"]["sigma"][0][1]) ** 2 >= 0.855 * cfg["kernel_params"]["sigma"][0][0] * cfg["kernel_params"]["sigma"][1][1] else "corr-low"), cfg["weight"]),
                      {"input": inp, "observed": float(got[a, c]), "expected": float(want[a, c]), "pixel": [int(a), int(c)],
                       "call": "PersistenceImager(**config).transform(diagram, skew=skew)"})
        return False
    return True


def _standin(rep, tier, seed, only_search=False):
    rng = random.Random(seed * 41 + 4)
    n = 60 if tier == "quick" else 1500
    evals, distinct, samples = 0, set(), []
    for it in range(n):
        cfg = ic.rand_cfg(rng)
        dgm = ic.rand_dgm(rng, rng.randint(0, 4), cfg)
        skew = rng.random() < 0.7
        if not dgm:
            continue
        ok = _case(rep, cfg, dgm, skew)
        evals += 1
        distinct.add((cfg["kclass"], cfg["weight"], skew, len(dgm)))
        if len(samples) < 3:
            samples.append({"config": cfg, "diagram": dgm, "skew": skew})
        if only_search and not ok:
            return
    # integer-valued diagrams handed over as integer arrays or nested lists of ints: same image as the float array (every kernel, both
    # weights with non-integer weight values, both coordinate conventions)
    for it in range(30 if tier == "quick" else 600):
        cfg = ic.rand_cfg(rng)
        cfg["birth_range"], cfg["pers_range"], cfg["pixel_size"] = (0.0, 4.0), (0.0, 4.0), rng.choice([1.0, 0.5])
        if cfg["weight"] == "linear_ramp":
            cfg["weight_params"] = {"low": rng.choice([0.0, 0.3]), "high": rng.choice([1.0, 2.5]), "start": rng.choice([0.0, 0.5]), "end": rng.choice([2.5, 3.5])}
        dgm = []
        for _i in range(rng.randint(1, 4)):
            b = rng.randint(0, 4)
            dgm.append([float(b), float(b + rng.randint(0, 4))])
        skew = rng.random() < 0.7
        form = rng.choice(["int", "list"])
        ok = _case(rep, cfg, dgm, skew, form=form)
        evals += 1
        distinct.add((cfg["kclass"], cfg["weight"], skew, form))
        if only_search and not ok:
            return
    # all scales: the same picture (ranges, pixel size, diagram, kernel widths) at length scales 1e-4 and 1e3 - variances scale with
    # the square, so tiny pictures have variances around 1e-9: still an anisotropic / correlated kernel, not an isotropic one
    for it in range(16 if tier == "quick" else 300):
        cfg = ic.rand_cfg(rng)
        if cfg["kernel"] != "gaussian" or cfg["kclass"] in ("scalar", "iso"):
            continue
        c = rng.choice([1e-4, 1e-5, 1e-6, 1e3])
        dgm = ic.rand_dgm(rng, rng.randint(1, 3), cfg, outside=False)
        sc = dict(cfg)
        sc["birth_range"] = tuple(c * x for x in cfg["birth_range"])
        sc["pers_range"] = tuple(c * x for x in cfg["pers_range"])
        sc["pixel_size"] = c * cfg["pixel_size"]
        sc["kernel_params"] = {"sigma": [[c * c * v for v in row] for row in cfg["kernel_params"]["sigma"]]}
        if cfg["weight"] == "linear_ramp":
            sc["weight_params"] = dict(cfg["weight_params"], start=c * cfg["weight_params"]["start"], end=c * cfg["weight_params"]["end"])
        else:
            sc["weight_params"] = {"n": 1.0}
            cfg = dict(cfg, weight_params={"n": 1.0})
        sdgm = [[c * b, c * d] for b, d in dgm]
        pi0, pi1 = ic.make_imager(cfg), ic.make_imager(sc)
        if tuple(pi0.resolution) != tuple(pi1.resolution):
            continue
        base, scaled = ic.transform(pi0, dgm), ic.transform(pi1, sdgm)
        wfac = c if cfg["weight"] == "persistence" else 1.0
        evals += 1
        distinct.add(("scaled-picture", cfg["kclass"], cfg["weight"], c))
        if base.shape != scaled.shape or float(np.max(np.abs(scaled - wfac * base))) > 1e-6 * max(1e-300, float(np.max(np.abs(wfac * base)))) + 1e-12 * wfac:
            rep.violation("the same picture at length scale %r: pixels %s, expected %s times the pixels at scale 1 (kernel %s, weight %s)" % (c, np.round(scaled, 12).tolist(), wfac, cfg["kclass"], cfg["weight"]),
                          "image:scale-covariance:%s" % cfg["kclass"], {"input": {"config": cfg, "diagram": dgm, "scale": c}})
            if only_search:
                return
    # the same statement through fit_transform (both coordinate conventions): the imaged region is learned from the diagram, the
    # pixels are the weighted kernel mass on that region
    for it in range(12 if tier == "quick" else 300):
        cfg = ic.rand_cfg(rng)
        dgm = [p for p in ic.rand_dgm(rng, rng.randint(2, 4), cfg, outside=False)]
        if len({p[0] for p in dgm}) < 2 or len({round(p[1] - p[0], 9) for p in dgm}) < 2:
            continue
        skew = rng.random() < 0.5
        pi = ic.make_imager(cfg)
        import warnings as _w
        with _w.catch_warnings():
            _w.simplefilter("ignore")
            got = pi.fit_transform(np.array(dgm if skew else [[b, d - b] for b, d in dgm], dtype=float), skew=skew)
        want = ic.oracle_image(dgm, True, pi.birth_range, pi.pers_range, cfg["pixel_size"], cfg["weight"], cfg["weight_params"], cfg["kernel"], cfg["kernel_params"], pi._bpnts, pi._ppnts)
        evals += 1
        distinct.add(("fit_transform", cfg["kclass"], cfg["weight"], skew))
        if got.shape != want.shape or not np.all(np.isfinite(got)) or float(np.max(np.abs(got - want))) > ic.pixel_tol(dgm, cfg):
            rep.violation("fit_transform(diagram, skew=%s): image differs from the weighted kernel mass on the fitted region by %r (kernel %s, weight %s)" % (skew, float(np.max(np.abs(got - want))) if got.shape == want.shape else "shape", cfg["kclass"], cfg["weight"]),
                          "image:fit_transform", {"input": {"config": cfg, "diagram": dgm, "skew": skew, "via": "fit_transform"}})
            if only_search:
                return
    if not only_search:
        rep.bounded("pixels-vs-independent-kernel-mass", "%d random imagers (6 kernel classes incl. |r| up to 0.97, 2 weights) x diagrams of 1..4 points inside / on the border / outside; integer-valued diagrams as int arrays and nested lists" % n,
                    evals, len(distinct), "distinct = (kernel class, weight, skew, size); oracle: scipy norm / multivariate_normal CDFs + inclusion-exclusion, box overlap; tolerance 2e-7 * total weight",
                    samples)


def _replay_search(a):
    class C:
        def __init__(self):
            self.v = []

        def violation(self, what, sig, payload, **k):
            self.v.append((what, sig, payload))

        def note(self, *a):
            pass

        def bounded(self, *a, **k):
            pass
    c = C()
    _standin(c, "quick", 0, only_search=True)
    if c.v:
        what, sig, payload = c.v[0]
        return True, payload, sig, what
    return False, None, None, None


def _purity(rep, seed=0):
    from vlib.deductive import purity_probe
    import warnings
    rng = random.Random(seed + 4)
    calls = []
    for _ in range(6):
        cfg = ic.rand_cfg(rng)
        pi = ic.make_imager(cfg)
        D = np.array(ic.rand_dgm(rng, rng.randint(1, 4), cfg), dtype=float)
        D2 = D.copy()[::-1].copy()
        sk = rng.random() < 0.7
        calls.append(("PersistenceImager.transform(D, skew=%s) on a float64 array, kernel %s" % (sk, cfg["kclass"]), (lambda pi=pi, D=D, sk=sk: pi.transform(D, skew=sk)), [D]))
        calls.append(("PersistenceImager.transform([D, D2], skew=%s) on float64 arrays" % sk, (lambda pi=pi, D=D, D2=D2, sk=sk: pi.transform([D, D2], skew=sk)), [D, D2]))
    with warnings.catch_warnings():
        warnings.simplefilter("ignore")
        return purity_probe(rep, "PersistenceImager.transform", calls, "image:argument-modified")


def _replay_frame(a):
    class C:
        def __init__(self):
            self.v = []

        def violation(self, what, sig, payload, **k):
            self.v.append((what, sig, payload))
    c = C()
    _purity(c)
    if c.v:
        what, sig, payload = c.v[0]
        return True, payload, sig, what
    return False, None, None, None


def run(rep, tier, seed):
    from contracts.c04_images import all_contracts
    cs, table = all_contracts(tier)
    run_contracts(rep, cs, table, tier=tier, pid="C04", replayers=[(r"\.frame\.", _replay_frame), (r"_transform|linear_ramp", _replay_search)])
    rep.assume("D28 element types: allocations with dtype=x.dtype / full_like / empty_like / piecewise keep the integer type of an integer-typed argument (integer-typed variants of the contracts)")
    _purity(rep, seed)
    rep.assume("kernel validity and accuracy = C13 (sbvn_cdf / bvn_cdf enter through their contracts); user kernels / weights are pure functions of their arguments",
               "D9 meshgrid(indexing='ij') + flatten('C') + reshape('C') cancel (structural model); D8 erfc",
               "arithmetic definedness inside _transform assumed (sigma > 0 in the precondition); shape mismatches are real obligations")
    _standin(rep, tier, seed)


def replay(doc):
    inp = doc["payload"].get("input", {})
    if "config" in inp:
        class R:
            def __init__(self):
                self.bad = []

            def violation(self, what, sig, payload, **k):
                self.bad.append(what)
        r = R()
        cfg = dict(inp["config"])
        cfg["birth_range"], cfg["pers_range"] = tuple(cfg["birth_range"]), tuple(cfg["pers_range"])
        _case(r, cfg, inp["diagram"], inp.get("skew", True), form=inp.get("form", "float"))
        print("replay C04: %s" % (("VIOLATED: " + r.bad[0]) if r.bad else "HOLDS"))
        return 1 if r.bad else 0
    print("replay C04: %s" % doc.get("what"))
    return 1
