"""C01 - bottleneck distance is the true min-max matching cost"""
import random

import numpy as np
import warnings

from vlib.deductive import run_contracts
from . import _dist_common as dc

LEVEL = "proof"
KIND = "inf"


def _standin(rep, tier, seed, only_search=False):
    rng = random.Random(seed * 17 + 1)
    evals, distinct, samples = 0, set(), []
    cases_for_seeds = []
    for a, b, src in dc.enumerate_pairs(tier, rng):
        ok = dc.value_case(rep, KIND, a, b, src)
        evals += 1
        distinct.add((dc.classify(a, b), len(a), len(b), src))
        if len(samples) < 3 and src == "random":
            samples.append({"dgm1": a, "dgm2": b})
        if src == "random" and len(cases_for_seeds) < 40 and not any(p[1] == float("inf") for p in a + b):
            cases_for_seeds.append((a, b))
        if only_search and not ok:
            return
    if only_search:
        return
    seeds = [0, 1] if tier == "quick" else [0, 1, 2, 3, 5, 8, 13, 21]
    res = dc.hash_seed_run(KIND, cases_for_seeds, seeds)
    for s, (st, out) in res.items():
        if st != "ok":
            rep.note("hash-seed subprocess %s failed: %s" % (s, out))
            continue
        for (a, b), (d, rows) in zip(cases_for_seeds, out):
            evals += 1
            want = dc.oracle(KIND, a, b)
            if abs(d - want) > dc.tol_for(KIND, a, b, want):
                rep.violation("under PYTHONHASHSEED=%s bottleneck(%s, %s) = %r, optimum %r" % (s, a, b, d, want), "bottleneck:value:hashseed",
                              {"input": {"dgm1": a, "dgm2": b, "PYTHONHASHSEED": s}, "observed": d, "expected": want})
    evals += dc.view_cases(rep, KIND, rng, 12 if tier == "quick" else 300)
    # integer diagrams whose coordinates are not representable as floats (time stamps, 2**60 + k): only differences matter
    from persim import bottleneck as _bn
    from fractions import Fraction as _F
    for _ in range(12 if tier == "quick" else 200):
        base = rng.choice([2 ** 60, 2 ** 55 + 12345, 1_700_000_000_000_000_000])
        mk = lambda k: [[base + b, base + b + rng.randint(1, 9)] for b in (rng.randint(0, 12) for _i in range(k))]
        A, B = mk(rng.randint(1, 3)), mk(rng.randint(1, 3))
        want = dc.oracle(KIND, [[a - base, b - base] for a, b in A], [[a - base, b - base] for a, b in B])      # translation by an integer
        with warnings.catch_warnings():
            warnings.simplefilter("ignore")
            got = float(_bn(np.array(A, dtype=np.int64), np.array(B, dtype=np.int64)))
        evals += 1
        if abs(got - want) > 1e-9:
            rep.violation("bottleneck of int64 diagrams with coordinates near %d = %r, the optimal matching cost (exact in integers) is %r (offsets %s, %s)" % (base, got, want, [[a - base, b - base] for a, b in A], [[a - base, b - base] for a, b in B]),
                          "bottleneck:value:huge-integers", {"input": {"base": base, "dgm1_offsets": [[a - base, b - base] for a, b in A], "dgm2_offsets": [[a - base, b - base] for a, b in B], "dtype": "int64"}, "observed": got, "expected": want})
            break
    rep.bounded("bottleneck-vs-bruteforce", "all pairs of diagrams with <=2 points on a 3x3 lattice (+ one infinite bar), %d random pairs of <=4 points, scales 1e-9..1e6, %d hash seeds" % (150 if tier == "quick" else 4000, len(seeds)),
                evals, len(distinct), "distinct = (feature class, sizes, source); oracle = threshold search + augmenting paths on the augmented matrix built from the statement", samples, exhaustive=True)


def _replay_search(a):
    class C:
        def __init__(self):
            self.v = []

        def violation(self, what, sig, payload, **k):
            self.v.append((what, sig, payload))

        def note(self, *a):
            pass

        def bounded(self, *a, **k):
            pass
    c = C()
    _standin(c, "quick", 0, only_search=True)
    if c.v:
        what, sig, payload = c.v[0]
        return True, payload, sig, what
    return False, None, None, None


def run(rep, tier, seed):
    from contracts.c01_bottleneck import all_contracts
    cs, table = all_contracts(tier)
    cs = [c for c in cs if c.variant.startswith("matching=False")]          # float and integer-typed diagrams
    run_contracts(rep, cs, table, tier=tier, pid="C01", replayers=[(r"bottleneck", _replay_search)])
    rep.assume("D3 Hopcroft-Karp returns a maximum matching (len == 2n iff a perfect matching exists in the graph it is given); the complete graph at the largest candidate has one",
               "D6 mask indexing, D7 np.unique/np.sort = strictly increasing distinct entries, D2 bisect_left(range(n), x) = x",
               "L1 least feasible threshold among the entries = min over perfect matchings of the max cost; L2 augmented square problem = partial matchings with the diagonal, (0,0) placeholder neutral")
    _standin(rep, tier, seed)


def replay(doc):
    inp = doc["payload"].get("input", {})
    if "dgm1" in inp:
        class R:
            bad = []

            def violation(self, what, sig, payload, **k):
                self.bad.append(what)
        r = R()
        r.bad = []
        dc.value_case(r, KIND, inp["dgm1"], inp["dgm2"], "replay")
        print("replay C01: bottleneck(%s, %s) -> %s" % (inp["dgm1"], inp["dgm2"], ("VIOLATED: " + r.bad[0]) if r.bad else "HOLDS"))
        return 1 if r.bad else 0
    print("replay C01: %s" % doc.get("what"))
    return 1
