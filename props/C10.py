"""C10 - landscape p-norms and sup-norm equal the integrals they name"""
import math
import random
from fractions import Fraction

from vlib.deductive import probes_of, run_contracts

LEVEL = "proof"


def _close(a, b, rel=1e-9, abs_=1e-12):
    if a != a or b != b:
        return False
    return abs(a - b) <= abs_ + rel * max(abs(a), abs(b))


def _classify(p, cp, got):
    crossing = any(y0 * y1 < 0 for d in cp for (_a, y0), (_b, y1) in zip(d, d[1:]))
    neg = any(y < 0 for d in cp for _x, y in d)
    pk = ("even" if int(p) % 2 == 0 else "odd") if float(p).is_integer() else "real"
    return "pnorm:%s:%s:%s" % ("crossing" if crossing else ("negative" if neg else "nonneg"), pk,
                               "nan" if got != got else "value")


def _check_real(p, cp):
    """run the real _p_norm on (p, cp) and compare with the oracle -> (ok, got, want)"""
    import warnings
    from persim.landscapes.auxiliary import _p_norm
    from specs.norm_oracle import p_norm
    with warnings.catch_warnings():
        warnings.simplefilter("ignore")
        try:
            got = float(_p_norm(p=p, critical_pairs=cp))
        except Exception as ex:
            return False, "exception %r" % ex, p_norm(p, cp)
    want = p_norm(p, cp)
    # the integral is a well-conditioned function of the breakpoints: the tolerance (1e-9 relative) does not depend on how an
    # implementation chooses to evaluate it (an earlier version of this check allowed for the cancellation of one closed form)
    return _close(got, want), got, want


def _replay_segment(a):
    """refuted segment obligation -> one-segment landscape from the model's probes, run on the real code"""
    for m in a["models"]:
        pr = probes_of(m["model"])
        if not all(pr.get(k) is not None for k in ("x0", "y0", "x1", "y1")):
            continue
        cp = [[[float(pr["x0"]), float(pr["y0"])], [float(pr["x1"]), float(pr["y1"])]]]
        p = pr.get("p")
        var = a["label"].rsplit("[p=", 1)[-1].rstrip("]")
        p = float(p) if p is not None else (float(var) if var.replace(".", "").isdigit() else 2.0)
        if float(p).is_integer():
            p = int(p)
        ok, got, want = _check_real(p, cp)
        if not ok:
            return True, {"input": {"p": p, "critical_pairs": cp}, "observed": got, "expected": want,
                          "call": "persim.landscapes.auxiliary._p_norm(p, critical_pairs)"}, \
                _classify(p, cp, got if isinstance(got, float) else float("nan")), \
                "_p_norm(p=%s, %s) returned %s, integral gives %s" % (p, cp, got, want)
    return False, None, None, None


def _standin(rep, tier, seed):
    from persim.landscapes.auxiliary import _p_norm
    from specs.norm_oracle import p_norm, quad_norm
    rng = random.Random(seed * 7919 + 10)
    n = 400 if tier == "quick" else 6000
    evals = 0
    distinct = set()
    samples = []
    ps = [1, 2, 3, 4, 5, 6, 1.5, 2.5, 3.7]
    for it in range(n):
        nd = rng.randint(1, 3)
        cp = []
        for _ in range(nd):
            k = rng.randint(2, 6)
            xs = sorted({round(rng.uniform(-5, 5), 2) for _ in range(k + 2)})[:k]
            if len(xs) < 2:
                continue
            style = rng.choice(["pos", "mixed", "mixed", "lattice"])
            if style == "pos":
                ys = [round(rng.uniform(0, 3), 2) for _ in xs]
            elif style == "mixed":
                ys = [round(rng.uniform(-3, 3), 2) for _ in xs]
            else:
                ys = [rng.choice([-1, 0, 0, 1, 2]) for _ in xs]
            cp.append([[x, y] for x, y in zip(xs, ys)])
        if not cp:
            continue
        p = rng.choice(ps)
        ok, got, want = _check_real(p, cp)
        evals += 1
        sig = _classify(p, cp, got if isinstance(got, float) else float("nan"))
        distinct.add((sig, len(cp), tuple(len(d) for d in cp)))
        if len(samples) < 3:
            samples.append({"p": p, "critical_pairs": cp, "got": got, "want": want})
        if it % 50 == 0:
            q = quad_norm(p, cp)
            if not _close(q, want, rel=1e-6, abs_=1e-9):
                rep.note("oracle self-check mismatch closed form %r vs quad %r on %r" % (want, q, (p, cp)))
        if not ok:
            rep.violation("_p_norm(p=%s) = %s but the integral is %s on %s" % (p, got, want, cp), sig,
                          {"input": {"p": p, "critical_pairs": cp}, "observed": got, "expected": want,
                           "call": "persim.landscapes.auxiliary._p_norm(p, critical_pairs)"})
        elif it % 4 == 0:
            # all scales: multiply ordinates by an exact power of two - the norm must scale by the same factor (homogeneity)
            for c in (2.0 ** -40, 2.0 ** -27, 2.0 ** 20):
                cps = [[[x, y * c] for x, y in d] for d in cp]
                ok2, got2, want2 = _check_real(p, cps)
                evals += 1
                if not ok2:
                    rep.violation("_p_norm(p=%s) = %s but the integral is %s for ordinates scaled by %r: %s" % (p, got2, want2, c, cps), "pnorm:scale",
                                  {"input": {"p": p, "critical_pairs": cps}, "observed": got2, "expected": want2, "call": "persim.landscapes.auxiliary._p_norm(p, critical_pairs)"})
                    break
    rep.bounded("pnorm-vs-integral", "random piecewise-linear functions: <=3 depths, <=6 breakpoints, p in %s" % ps, evals, len(distinct),
                "distinct = (sign pattern class, p class, shape); compared with the closed-form integral (itself cross-checked against scipy quad)",
                samples)
    _standin_classes(rep, tier, rng)


def _standin_classes(rep, tier, rng):
    """entry points on the landscape classes: differences of landscapes, homogeneity, triangle inequality, sup norm"""
    import warnings
    import numpy as np
    from persim.landscapes import PersLandscapeExact, PersLandscapeApprox
    from persim import bottleneck
    from specs.norm_oracle import p_norm, sup_norm, norm_slack
    n = 60 if tier == "quick" else 600
    evals = 0
    distinct = set()
    samples = []
    for it in range(n):
        k1, k2 = rng.randint(1, 4), rng.randint(1, 4)
        def dg(k):
            out = []
            for _ in range(k):
                b = round(rng.uniform(0, 4), 1)
                out.append([b, round(b + rng.uniform(0.2, 3), 1)])
            return np.array(out)
        d1, d2 = dg(k1), dg(k2)
        with warnings.catch_warnings():
            warnings.simplefilter("ignore")
            P = PersLandscapeExact(dgms=[d1], hom_deg=0)
            Q = PersLandscapeExact(dgms=[d2], hom_deg=0)
            D = P - Q
            for p in (1, 2, 3):
                evals += 1
                got = D.p_norm(p)
                want = p_norm(p, D.critical_pairs)
                sig = _classify(p, D.critical_pairs, got)
                distinct.add(("exact-diff", sig))
                if not _close(got, want):
                    rep.violation("(P-Q).p_norm(%s) = %s but the integral is %s for diagrams %s, %s" % (p, got, want, d1.tolist(), d2.tolist()),
                                  sig, {"input": {"dgm1": d1.tolist(), "dgm2": d2.tolist(), "p": p}, "observed": got, "expected": want,
                                        "call": "(PersLandscapeExact([d1]) - PersLandscapeExact([d2])).p_norm(p)"})
                # triangle inequality / homogeneity on the exact class
                a, b = P.p_norm(p), Q.p_norm(p)
                if got > a + b + 1e-9 * max(1, a + b):
                    rep.violation("triangle inequality fails: ||P-Q||_%s=%s > %s+%s" % (p, got, a, b), "pnorm:triangle",
                                  {"input": {"dgm1": d1.tolist(), "dgm2": d2.tolist(), "p": p}, "observed": got, "expected": "<= %s" % (a + b)})
                h = (P * -2.5).p_norm(p)
                if not _close(h, 2.5 * a):
                    rep.violation("homogeneity fails: ||-2.5 P||_%s=%s vs %s" % (p, h, 2.5 * a), "pnorm:homogeneity",
                                  {"input": {"dgm1": d1.tolist(), "p": p}, "observed": h, "expected": 2.5 * a})
            z = (P - P).p_norm(2)
            if not (abs(z) < 1e-9):
                rep.violation("||P-P||_2 = %s" % z, "pnorm:self-difference", {"input": {"dgm1": d1.tolist()}, "observed": z, "expected": 0})
            # sup norms: exact, grid, and stability against bottleneck
            s = D.sup_norm()
            want_s = sup_norm(D.critical_pairs)
            evals += 1
            if not _close(float(s), want_s):
                rep.violation("exact sup_norm %s vs max |ordinate| %s" % (s, want_s), "supnorm:exact", {"input": {"dgm1": d1.tolist(), "dgm2": d2.tolist()}, "observed": float(s), "expected": want_s})
            bd = bottleneck(d1, d2)
            if float(s) > bd + 1e-9:
                rep.violation("sup norm of landscape difference %s exceeds bottleneck distance %s" % (s, bd), "supnorm:stability",
                              {"input": {"dgm1": d1.tolist(), "dgm2": d2.tolist()}, "observed": float(s), "expected": "<= %s" % bd})
            A1 = PersLandscapeApprox(dgms=[d1], start=0, stop=8, num_steps=81, hom_deg=0)
            A2 = PersLandscapeApprox(dgms=[d2], start=0, stop=8, num_steps=81, hom_deg=0)
            DA = A1 - A2
            for p in (1, 2):
                evals += 1
                got = DA.p_norm(p)
                want = p_norm(p, DA.values_to_pairs().tolist())
                sig = _classify(p, DA.values_to_pairs().tolist(), got)
                distinct.add(("approx-diff", sig))
                if not _close(got, want):
                    rep.violation("grid (A1-A2).p_norm(%s) = %s but the integral of the interpolant is %s" % (p, got, want), sig,
                                  {"input": {"dgm1": d1.tolist(), "dgm2": d2.tolist(), "p": p, "grid": [0, 8, 81]}, "observed": got, "expected": want,
                                   "call": "(PersLandscapeApprox([d1],0,8,81) - PersLandscapeApprox([d2],0,8,81)).p_norm(p)"})
            # norms of landscapes derived from operands whose norms were already taken (any call order): the norm of the result is the
            # integral of the function the RESULT represents - read from its own grid and values, not through the object's helpers
            def own_pairs(L):
                grid = np.linspace(L.start, L.stop, L.num_steps)
                return [[[float(x), float(y)] for x, y in zip(grid, row)] for row in np.asarray(L.values)]
            for p in (1, 2, 3):
                n1 = A1.p_norm(p)
                A1.sup_norm()
                c = rng.choice([-2.5, 0.5, 3.0])
                for nm, L in (("c*A", c * A1), ("A*c", A1 * c), ("A/c", A1 / c), ("-A", -A1), ("A+B", A1 + A2), ("A-B after norms", A1 - A2)):
                    evals += 1
                    got = L.p_norm(p)
                    pairs = own_pairs(L)
                    want = p_norm(p, pairs)
                    if not _close(got, want):
                        rep.violation("grid landscape: (%s).p_norm(%s) = %s after the operand's norm (%s) had been computed, but the integral of the function it represents is %s (c=%s)" % (nm, p, got, n1, want, c),
                                      "pnorm:derived-after-norm", {"input": {"dgm1": d1.tolist(), "dgm2": d2.tolist(), "p": p, "grid": [0, 8, 81], "operation": nm, "c": c}, "observed": got, "expected": want})
                        break
                    gs, ws = float(L.sup_norm()), float(np.max(np.abs(L.values)))
                    if not _close(gs, ws):
                        rep.violation("grid landscape: (%s).sup_norm() = %s after the operand's norm had been computed, largest absolute value is %s" % (nm, gs, ws),
                                      "supnorm:derived-after-norm", {"input": {"dgm1": d1.tolist(), "dgm2": d2.tolist(), "operation": nm, "c": c}, "observed": gs, "expected": ws})
                        break
            # grid landscapes given by their values (integer-typed arrays included) on grids whose nodes are not integers
            for _rep2 in range(2):
                m = rng.choice([4, 6, 9])
                a0 = rng.choice([0.0, -1.5, 0.25])
                b0 = a0 + rng.choice([2.5, 7.5, 0.6, 3.0])
                vdt = rng.choice([int, int, float])
                V = np.array([[rng.randint(-2, 3) for _i in range(m)] for _d in range(rng.randint(1, 2))], dtype=vdt)
                if not V.any():
                    continue
                L0 = PersLandscapeApprox(start=a0, stop=b0, num_steps=m, values=V.copy(), hom_deg=0)
                for nm, L in (("A", L0), ("3*A", 3 * L0), ("-A", -L0), ("A-A/2", L0 - L0 / 2)):
                    for p in (1, 2, 2.5):
                        evals += 1
                        got = L.p_norm(p)
                        pairs = own_pairs(L)
                        want = p_norm(p, pairs)
                        distinct.add(("values-given", np.dtype(vdt).kind, nm))
                        if not _close(got, want):
                            rep.violation("grid landscape given by %s values %s on [%r, %r]: (%s).p_norm(%s) = %s, the integral of the function it represents is %s" % (np.dtype(vdt).name, V.tolist(), a0, b0, nm, p, got, want),
                                          "pnorm:values-given", {"input": {"values": V.tolist(), "dtype": np.dtype(vdt).name, "start": a0, "stop": b0, "num_steps": m, "operation": nm, "p": p}, "observed": got, "expected": want})
                            break
            sa = DA.sup_norm()
            if not _close(float(sa), float(np.max(np.abs(DA.values)))):
                rep.violation("grid sup norm mismatch", "supnorm:grid", {"input": {"dgm1": d1.tolist(), "dgm2": d2.tolist()}, "observed": float(sa)})
        if len(samples) < 2:
            samples.append({"dgm1": d1.tolist(), "dgm2": d2.tolist()})
    rep.bounded("landscape-class norms", "random diagrams of 1..4 bars; exact and grid (81 nodes) differences; p in {1,2,3}", evals, len(distinct),
                "distinct = (class, sign pattern class); laws: value vs integral, triangle, homogeneity, P-P=0, sup-norm <= bottleneck", samples)


def run(rep, tier, seed):
    from contracts.c10_norms import all_contracts
    cs, table = all_contracts(tier)
    # generous budgets: the nonlinear segment obligations take seconds each and must not flip to undecided on a loaded machine
    run_contracts(rep, cs, table, tier=tier, replayers=[(r"_p_norm\..*(preserve|ensures|defined)", _replay_segment)], budget_s=1200, solve_budget_s=60)
    # grid landscapes: sup norm, conversion of values to (node, value) pairs, p-norm entry point
    from contracts.c10_norms import approx_contracts

    def _replay_classes(a):
        class C:
            def __init__(self):
                self.v = []

            def violation(self, what, sig, payload, **k):
                self.v.append((what, sig, payload))

            def note(self, *a):
                pass

            def bounded(self, *a, **k):
                pass
        c = C()
        _standin_classes(c, "quick", random.Random(3))
        if c.v:
            what, sig, payload = c.v[0]
            return True, payload, sig, what
        return False, None, None, None
    for cs2, t2 in approx_contracts(tier):
        run_contracts(rep, cs2, t2, tier=tier, pid="C10", replayers=[(r"PersLandscape", _replay_classes)])
    rep.assume("A8 real-analysis facts instantiated at the segment's end values: exp(c log u) = u^c for u > 0, u^e v^e = (uv)^e, a^(e+1) = a a^e, a^e >= 0, monotonicity in the base; D27 log1p / expm1 as real functions",
               "D25 legacy iteration protocol, D26 none here; D12 sorted (exact sup norm through max over a chain)")
    rep.assume("calculus: the closed form seg_int is the integral of |y|^p over a linear segment (checked numerically against scipy quad in the stand-in)",
               "L11 sup of a piecewise-linear function is attained at a breakpoint", "L15 Minkowski (norm laws), L16 landscape stability - sampled only")
    _standin(rep, tier, seed)


def replay(doc):
    inp = doc["payload"].get("input", {})
    if "critical_pairs" in inp:
        ok, got, want = _check_real(inp["p"], inp["critical_pairs"])
        print("replay C10: _p_norm(p=%s, %s) -> %s ; integral -> %s ; %s" % (inp["p"], inp["critical_pairs"], got, want, "HOLDS" if ok else "VIOLATED"))
        return 0 if ok else 1
    print("replay C10: no direct input recorded; obligation %s, solver output kept in the file" % doc.get("obligation"))
    return 1
