#!/bin/bash
# run every registered quick check on the current tree (evidence is rewritten); prints one line per check
cd "$(dirname "$0")/.."
for id in $(python3 -c "import json;print(' '.join(c['property_id'] for c in json.load(open('MANIFEST.json'))['checks']))"); do
  out=$(timeout 1800 ./check $id --tier ${1:-quick} 2>&1 | grep -E "^(OK|VIOLATION|KNOWN-FINDING|CHECKER-CRASH|VACUOUS)" | head -3 | tr '\n' ' ')
  echo "$id exit=$? $out"
done
