#!/usr/bin/env python3
"""False-alarm probe across properties: every filed seeded change is run against the checks of OTHER properties that re-verify
contracts of the seeded function's module (the pairs in RELATED).  A check that alarms with a replayed failing input has observed
its own property failing; one that alarms with `no-failing-input-found` only (a refuted obligation, nothing observed) is listed for
review - it may be a clause that belongs to another property's ledger.  Scratch copies as in seed_regression.py; /repo untouched.

usage: tools/cross_regression.py [-j N] [seed-prefix ...]
"""
import concurrent.futures as cf
import json
import os
import shutil
import subprocess
import sys
import tempfile

ROOT = os.path.dirname(os.path.dirname(os.path.abspath(__file__)))
REPO = "/repo"
RELATED = {"C01": ["C06", "C07"], "C02": ["C06", "C07"], "C06": ["C01", "C02"], "C04": ["C11"], "C13": ["C04", "C11"], "C12": ["C18", "C11"], "C11": ["C18", "C04"],
           "C18": ["C12", "C08"], "C05": ["C17"], "C17": ["C05"], "C08": ["C09", "C03"], "C09": ["C10", "C08"], "C10": ["C09"], "C03": ["C08", "C10"], "C20": ["C06"]}


def one(job):
    name, pid = job
    d = os.path.join(ROOT, "seeded", name)
    scratch = tempfile.mkdtemp(prefix="xr_%s_%s_" % (name, pid), dir="/tmp")
    try:
        shutil.copytree(os.path.join(REPO, "persim"), os.path.join(scratch, "persim"))
        p = subprocess.run(["patch", "-p1", "-s", "--no-backup-if-mismatch", "-i", os.path.join(d, "patch.diff")], cwd=scratch, capture_output=True, text=True)
        if p.returncode != 0:
            return name, pid, "patch-does-not-apply", ""
        env = dict(os.environ, VERIF_REPO=scratch, PYTHONPATH=scratch, VERIF_OUT=os.path.join(scratch, "out"), VERIF_SEED="0")
        r = subprocess.run([os.path.join(ROOT, "check"), pid, "--tier", "quick"], cwd=ROOT, capture_output=True, text=True, env=env, timeout=3600)
        out = r.stdout.splitlines()
        vio = [l for l in out if l.startswith("VIOLATION")]
        whats = [l.strip()[:170] for l in out if l.startswith("  what")]
        if r.returncode == 0 and not vio:
            return name, pid, "quiet", ""
        if r.returncode not in (0, 1):
            return name, pid, "CRASH rc=%d" % r.returncode, (r.stdout + r.stderr)[-300:].replace("\n", " | ")
        observed = [v for v in vio if not v.rstrip().endswith("no-failing-input-found")]
        if observed:
            return name, pid, "alarm-observed", whats[0] if whats else ""
        return name, pid, "ALARM-DEDUCTIVE-ONLY", " || ".join(whats[:4])
    finally:
        shutil.rmtree(scratch, ignore_errors=True)


def main():
    args = sys.argv[1:]
    jobs = 4
    if args and args[0] == "-j":
        jobs = int(args[1])
        args = args[2:]
    names = sorted(n for n in os.listdir(os.path.join(ROOT, "seeded")) if os.path.exists(os.path.join(ROOT, "seeded", n, "patch.diff")) and "_via" not in n)
    if args:
        names = [n for n in names if any(n.startswith(a) for a in args)]
    work = []
    for n in names:
        meta = json.load(open(os.path.join(ROOT, "seeded", n, "meta.json")))
        for pid in RELATED.get(meta.get("property"), []):
            work.append((n, pid))
    with cf.ThreadPoolExecutor(jobs) as ex:
        for name, pid, status, info in ex.map(one, work):
            print("%-18s -> %s %-22s %s" % (name, pid, status, info), flush=True)


if __name__ == "__main__":
    main()
