#!/usr/bin/env python3
"""confirm a seeded change and file it under /verif/seeded/<name>/

usage: confirm_seed.py <src dir with patch.diff, demo.py, notes.md> <property id> <name> [--check]
  1. scratch worktree of /repo HEAD under /tmp, apply patch, run the full test suite (must be 108 passed)
  2. demo.py on the clean tree (must PASS / exit 0) and on the patched tree (must FAIL / exit != 0)
  3. with --check: apply the patch to /repo, run ./check <pid> --tier quick, undo; record whether it was caught
The scratch worktree is removed afterwards.
"""
import json
import os
import re
import shutil
import subprocess
import sys

ROOT = os.path.dirname(os.path.dirname(os.path.abspath(__file__)))


def sh(cmd, cwd=None, env=None, timeout=1800):
    p = subprocess.run(cmd, shell=True, cwd=cwd, env=env, capture_output=True, text=True, timeout=timeout)
    return p.returncode, (p.stdout or "") + (p.stderr or "")


def main():
    src, pid, name = sys.argv[1:4]
    do_check = "--check" in sys.argv
    wt = "/tmp/wt_confirm_%s" % name
    sh("git -C /repo worktree remove --force %s" % wt)
    rc, out = sh("git -C /repo worktree add %s HEAD" % wt)
    meta = {"property": pid, "name": name, "base_commit": sh("git -C /repo rev-parse --short HEAD")[1].strip()}
    try:
        env = dict(os.environ, PYTHONPATH=wt, MPLBACKEND="Agg", PYTHONWARNINGS="ignore")
        rc, out = sh("/venv/bin/python %s/demo.py" % src, cwd=wt, env=env)
        meta["demo_clean"] = {"exit": rc, "tail": out.strip().splitlines()[-1:] }
        rc, out = sh("git apply %s/patch.diff" % os.path.abspath(src), cwd=wt)
        if rc != 0:
            meta["apply_error"] = out[-500:]
            print(json.dumps(meta, indent=1)); return 2
        rc, out = sh("/venv/bin/python -m pytest -q -p no:cacheprovider --timeout=900 test", cwd=wt, env=env)
        m = re.search(r"(\d+) passed", out)
        meta["suite_with_patch"] = {"exit": rc, "passed": int(m.group(1)) if m else 0, "tail": out.strip().splitlines()[-1:]}
        rc, out = sh("/venv/bin/python %s/demo.py" % src, cwd=wt, env=env)
        meta["demo_patched"] = {"exit": rc, "tail": out.strip().splitlines()[-3:]}
    finally:
        sh("git -C /repo worktree remove --force %s" % wt)
    ok = meta["demo_clean"]["exit"] == 0 and meta["demo_patched"]["exit"] != 0 and meta["suite_with_patch"]["passed"] >= 108 and meta["suite_with_patch"]["exit"] == 0
    meta["confirmed"] = ok
    if do_check and ok:
        assert sh("git -C /repo status --porcelain")[1].strip() == "", "/repo not clean"
        rc, out = sh("git -C /repo apply %s/patch.diff" % os.path.abspath(src))
        evf = os.path.join(ROOT, "evidence", "%s.json" % pid)
        saved = open(evf).read() if os.path.exists(evf) else None
        try:
            rc, out = sh("./check %s --tier quick" % pid, cwd=ROOT)
            meta["check_quick"] = {"exit": rc, "violation_lines": [l for l in out.splitlines() if l.startswith("VIOLATION")][:4],
                                   "what": [l.strip() for l in out.splitlines() if l.strip().startswith(("what:", "obligation:"))][:6]}
        finally:
            sh("git -C /repo checkout -- .")
            if saved is not None:
                open(evf, "w").write(saved)      # evidence files must come from runs on the unchanged tree
    dst = os.path.join(ROOT, "seeded", name)
    if ok:
        os.makedirs(dst, exist_ok=True)
        for f in ("patch.diff", "demo.py", "notes.md"):
            if os.path.exists(os.path.join(src, f)):
                shutil.copy(os.path.join(src, f), os.path.join(dst, f))
        notes = open(os.path.join(src, "notes.md")).read() if os.path.exists(os.path.join(src, "notes.md")) else ""
        meta["needs_to_manifest"] = notes[:1500]
        meta["ran"] = ["scratch worktree /tmp/wt_confirm_*: git apply patch.diff; pytest test (108 passed); demo.py clean=PASS patched=FAIL",
                       "git -C /repo apply patch.diff; ./check %s --tier quick; git -C /repo checkout -- ." % pid]
        json.dump(meta, open(os.path.join(dst, "meta.json"), "w"), indent=1)
    print(json.dumps({k: v for k, v in meta.items() if k != "needs_to_manifest"}, indent=1))
    return 0 if ok else 1


if __name__ == "__main__":
    sys.exit(main())
