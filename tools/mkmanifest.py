#!/usr/bin/env python3
"""regenerate MANIFEST.json from the table below (keeps it schema-valid by construction)"""
import json
import os

ROOT = os.path.dirname(os.path.dirname(os.path.abspath(__file__)))

TITLES = {}
for line in open(os.path.join(ROOT, "properties.jsonl")):
    p = json.loads(line)
    TITLES[p["id"]] = p["title"]

# id -> (category, technique, text, note)
CHECKS = {
    "C10": ("proof",
            "VCs generated from the AST of the real _p_norm (loop invariants with a recursively defined Sigma, per-segment NRA obligations) discharged by z3/cvc5; bounded run-time stand-in vs closed-form integral",
            "For p in {1,2,3,4} (polynomial), for every integer p >= 1 and for every real p >= 1 (abstract power with its sign / recurrence / monotonicity axioms) every path of the real _p_norm body is proved to add exactly the integral of |y|^p over the segment and the two loops to accumulate the double sum, for all real end-points and all numbers of depths and breakpoints; the nearly-horizontal branch (expm1/log1p) is proved equal to the same integral given the instances of exp(c log u) = u^c (A8). Entry points: the exact and the grid class's p_norm delegate to it on their own critical pairs / (node, value) pairs (values_to_pairs proved: one pair per depth and node) and reject negative p; both sup norms are proved to bound every absolute value and to be attained. Norm laws (triangle, homogeneity) and sup-norm stability against the bottleneck distance are bounded stand-ins, run with a tolerance of 1e-9 relative to the integral.",
            "floats as reals (A1); closed form = integral (calculus, numerically cross-checked); A8 exp/log/pow identities at the instantiated points; L11 sup of a piecewise-linear function attained at a breakpoint; VC generator + models + contracts trusted; z3/cvc5"),
    "C14": ("proof",
            "VCs from the AST of evalHeatKernel/heat (nested-loop Sigma invariants, modular call contract) + spec lemmas on the summand, z3/cvc5; bounded run-time stand-in for the float-only effects",
            "The real evalHeatKernel is proved to return the normalised closed double sum for all diagram sizes and contents and heat to return sqrt(k(F,F)+k(G,G)-2k(F,G)); symmetry / diagonal / shift laws are proved on the summand. NaN-freedom, zero on reorderings, triangle inequality and Wasserstein stability are float or paper-level facts: bounded stand-in.",
            "floats as reals; kernel positive definiteness assumed (radicand >= 0); exp uninterpreted (exp>0); generator, models, contracts trusted"),
    "C16": ("proof",
            "VCs from the AST of persistent_entropy for 12-16 flag/input-form variants: D6 mask contract, Sigma-extensionality/positivity meta-rules, raises-iff clauses, z3/cvc5; exhaustive small-scope run-time stand-in",
            "For every flag combination and for single/list input the real function is proved to return -sum p log p of the retained bar lengths (divided by log n when normalised), to raise exactly when a retained bar has non-positive length or keep_inf lacks a value, for all barcode sizes and contents. Bounds (Jensen) and invariances are sampled / proved on the spec.",
            "floats as reals with tagged infinities; log uninterpreted with sign facts; Sigma meta-rules (induction) trusted; D6 mask-indexing contract assumed; generator, models, contracts trusted"),
    "C15": ("proof",
            "VCs from the AST of sliced_wasserstein: diagonal-projection obligations (NRA with h^2=1/2), loop invariant sw == (1/M) Sigma_i cityblock(sorted V1_i, sorted V2_i) with sorted/cityblock as functional contracts, z3/cvc5; bounded run-time laws",
            "The real function is proved, for all diagram sizes, contents (either sign) and M >= 1, to project every point to ((b+d)/2,(b+d)/2), to use directions (1/2 + i/M) pi and to return the average of the sorted-L1 costs. Metric laws and the 2*W1 bound are sampled.",
            "floats (incl. the float32 direction vectors) as reals; sorted/cityblock contracts D12/D18 functional in their inputs; cos/sin uninterpreted except at pi/4; generator, models, contracts trusted"),
    "C13": ("other",
            "VCs from the AST of uniform/norm_cdf/sbvn_cdf/gaussian/gauss_legendre_quad (full functional contracts) and of bvn_cdf (control skeleton: standardisation, regime test, three guards, sign flip, final combinations), z3/cvc5; the quadrature accuracy is a bounded numeric comparison against SciPy and an mpmath integral",
            "Mixed. Proved for all inputs: box CDF, product form for zero covariance, dispatch, Gauss-Legendre tables = leggauss nodes/weights, thresholds 0.3/0.75/0.925, Genz's guards and final combinations on every path of the real bvn_cdf. Bounded: 1e-7 agreement with two independent reference CDFs on 1.5k (quick) / 60k (thorough) points across all branch thresholds, range, monotonicity, rectangle mass, tails.",
            "erfc/exp/sin/arcsin/sqrt uninterpreted; arithmetic definedness inside bvn_cdf assumed; accuracy only sampled; generator, models, contracts trusted"),
    "C12": ("proof",
            "class invariant as contracts on the real constructor, the three setters and fit (modular: fit is checked against the setters' contracts), VCs from the AST, nonlinear int/real obligations discharged by z3 (nlsat after Ackermann reduction) / cvc5; float history sweep as bounded stand-in",
            "WF (square pixels of the configured size, resolution*pixel = extent, meshes, coverage of the request with excess < one pixel) is proved to be established by the constructor and preserved by pixel_size=, birth_range=, pers_range= and fit for all real arguments; induction over the history gives every finite sequence. Floating-point truncation effects are covered only by the bounded sweep of histories.",
            "real arithmetic for floats (the quotients 0.3/0.1 etc. are exercised by the float sweep only); np.linspace contract D14; induction over histories is a meta-argument; generator, models, contracts trusted"),
    "C01": ("proof",
            "VCs from the AST of the real bottleneck(): two cut points (filter, cost matrix) and three loop contracts (threshold search with ghost window, graph construction, matching extraction); Hopcroft-Karp / np.unique / mask indexing as dependency contracts; z3 (E-matching) + cvc5; exhaustive small-scope stand-in vs an independent brute-force oracle under several hash seeds",
            "Proved for all diagram sizes and contents: the filtered diagrams are the finite-death rows (or the (0,0) placeholder) with a warning iff rows were dropped; every entry of the (M+N)^2 matrix equals the L-infinity / (d-b)/2 / inf / 0 cost of the statement; the graph handed to Hopcroft-Karp is exactly the threshold graph; the search returns the least feasible candidate among the distinct entries. That this equals the min over matchings of the max cost is the paper lemma L1/L2.",
            "D2 bisect, D3 Hopcroft-Karp (maximum matching), D6 mask indexing, D7 unique/sort; floats as reals with tagged infinities; L1/L2 paper lemmas; generator, models, contracts trusted"),
    "C02": ("proof",
            "VCs from the AST of the real wasserstein(): cut points (filter, cost matrix) and the assignment contract D4; NRA obligations for the 45-degree rotation; z3/cvc5; brute-force stand-in incl. far-from-origin offsets",
            "Proved for all sizes/contents: filter as in C01; every entry of the augmented matrix equals Euclidean distance / (d-b)/sqrt2 / inf / 0; the returned value is the total cost of the assignment returned by linear_sum_assignment on that matrix, whose optimality is the dependency contract D4.",
            "D4 linear_sum_assignment optimal; D6; sqrt uninterpreted with its defining axioms, cos(pi/4)=sin(pi/4)=h; floats as reals; L2; generator, models, contracts trusted"),
    "C06": ("proof",
            "postconditions on the real matching-extraction code of bottleneck (loop invariant over an append-only list, enumeration facts) and wasserstein (masked stores + row filter, Sigma-compress meta-rule); certificate checker as exhaustive small-scope stand-in",
            "Proved for all sizes: distance unchanged by the flag (same path prefix), every point of each diagram in exactly one row, -1 convention, third column = the cost-matrix entry of the pair (which the matrix cut proves to be the cost rule), every bottleneck row cost <= distance, sum of Wasserstein row costs == distance, dropped rows are exactly diagonal-diagonal. Attainment of the bottleneck maximum is bounded only.",
            "D3/D4 bijections, D6 enumeration (prefix-count) facts and Sigma meta-rules trusted (valid by induction); generator, models, contracts trusted"),
    "C07": ("other",
            "entrywise relational lemmas on the cost specs (transpose symmetry, diagonal shift, scaling, Linf<=L2, ground triangle inequalities) proved by z3 + the C01/C02 value contracts; the laws of the optimum themselves are paper lemmas exercised metamorphically on diagrams up to 60 (quick) / 200 (thorough) points",
            "Mixed: what is proved is that the code computes min-max / min-sum over a cost matrix with the stated entrywise symmetries; that these imply the metric and invariance laws is L3-L9 (not machine-checked); the bounded part samples the laws directly, including chain and dominant-bar families.",
            "L3-L9 paper lemmas; dependency contracts of C01/C02; float rule of DESIGN 2.6 for comparisons"),
    "C04": ("proof",
            "VCs from the AST of the real _transform for 9 kernel/weight/skew variants (loop invariant: every pixel == partial Sigma of weight x inclusion-exclusion of the kernel CDF; fast path and general path against the same spec) and of linear_ramp; kernels enter through their C13 contracts; z3/cvc5; run-time oracle built on SciPy CDFs",
            "For every diagram size/content, resolution and corner grid: each pixel of the real _transform equals Sum_i w_i * mass_i(pixel) with the first axis birth, for scalar / isotropic / diagonal / correlated Gaussian, uniform and an arbitrary user kernel, user / persistence / linear-ramp weights, skew on or off; the image shape equals the resolution; the argument is never written. Numerical accuracy of the correlated kernel is C13's bounded part.",
            "C13 (kernel contracts), D8 erfc, D9 meshgrid/flatten/reshape algebra (structural model); arithmetic definedness assumed for sigma > 0; generator, models, contracts trusted"),
    "C11": ("proof",
            "contracts on the real PersistenceImager.transform (empty / single / collection / parallel variants; _transform modular; joblib as dependency contract; parameter binding through the real signature) + the pixel contract of C04; run-time metamorphic laws with real joblib workers",
            "Proved: an empty diagram yields a zero image of the configured resolution; a single diagram and each element of a collection are mapped by _transform with exactly the imager's parameters, in order, serially or through Parallel/delayed with any n_jobs and either skew; transform leaves the fitted state untouched; the pixel formula is a sum over points (C04), from which additivity, order freedom and zero-weight neutrality follow by Sigma meta-rules. Laws are additionally sampled with real workers.",
            "D17 joblib order; Sigma-split / commutativity meta-rules; C13 for non-negativity; generator, models, contracts trusted"),
    "C03": ("other",
            "contracts on the real PersLandscapeExact.__init__ (VCs from the AST: the diagram of the requested degree is selected, whatever the other degrees hold; compute iff requested; both-empty rejected) + bounded-symbolic execution (engine E2): the real PersLandscapeExact.compute_landscape is run by CPython on proxy reals for every feasible path with <=3 bars in any order (4 in sweep order, thorough), each path's critical pairs compared with the k-th-largest-tent spec for all t and all depths by z3 (QF_LRA); run-time lattice/random comparison and exact power-of-two scale covariance",
            "BOUNDED, not proved: complete for the stated sizes (all real end-points, all t, all k) and sampled beyond. No loop invariant for the Bubenik-Dlotko sweep is within reach of the VC generator (k-th largest over a positionally mutated bag), so no contract-level proof is claimed. Proved for all inputs only: the constructor uses dgms[hom_deg]. The known repeated-bar shortcut defect is attributed by a trace that requires every execution of the shortcut to be matched by a bar genuinely repeated in the work list.",
            "CPython + pysym proxies; z3; sizes bounded (3 bars exhaustive); slopes of landscape functions in {-1,0,1} used to keep queries linear"),
    "C08": ("other",
            "contracts on death_vector, PersistenceLandscaper.transform and PersLandscapeApprox.__init__ (diagram of the requested degree, finite bars only via mask-indexing facts, grid ends given-or-derived as min birth / max finite death) and vectorize (every depth sampled at the nodes of the given-or-derived grid through the np.interp contract; loop invariant over depths) (VCs from the AST, modular compute_landscape) + bounded-symbolic execution (E2) of the real PersLandscapeApprox.compute_landscape on proxy reals for <=2 bars x <=6 nodes with the half-step bound checked per path by z3; run-time grids up to 50 nodes",
            "Mixed: proved for all inputs - death vector = deaths sorted non-increasingly with multiplicity (sorted() as contract D12), rejection of hom_deg != 0, the transformer returns exactly the values (flattened on request) of the approximate landscape built from its grid parameters and leaves its state untouched. Bounded - the half-step bound and exactness on grid end-points.",
            "D12 sorted, D13 interp, D14 linspace; L10 (snapping <= step/2, k-th largest 1-Lipschitz) paper argument; E2 bounds; known finding: 'empty' sentinel"),
    "C09": ("other",
            "contracts on the real grid-landscape operators (+, -, unary -, scalar *, /, union_vals), the map-style exact operators, and snap_pl / lc_approx / average_approx (loop invariant over every depth through the real __getitem__, np.interp and the operators through their contracts, every grid argument given-or-derived) with frame obligations (no store into an operand's buffer, operands' fields untouched), VCs from the AST; bounded-symbolic execution (E2) of the real slope-merge chain of exact addition for <=3+3 breakpoints; run-time operator sequences on shared operands",
            "Mixed: proved for all sizes - grid arithmetic is pointwise with zero padding of the shallower operand, keeps the grid, rejects mismatched grids/degrees/non-numbers/zero divisors, never writes into an operand; exact negation / scaling / division map over depths and pairs; snap_pl re-samples every depth of every input from its own grid onto the requested-else-derived common grid (explicit zeros honoured), lc_approx is the same combination of the re-sampled values with missing depths as zero, average_approx uses coefficients 1/m. Bounded - exact addition (merge of slope lists) for <=3+3 (4+4 thorough) breakpoints incl. coincident abscissae; snap / linear combination / average sampled.",
            "D15 np.pad, D16 object-array dispatch, D25 legacy iteration protocol, D26 np.interp (assumed contract: a function of its arguments, passing through the data), wf precondition on critical pairs; E2 bounds; generator, models, contracts trusted"),
    "C18": ("other",
            "per-method state contracts on the real PersistenceLandscaper.fit (ghost user-fixed flags, five pre-states) / transform, a relational script contract for PersistenceImager.fit (two pre-states, same data => same post-state), fit_transform vs fit;transform as a script contract, imager.transform element-wise mapping; run-time random call sequences against fresh transformers",
            "Mixed with a known finding: proved - imager fits forget the past, fit_transform equals fit then transform in state and images, transforms leave the fitted state untouched and map collections in order, landscaper fit honours user-fixed ends and learns min birth / max death on a fresh transformer. Refuted on the unchanged tree (KNOWN-FINDING): a second landscaper fit keeps the first fit's grid. Call sequences are sampled.",
            "D21 sklearn mixin, D24 deepcopy; induction over call sequences is a meta-argument; level is `other` because the refit obligations are refuted (known finding), so discharged < obligations"),
    "C20": ("other",
            "call-trace contracts on an abstract Axes/pyplot recorder for the real bottleneck_matching / wasserstein_matching (loop invariant over the ordered log of plot calls, enumeration facts) and for plot_diagrams (one scatter per diagram at (birth, death) or (birth, death-birth), infinite deaths on a line strictly inside the y-limits, limits containing every finite coordinate, title / legend as requested, no store into the caller's arrays), VCs from the AST; real Agg canvases with artists inspected for plot_diagrams, both matching plots and the 2-D landscape plots",
            "Mixed: proved for all diagrams and all certificate-shaped matchings - exactly one ax.plot per row involving a point, in order, joining the two points or the point and its perpendicular foot ((b+d)/2,(b+d)/2) (NRA with h^2=1/2), the arg-max bottleneck row in the emphasised style, nothing drawn through pyplot's current axes, plot_diagrams invoked once on the same axes. plot_diagrams itself (scatter offsets, limits, infinity line, labels, legend) and the landscape plots are checked on real canvases only (bounded).",
            "D22 matplotlib call -> artist; matching rows integer-valued and in range (C06); arithmetic definedness assumed; generator, models, contracts trusted"),
    "C05": ("other",
            "contracts on the real construct_mapping (loop invariant: the running distortion bounds every mapped pair, for any RNG draw), find_ub_of_min_distortion (while-loop over a generator of random permutations, for every sampling order), find_ub, find_lb (loop invariant double_lb <= 2 mGH with the confirmation step as assumed contract), confirm_lb_using_bounded_curvature (Theorem A or the row test on the same arguments), confirm_lb_using_bounded_curvature_row (nested while-loop invariants: confirmed iff some maximal row of K is infeasible against EVERY row of DY - the hypothesis of Theorem B), find_largest_size_bounded_curvature (while-loop invariant with a ghost index map: the result is a principal submatrix of DX on a strictly increasing selection of points, all pairwise distances >= d; sort keys abstract), check_assignment_feasibility (frame: never writes into its arguments) and estimate; ghost constants inf-dis / 2 mGH; exhaustive small-graph stand-in vs exact mGH",
            "Mixed: proved for all graph sizes, labelings, RNG states and sampling orders - the upper estimate is the distortion bound of total maps in both directions, hence >= mGH; estimates are non-negative multiples of 1/2; the lower estimate never exceeds mGH *given* L13 and the assumed soundness of the curvature confirmation (Theorems A/B + the greedy assignment test), which is checked only by the bounded stand-in (all pairs of graphs on <=4 vertices, relabelings up to 7 vertices, brute-force feasibility).",
            "L12-L14 paper lemmas (Theorems A/B assumed); the value of check_assignment_feasibility, represent_distance_matrix_rows_as_distributions, find_unique_max_distributions under assumed contracts (bounded stand-in vs brute force / branch-and-bound up to 8 vertices, integer-type boundary sizes 126..258); D11 RNG ranges; generator, models, contracts trusted"),
    "C17": ("other",
            "contracts on the real determine_optimal_int_type, make_distance_matrix_from_adjacency_matrix (connected and disconnected branch, SciPy's shortest_path / connected_components / unique as dependency contracts) and gromov_hausdorff (pair, collection, rejection); a call-graph obligation (find_lb reaches no RNG call); run-time sweep over containers, sparsity, symmetry, relabelings, collections and disconnected graphs",
            "Mixed: proved - the disconnected branch warns and returns the square, finite restriction of the distance matrix to a largest component on both axes and never raises; the integer type holds the maximum; pair / collection dispatch, N < 2 rejected, symmetric zero-diagonal matrices whose entries are the pairwise estimates; lower bounds are RNG-free. Format coercion (list / dense / CSR, triu / symmetric) is SciPy's: bounded sweep.",
            "D10 shortest_path, D19 unique / tril_indices, D20 connected_components (as assumed contracts, swept at run time); generator, models, contracts trusted"),
    "C19": ("other",
            "frame (ownership) obligations generated by the VC engine for 60+ functions / variants under contract in every module (every in-place write on every path - subscript stores, augmented assignments, in-place ndarray methods, out= arguments - must target a buffer not reachable from a parameter; list arguments keep their length and elements), dtype-store obligations; only these clauses of the re-verified contracts are read here, their functional clauses belong to their own properties; AST scans (no global/nonlocal state, RNG only in the mGH upper bound); byte-level comparison of arguments and repetition/interleaving over ~35 public entry points; list/int/float agreement",
            "Mixed: proved for the functions under contract (distances, kernels, entropy, imager construction/fit/transform and kernels, landscape constructors, operators, tools, norms and transformer, mGH pipeline incl. the lower-bound chain, plots) - no path stores into an argument's buffer or rebinds / resizes an argument list (np.array/np.copy/astype(copy=True)/mask indexing yield fresh buffers, views alias), no float is stored into an integer buffer inherited from the caller, no module state, randomness only through NumPy's global generator in the mGH upper bound. Everything else (all remaining public entry points, repeatability, interleaving, representation independence) is the bounded byte-level stand-in. Known finding: the deprecated PersImage caches `specs`.",
            "A5 view/copy classification of the NumPy model; functions outside the contracts only sampled; generator, models, contracts trusted"),
}

NOT_YET = "check not built yet in this session (planned per DESIGN.md section 5)"


def main():
    checks = []
    for pid in sorted(CHECKS):
        cat, tech, text, note = CHECKS[pid]
        checks.append({
            "property_id": pid,
            "quick_cmd": "./check %s --tier quick" % pid,
            "thorough_cmd": "./check %s --tier thorough" % pid,
            "evidence_file": "evidence/%s.json" % pid,
            "replay_cmd_template": "./check %s --replay {path}" % pid,
            "engine": "pyvc",
            "level_claimed": {"category": cat, "text": text, "design_ref": "DESIGN.md section 5, %s" % pid},
            "level_note": note,
            "technique": tech,
        })
    na = [{"property_id": pid, "reason": NOT_YET} for pid in sorted(TITLES) if pid not in CHECKS]
    man = {
        "version": 1,
        "setup_cmd": "./setup.sh",
        "hooks": {"guard": "PERSIM_VERIF", "enable": "no source hook exists: contracts are sidecar files under /verif/contracts and the checks read /repo's working tree directly",
                  "baseline_off_cmd": "cd /repo && /venv/bin/python -m pytest -ra -q -p no:cacheprovider --timeout=900 --continue-on-collection-errors",
                  "source_commits": [], "add_only": True},
        "engines": [
            {"name": "pyvc", "path": "pyvc/", "serves_properties": sorted(CHECKS),
             "kind_free_text": "E1: VC generator - symbolic interpreter over the ast of the real source with sidecar contracts and loop invariants; obligations discharged by z3 (python API, nlsat after Ackermann reduction) and cvc5"},
            {"name": "pysym", "path": "pysym/", "serves_properties": [],
             "kind_free_text": "E2: the real function objects executed by CPython on proxy numbers, all paths for concrete container sizes (bounded-symbolic, never counted as proved)"},
        ],
        "checks": checks,
        "not_applicable": na,
        "notes": "Exit codes of ./check: 0 held / 1 VIOLATION (with replay file) / 3 checker crash. Known findings and fixed defects: known_findings.json. Every check runs under two watchdogs (1500 s quick / 6 h thorough, VERIF_WATCHDOG_S overrides): a library call that has not returned by then is reported as a VIOLATION (no-failing-input-found), the checker's own code exceeding it as a crash (DESIGN 10.9). Regressions over scratch copies (never /repo): tools/seed_regression.py (165 seeded property-breaking changes), tools/benign_regression.py (32 behaviour-preserving patches, must stay quiet), tools/cross_regression.py, tools/mutation_sweep.py.",
    }
    with open(os.path.join(ROOT, "MANIFEST.json"), "w") as f:
        json.dump(man, f, indent=1)
    import jsonschema
    jsonschema.validate(man, json.load(open("/root/.vp/MANIFEST.schema.json")))
    print("MANIFEST.json written: %d checks, %d not_applicable" % (len(checks), len(na)))


if __name__ == "__main__":
    main()
