#!/usr/bin/env python3
"""regenerate MANIFEST.json from the table below (keeps it schema-valid by construction)"""
import json
import os

ROOT = os.path.dirname(os.path.dirname(os.path.abspath(__file__)))

TITLES = {}
for line in open(os.path.join(ROOT, "properties.jsonl")):
    p = json.loads(line)
    TITLES[p["id"]] = p["title"]

# id -> (category, technique, text, note)
CHECKS = {
    "C10": ("proof",
            "VCs generated from the AST of the real _p_norm (loop invariants with a recursively defined Sigma, per-segment NRA obligations) discharged by z3/cvc5; bounded run-time stand-in vs closed-form integral",
            "For p in {1,2,3,4} every path of the real _p_norm body is proved to add exactly the integral of |y|^p over the segment and the two loops to accumulate the double sum, for all real end-points, all numbers of depths and breakpoints. Real p, class entry points, norm laws and sup-norm stability are bounded stand-ins.",
            "floats as reals (A1); closed form = integral (calculus, numerically cross-checked); VC generator + models + contracts trusted; z3/cvc5"),
}

NOT_YET = "check not built yet in this session (planned per DESIGN.md section 5)"


def main():
    checks = []
    for pid in sorted(CHECKS):
        cat, tech, text, note = CHECKS[pid]
        checks.append({
            "property_id": pid,
            "quick_cmd": "./check %s --tier quick" % pid,
            "thorough_cmd": "./check %s --tier thorough" % pid,
            "evidence_file": "evidence/%s.json" % pid,
            "replay_cmd_template": "./check %s --replay {path}" % pid,
            "engine": "pyvc",
            "level_claimed": {"category": cat, "text": text, "design_ref": "DESIGN.md section 5, %s" % pid},
            "level_note": note,
            "technique": tech,
        })
    na = [{"property_id": pid, "reason": NOT_YET} for pid in sorted(TITLES) if pid not in CHECKS]
    man = {
        "version": 1,
        "setup_cmd": "./setup.sh",
        "hooks": {"guard": "PERSIM_VERIF", "enable": "no source hook exists: contracts are sidecar files under /verif/contracts and the checks read /repo's working tree directly",
                  "baseline_off_cmd": "cd /repo && /venv/bin/python -m pytest -ra -q -p no:cacheprovider --timeout=900 --continue-on-collection-errors",
                  "source_commits": [], "add_only": True},
        "engines": [
            {"name": "pyvc", "path": "pyvc/", "serves_properties": sorted(CHECKS),
             "kind_free_text": "E1: VC generator - symbolic interpreter over the ast of the real source with sidecar contracts and loop invariants; obligations discharged by z3 (python API, nlsat after Ackermann reduction) and cvc5"},
            {"name": "pysym", "path": "pysym/", "serves_properties": [],
             "kind_free_text": "E2: the real function objects executed by CPython on proxy numbers, all paths for concrete container sizes (bounded-symbolic, never counted as proved)"},
        ],
        "checks": checks,
        "not_applicable": na,
        "notes": "Exit codes of ./check: 0 held / 1 VIOLATION (with replay file) / 3 checker crash. Known findings and fixed defects: known_findings.json.",
    }
    with open(os.path.join(ROOT, "MANIFEST.json"), "w") as f:
        json.dump(man, f, indent=1)
    import jsonschema
    jsonschema.validate(man, json.load(open("/root/.vp/MANIFEST.schema.json")))
    print("MANIFEST.json written: %d checks, %d not_applicable" % (len(checks), len(na)))


if __name__ == "__main__":
    main()
