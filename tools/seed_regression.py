#!/usr/bin/env python3
"""Regression over every filed seeded change: for each seeded/<name>/ the package of the CURRENT /repo tree is copied to a scratch
directory outside /repo and /verif, the patch is applied there, and the property's quick check runs against that copy
(VERIF_REPO + PYTHONPATH point at it, VERIF_OUT keeps evidence / replay files of these runs away from /verif).  /repo is never touched.

usage: tools/seed_regression.py [-j N] [name-prefix ...]        prints one line per seed and a summary; exit 1 if a seed is not caught
"""
import concurrent.futures as cf
import json
import os
import shutil
import subprocess
import sys
import tempfile

ROOT = os.path.dirname(os.path.dirname(os.path.abspath(__file__)))
REPO = "/repo"


def one(name):
    d = os.path.join(ROOT, "seeded", name)
    meta = json.load(open(os.path.join(d, "meta.json")))
    pid = meta.get("check_property") or meta.get("property")
    if "_via" in name:
        pid = name.split("_via")[1]
    scratch = tempfile.mkdtemp(prefix="sr_%s_" % name, dir="/tmp")
    try:
        shutil.copytree(os.path.join(REPO, "persim"), os.path.join(scratch, "persim"))
        p = subprocess.run(["patch", "-p1", "-s", "--no-backup-if-mismatch", "-i", os.path.join(d, "patch.diff")], cwd=scratch, capture_output=True, text=True)
        if p.returncode != 0:
            return name, pid, "patch-does-not-apply", (p.stdout + p.stderr).strip().splitlines()[-1:] or [""]
        env = dict(os.environ, VERIF_REPO=scratch, PYTHONPATH=scratch, VERIF_OUT=os.path.join(scratch, "out"), VERIF_SEED="0")
        r = subprocess.run([os.path.join(ROOT, "check"), pid, "--tier", "quick"], cwd=ROOT, capture_output=True, text=True, env=env, timeout=3600)
        lines = [l for l in r.stdout.splitlines() if l.startswith(("VIOLATION", "  what", "OK", "CHECKER", "KNOWN"))]
        what = next((l.strip()[:150] for l in lines if l.startswith("  what")), "")
        caught = r.returncode == 1 and any(l.startswith("VIOLATION") for l in lines)
        try:
            ev = json.load(open(os.path.join(scratch, "out", "evidence", "%s.json" % pid)))
            nref = len(ev["coverage"].get("refuted", []))
            nund = len(ev["coverage"].get("undecided", []))
            why = ""
            if nund and not nref:
                why = " {undecided: %s}" % "; ".join(sorted({(u.get("reason") or "")[:90] for u in ev["coverage"]["undecided"]}))[:260]
            what = "[D:%d refuted, %d undecided] %s%s" % (nref, nund, what, why)
        except Exception:
            pass
        nc = os.path.join(d, "NOT_COUNTED")
        if os.path.exists(nc):
            # deliberately not a violation under the property as stated: the check must stay quiet on it
            return name, pid, ("quiet-as-expected" if not caught and r.returncode == 0 else "ALARM-ON-NOT-COUNTED rc=%d" % r.returncode), ["(not counted: %s)" % open(nc).read().strip()[:110]]
        return name, pid, ("caught" if caught else "NOT-CAUGHT rc=%d" % r.returncode), [what]
    finally:
        shutil.rmtree(scratch, ignore_errors=True)


def main():
    args = sys.argv[1:]
    jobs = 4
    if args and args[0] == "-j":
        jobs = int(args[1])
        args = args[2:]
    names = sorted(n for n in os.listdir(os.path.join(ROOT, "seeded")) if os.path.exists(os.path.join(ROOT, "seeded", n, "patch.diff")))
    if args:
        names = [n for n in names if any(n.startswith(a) for a in args)]
    bad = 0
    with cf.ThreadPoolExecutor(jobs) as ex:
        for name, pid, status, info in ex.map(one, names):
            print("%-22s %s %-24s %s" % (name, pid, status, info[0] if info else ""), flush=True)
            if status not in ("caught", "quiet-as-expected"):
                bad += 1
    print("seed regression: %d seeds, %d not caught / not applicable" % (len(names), bad))
    sys.exit(1 if bad else 0)


if __name__ == "__main__":
    main()
