#!/usr/bin/env python3
"""record the parameter names of every function / method of the package as they are on the tree the contracts were written against
(contracts/signatures.json).  A modular call that passes a parameter not recorded here is outside the callee's verified contract."""
import ast, json, os, sys
REPO = os.environ.get("VERIF_REPO", "/repo")
out = {}
for root, _d, files in os.walk(os.path.join(REPO, "persim")):
    for f in files:
        if not f.endswith(".py"):
            continue
        p = os.path.join(root, f)
        rel = os.path.relpath(p, REPO)
        tree = ast.parse(open(p).read())
        def visit(node, prefix):
            for n in node.body:
                if isinstance(n, (ast.FunctionDef, ast.AsyncFunctionDef)):
                    a = n.args
                    out["%s:%s%s" % (rel, prefix, n.name)] = [x.arg for x in a.posonlyargs + a.args + a.kwonlyargs]
                elif isinstance(n, ast.ClassDef):
                    visit(n, prefix + n.name + ".")
        visit(tree, "")
json.dump(out, open(os.path.join(os.path.dirname(os.path.abspath(__file__)), "..", "contracts", "signatures.json"), "w"), indent=0, sort_keys=True)
print(len(out), "signatures recorded")
