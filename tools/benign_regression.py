#!/usr/bin/env python3
"""No-false-alarm regression: every patch under benign/<group>/<n>.diff is a behaviour-preserving edit (checked bit for bit against the
original by a differential script when it was filed).  Each is applied to a scratch copy of /repo's package and the checks of the
properties that depend on the touched files are run against the copy: every one must exit 0 without a VIOLATION line.  Obligations
that became undecided (a loop contract or hint no longer matches the text) are reported, they are not alarms.

usage: tools/benign_regression.py [-j N] [--all-checks] [group-or-patch-prefix ...]
"""
import concurrent.futures as cf
import json
import os
import re
import shutil
import subprocess
import sys
import tempfile

ROOT = os.path.dirname(os.path.dirname(os.path.abspath(__file__)))
REPO = "/repo"
ALL = ["C%02d" % i for i in range(1, 21)]
BY_FILE = {"bottleneck.py": ["C01", "C06", "C07", "C19", "C20"], "wasserstein.py": ["C02", "C06", "C07", "C19", "C20"],
           "sliced_wasserstein.py": ["C15", "C19"], "heat.py": ["C14", "C19"], "persistent_entropy.py": ["C16", "C19"],
           "images.py": ["C04", "C11", "C12", "C18", "C19"], "images_kernels.py": ["C04", "C11", "C13", "C19"], "images_weights.py": ["C04", "C11", "C19"],
           "gromov_hausdorff.py": ["C05", "C17", "C19"], "visuals.py": ["C20", "C19"],
           "exact.py": ["C03", "C09", "C10", "C19"], "approximate.py": ["C08", "C09", "C10", "C18", "C19"], "base.py": ["C03", "C08", "C09", "C10"],
           "auxiliary.py": ["C03", "C09", "C10", "C19"], "tools.py": ["C08", "C09", "C19"], "transformer.py": ["C08", "C18", "C19"]}


def one(job):
    path, pid = job
    tag = os.path.relpath(path, os.path.join(ROOT, "benign"))
    scratch = tempfile.mkdtemp(prefix="bn_%s_" % pid, dir="/tmp")
    try:
        shutil.copytree(os.path.join(REPO, "persim"), os.path.join(scratch, "persim"))
        p = subprocess.run(["patch", "-p1", "-s", "--no-backup-if-mismatch", "-i", path], cwd=scratch, capture_output=True, text=True)
        if p.returncode != 0:
            return tag, pid, "patch-does-not-apply", ""
        env = dict(os.environ, VERIF_REPO=scratch, PYTHONPATH=scratch, VERIF_OUT=os.path.join(scratch, "out"), VERIF_SEED="0")
        r = subprocess.run([os.path.join(ROOT, "check"), pid, "--tier", "quick"], cwd=ROOT, capture_output=True, text=True, env=env, timeout=3600)
        out = r.stdout.splitlines()
        vio = [l for l in out if l.startswith("VIOLATION")]
        whats = [l.strip()[:200] for l in out if l.startswith("  what")]
        info = ""
        try:
            ev = json.load(open(os.path.join(scratch, "out", "evidence", "%s.json" % pid)))
            c = ev["coverage"]
            info = "%d/%d discharged, %d undecided" % (c["discharged"], c["obligations"], len(c.get("undecided", [])))
            if c.get("undecided"):
                info += " {%s}" % "; ".join(sorted({(u.get("reason") or "")[:80] for u in c["undecided"]}))[:300]
        except Exception:
            pass
        if r.returncode == 0 and not vio:
            return tag, pid, "quiet", info
        if r.returncode not in (0, 1):
            return tag, pid, "CRASH rc=%d" % r.returncode, (r.stdout + r.stderr)[-400:].replace("\n", " | ")
        return tag, pid, "FALSE-ALARM", " || ".join(whats[:3]) + " " + info
    finally:
        shutil.rmtree(scratch, ignore_errors=True)


def main():
    args = sys.argv[1:]
    jobs, allc = 4, False
    if args and args[0] == "-j":
        jobs = int(args[1])
        args = args[2:]
    if args and args[0] == "--all-checks":
        allc = True
        args = args[1:]
    base = os.path.join(ROOT, "benign")
    paths = sorted(os.path.join(dp, f) for dp, _dn, fn in os.walk(base) for f in fn if f.endswith(".diff"))
    if args:
        paths = [p for p in paths if any(os.path.relpath(p, base).startswith(a) for a in args)]
    work = []
    for p in paths:
        files = set(re.findall(r"^\+\+\+ b/(\S+)", open(p).read(), re.M))
        pids = set(ALL) if allc else set()
        for f in files:
            pids |= set(BY_FILE.get(os.path.basename(f), ALL))
        work += [(p, pid) for pid in sorted(pids)]
    bad = 0
    with cf.ThreadPoolExecutor(jobs) as ex:
        for tag, pid, status, info in ex.map(one, work):
            print("%-18s -> %s %-12s %s" % (tag, pid, status, info), flush=True)
            bad += status != "quiet"
    print("benign regression: %d (patch, check) pairs, %d not quiet" % (len(work), bad))
    sys.exit(1 if bad else 0)


if __name__ == "__main__":
    main()
