#!/usr/bin/env python3
"""Systematic first-order mutation sweep (detection probe, not a registered check).

For every function of the listed source files, simple mutants are generated from the AST (comparison / arithmetic / boolean operator
swaps, small constant changes, column-index swaps, negated conditions).  Each mutant is written into a scratch copy of the package
(outside /repo and /verif); the repository's own tests run against it first - only mutants that PASS all of them are of interest, they
are what the existing tests cannot see.  For those the checks of the properties that depend on the file run (quick tier) until one
reports a violation.  Survivors are listed for reading: an equivalent mutant, a behaviour outside every property, or a gap.

usage: tools/mutation_sweep.py [-j N] [--per-file K] [--seed S] [file-substring ...]        output: one line per mutant + summary
"""
import ast
import concurrent.futures as cf
import copy
import os
import random
import shutil
import subprocess
import sys
import tempfile

ROOT = os.path.dirname(os.path.dirname(os.path.abspath(__file__)))
REPO = "/repo"
sys.path.insert(0, os.path.join(ROOT, "tools"))
from benign_regression import BY_FILE        # noqa: E402

FILES = ["persim/bottleneck.py", "persim/wasserstein.py", "persim/sliced_wasserstein.py", "persim/heat.py", "persim/persistent_entropy.py",
         "persim/images.py", "persim/images_kernels.py", "persim/images_weights.py", "persim/gromov_hausdorff.py", "persim/visuals.py",
         "persim/landscapes/exact.py", "persim/landscapes/approximate.py", "persim/landscapes/base.py", "persim/landscapes/auxiliary.py",
         "persim/landscapes/tools.py", "persim/landscapes/transformer.py"]
SKIP_FUNCS = {"PersImage", "plot_landscape", "plot_landscape_simple", "plot_landscape_exact", "plot_landscape_approx", "plot_landscape_exact_simple",
              "plot_landscape_approx_simple", "__repr__", "plot_diagram", "plot_image", "show"}
CMP = {ast.Lt: ast.LtE, ast.LtE: ast.Lt, ast.Gt: ast.GtE, ast.GtE: ast.Gt, ast.Eq: ast.NotEq, ast.NotEq: ast.Eq}
BIN = {ast.Add: ast.Sub, ast.Sub: ast.Add, ast.Mult: ast.Div, ast.Div: ast.Mult, ast.FloorDiv: ast.Div}


def mutants_of(src):
    """yield (description, new_source)"""
    tree = ast.parse(src)
    sites = []

    def visit(node, fname):
        for ch in ast.iter_child_nodes(node):
            nm = fname
            if isinstance(ch, (ast.FunctionDef, ast.ClassDef)):
                if ch.name in SKIP_FUNCS:
                    continue
                nm = (fname + "." if fname else "") + ch.name
            if fname and isinstance(ch, ast.Expr) and isinstance(ch.value, ast.Constant) and isinstance(ch.value.value, str):
                continue                                    # docstrings
            if fname:
                if isinstance(ch, ast.Compare) and len(ch.ops) == 1 and type(ch.ops[0]) in CMP:
                    sites.append((ch, "cmp", nm))
                elif isinstance(ch, ast.BinOp) and type(ch.op) in BIN and not isinstance(ch.left, ast.Constant) or \
                        (isinstance(ch, ast.BinOp) and type(ch.op) in BIN and not isinstance(getattr(ch.left, "value", None), str)):
                    sites.append((ch, "bin", nm))
                elif isinstance(ch, ast.BoolOp):
                    sites.append((ch, "bool", nm))
                elif isinstance(ch, ast.Constant) and isinstance(ch.value, (int, float)) and not isinstance(ch.value, bool):
                    sites.append((ch, "const", nm))
                elif isinstance(ch, ast.If):
                    sites.append((ch, "if", nm))
                elif isinstance(ch, ast.UnaryOp) and isinstance(ch.op, ast.USub) and not isinstance(ch.operand, ast.Constant):
                    sites.append((ch, "neg", nm))
            visit(ch, nm)
    visit(tree, "")
    for idx, (node, kind, fn) in enumerate(sites):
        t2 = copy.deepcopy(tree)
        # locate the same node in the copy by position and type
        cand = [n for n in ast.walk(t2) if type(n) is type(node) and getattr(n, "lineno", None) == node.lineno and getattr(n, "col_offset", None) == node.col_offset
                and getattr(n, "end_col_offset", None) == node.end_col_offset]
        if not cand:
            continue
        n = cand[0]
        if kind == "cmp":
            n.ops = [CMP[type(n.ops[0])]()]
            d = "%s -> %s" % (type(node.ops[0]).__name__, type(n.ops[0]).__name__)
        elif kind == "bin":
            n.op = BIN[type(n.op)]()
            d = "%s -> %s" % (type(node.op).__name__, type(n.op).__name__)
        elif kind == "bool":
            n.op = ast.Or() if isinstance(n.op, ast.And) else ast.And()
            d = "and <-> or"
        elif kind == "const":
            v = node.value
            n.value = (1 - v) if v in (0, 1) else (v + 1 if isinstance(v, int) else v * 2)
            d = "const %r -> %r" % (v, n.value)
        elif kind == "if":
            n.test = ast.UnaryOp(op=ast.Not(), operand=n.test)
            d = "negated condition"
        elif kind == "neg":
            new = n.operand
            for parent in ast.walk(t2):
                for f, val in ast.iter_fields(parent):
                    if val is n:
                        setattr(parent, f, new)
                    elif isinstance(val, list) and n in val:
                        val[val.index(n)] = new
            d = "dropped unary minus"
        ast.fix_missing_locations(t2)
        try:
            out = ast.unparse(t2)
        except Exception:
            continue
        yield "%s line %d: %s (%s)" % (fn, node.lineno, d, ast.unparse(node)[:60].replace("\n", " ")), out


def _run(cmd, timeout, **kw):
    """subprocess.run with the whole process group killed on timeout (a mutant may loop forever inside a worker pool whose
    grandchildren would otherwise keep the pipes open)"""
    import signal
    p = subprocess.Popen(cmd, stdout=subprocess.PIPE, stderr=subprocess.STDOUT, text=True, start_new_session=True, **kw)
    try:
        out, _ = p.communicate(timeout=timeout)
        return p.returncode, out
    except subprocess.TimeoutExpired:
        try:
            os.killpg(p.pid, signal.SIGKILL)
        except OSError:
            pass
        try:
            p.communicate(timeout=10)
        except Exception:
            pass
        return None, ""


def evaluate(job):
    relfile, desc, newsrc = job
    scratch = tempfile.mkdtemp(prefix="mu_", dir="/tmp")
    try:
        shutil.copytree(os.path.join(REPO, "persim"), os.path.join(scratch, "persim"))
        shutil.copytree(os.path.join(REPO, "test"), os.path.join(scratch, "test"))
        with open(os.path.join(scratch, relfile), "w") as f:
            f.write(newsrc)
        env = dict(os.environ, PYTHONPATH=scratch, MPLBACKEND="Agg")
        rc, _out = _run(["/venv/bin/python", "-m", "pytest", "-x", "-q", "-p", "no:cacheprovider", "--timeout=120", "test"], 600, cwd=scratch, env=env)
        if rc is None:
            return relfile, desc, "killed-by-tests(timeout)", ""
        if rc != 0:
            return relfile, desc, "killed-by-tests", ""
        env2 = dict(os.environ, VERIF_REPO=scratch, PYTHONPATH=scratch, VERIF_OUT=os.path.join(scratch, "out"), VERIF_SEED="0")
        notes = []
        for pid in BY_FILE.get(os.path.basename(relfile), []):
            rc, out = _run([os.path.join(ROOT, "check"), pid, "--tier", "quick"], 1200, cwd=ROOT, env=env2)
            if rc is None:
                notes.append("%s:timeout" % pid)
                continue
            if rc == 1 and "VIOLATION" in out:
                what = next((l.strip()[:140] for l in out.splitlines() if l.startswith("  what")), "")
                return relfile, desc, "caught-by-%s" % pid, what
            if rc not in (0, 1):
                notes.append("%s:rc=%d" % (pid, rc))
        return relfile, desc, "SURVIVED", " ".join(notes)
    finally:
        shutil.rmtree(scratch, ignore_errors=True)


def main():
    args = sys.argv[1:]
    jobs, per_file, seed = 5, 25, 1
    while args and args[0].startswith("-"):
        if args[0] == "-j":
            jobs = int(args[1])
        elif args[0] == "--per-file":
            per_file = int(args[1])
        elif args[0] == "--seed":
            seed = int(args[1])
        args = args[2:]
    rng = random.Random(seed)
    work = []
    for rel in FILES:
        if args and not any(a in rel for a in args):
            continue
        src = open(os.path.join(REPO, rel)).read()
        ms = list(mutants_of(src))
        rng.shuffle(ms)
        work += [(rel, d, s) for d, s in ms[:per_file]]
    stats = {}
    with cf.ThreadPoolExecutor(jobs) as ex:
        for rel, desc, status, info in ex.map(evaluate, work):
            key = status.split("-by-")[0] if status.startswith("caught") else status
            stats[key] = stats.get(key, 0) + 1
            print("%-34s %-22s %s %s" % (rel, status, desc, ("| " + info) if info else ""), flush=True)
    print("mutation sweep:", ", ".join("%s=%d" % kv for kv in sorted(stats.items())))


if __name__ == "__main__":
    main()
