#!/bin/bash
# run every registered quick check on the current (unchanged) tree under several seeds; prints only the runs that are not a plain OK.
# usage: tools/seed_sweep.sh "1 2 3" [ids...]     (evidence files are rewritten by the last run of each id)
cd "$(dirname "$0")/.."
seeds=${1:-"1 2 3"}; shift
ids=${@:-$(python3 -c "import json;print(' '.join(c['property_id'] for c in json.load(open('MANIFEST.json'))['checks']))")}
for id in $ids; do
  for sd in $seeds; do
    out=$(VERIF_SEED=$sd timeout 1800 ./check $id --tier quick 2>&1); rc=$?
    if [ $rc -ne 0 ] || echo "$out" | grep -q "^VIOLATION"; then
      echo "$id seed=$sd rc=$rc :: $(echo "$out" | grep -E "^(VIOLATION|  what|CHECKER|VACUOUS)" | head -4 | cut -c1-300 | tr '\n' ' ')"
    fi
  done
done
echo "seed sweep done: seeds [$seeds]"
