"""E2: bounded-symbolic execution of the *real* function objects by CPython on proxy numbers.

SR wraps a z3 real term and overloads arithmetic; comparisons return SB whose truth value is decided by the
explorer: both outcomes that are feasible under the accumulated path condition are explored (re-execution with a
decision prefix).  Container sizes are concrete (the stated bound); contents range over all reals.  Every feasible
path of the real code is run; one obligation per path.  Results are always labelled *bounded*.
"""
import math
from fractions import Fraction

import z3

CUR = None


class Abort(Exception):
    """path infeasible / explorer stop"""


def lift(x):
    if isinstance(x, SR):
        return x.t
    if isinstance(x, bool):
        return z3.RealVal(int(x))
    if isinstance(x, int):
        return z3.RealVal(x)
    if isinstance(x, float):
        if math.isinf(x) or x != x:
            raise TypeError("non-finite constant in proxy arithmetic")
        n, d = x.as_integer_ratio()
        return z3.Q(n, d)
    if isinstance(x, Fraction):
        return z3.Q(x.numerator, x.denominator)
    try:
        import numpy as np
        if isinstance(x, np.generic):
            return lift(x.item())
    except ImportError:
        pass
    raise TypeError("cannot lift %r" % type(x).__name__)


def _num(x):
    return isinstance(x, (SR, int, float, Fraction)) or type(x).__module__ == "numpy" and hasattr(x, "item") and getattr(x, "ndim", 1) == 0


class SR:
    __slots__ = ("t",)

    def __init__(self, t):
        self.t = t

    def _b(self, o, f, r=False):
        if not _num(o):
            return NotImplemented
        if isinstance(o, float) and math.isinf(o):
            return NotImplemented
        a, b = (lift(o), self.t) if r else (self.t, lift(o))
        return SR(z3.simplify(f(a, b)))

    def __add__(self, o): return self._b(o, lambda a, b: a + b)
    def __radd__(self, o): return self._b(o, lambda a, b: a + b, True)
    def __sub__(self, o): return self._b(o, lambda a, b: a - b)
    def __rsub__(self, o): return self._b(o, lambda a, b: a - b, True)
    def __mul__(self, o): return self._b(o, lambda a, b: a * b)
    def __rmul__(self, o): return self._b(o, lambda a, b: a * b, True)
    def __truediv__(self, o): return self._b(o, lambda a, b: a / b)
    def __rtruediv__(self, o): return self._b(o, lambda a, b: a / b, True)
    def __neg__(self): return SR(-self.t)
    def __pos__(self): return self
    def __abs__(self): return SR(z3.If(self.t >= 0, self.t, -self.t))

    def _c(self, o, f):
        if isinstance(o, float) and math.isinf(o):
            # comparisons against +-inf are decided without the solver (proxies are finite reals)
            return f(0.0, o)
        if not _num(o):
            return NotImplemented
        return SB(z3.simplify(f(self.t, lift(o))))

    def __lt__(self, o): return self._c(o, lambda a, b: a < b)
    def __le__(self, o): return self._c(o, lambda a, b: a <= b)
    def __gt__(self, o): return self._c(o, lambda a, b: a > b)
    def __ge__(self, o): return self._c(o, lambda a, b: a >= b)

    def __eq__(self, o):
        r = self._c(o, lambda a, b: a == b)
        return False if r is NotImplemented else r

    def __ne__(self, o):
        r = self._c(o, lambda a, b: a != b)
        return True if r is NotImplemented else r

    def __hash__(self):
        return id(self)

    def __bool__(self):
        return bool(self != 0)

    def __float__(self):
        raise TypeError("float() of a symbolic proxy (the code needs a concrete number here)")

    def __repr__(self):
        return "SR(%s)" % self.t


class SB:
    __slots__ = ("t",)

    def __init__(self, t):
        self.t = t

    def __bool__(self):
        return CUR.decide(self.t)

    def __repr__(self):
        return "SB(%s)" % self.t


class Explorer:
    def __init__(self, timeout_ms=5000):
        self.timeout_ms = timeout_ms
        self.solver = None
        self.decisions = []
        self.pos = 0
        self.pending = []
        self.n_paths = 0

    def decide(self, t):
        if z3.is_true(t):
            return True
        if z3.is_false(t):
            return False
        s = self.solver
        can_t = s.check(t) != z3.unsat
        can_f = s.check(z3.Not(t)) != z3.unsat
        if can_t and not can_f:
            return True
        if can_f and not can_t:
            return False
        if not can_t and not can_f:
            raise Abort()
        if self.pos < len(self.decisions):
            d = self.decisions[self.pos]
        else:
            d = True
            self.decisions.append(True)
            self.pending.append(self.decisions[:self.pos] + [False])
        self.pos += 1
        s.add(t if d else z3.Not(t))
        self.pc.append(t if d else z3.Not(t))
        return d

    def explore(self, run_one, assumptions=(), max_paths=100000, budget_s=None, prefixes=None):
        """run_one() executes the real code on proxies and returns a result; yields (path_condition, result | exception)"""
        import time
        global CUR
        t0 = time.time()
        self.pending = [list(p) for p in prefixes] if prefixes else [[]]
        self.exhaustive = True
        while self.pending:
            if self.n_paths >= max_paths or (budget_s and time.time() - t0 > budget_s):
                self.exhaustive = False
                break
            prefix = self.pending.pop()
            self.decisions = list(prefix)
            self.pos = 0
            self.solver = z3.Solver()
            self.solver.set("timeout", self.timeout_ms)
            self.pc = list(assumptions)
            self.solver.add(*assumptions)
            CUR = self
            try:
                res = run_one()
                out = ("ok", res)
            except Abort:
                continue
            except Exception as ex:        # the real code raised on this path
                out = ("raise", ex)
            finally:
                CUR = None
            self.n_paths += 1
            yield list(self.pc), list(self.decisions[:self.pos]), out
