#!/bin/bash
# Build /verif/.venv offline: python 3.12 (same interpreter as /venv, so the repo's
# numpy/scipy/sklearn/matplotlib and the editable install of /repo are visible through
# a .pth overlay) plus z3-solver, cvc5, crosshair, deal, icontract, hypothesis, jsonschema,
# sympy/mpmath from the offline wheelhouse.  Idempotent.
set -e
cd "$(dirname "$0")"
V=.venv
if [ ! -x "$V/bin/python" ] || ! "$V/bin/python" -c "import z3, cvc5, numpy, persim, deal, hypothesis, jsonschema, mpmath" 2>/dev/null; then
  rm -rf "$V"
  /venv/bin/python -m venv "$V"
  PIP_NO_INDEX=1 "$V/bin/pip" install -q --no-index --find-links /opt/veriftools/wheels \
      z3-solver cvc5 crosshair-tool deal icontract hypothesis jsonschema sympy >/dev/null
  SP=$("$V/bin/python" -c "import sysconfig;print(sysconfig.get_paths()['purelib'])")
  echo "import site; site.addsitedir('/venv/lib/python3.12/site-packages')" > "$SP/_overlay_repo_venv.pth"
fi
"$V/bin/python" -c "import z3, cvc5, numpy, scipy, sklearn, persim, deal, hypothesis, jsonschema, mpmath; print('verif venv ok: z3', z3.get_version_string(), 'numpy', numpy.__version__, 'persim from', persim.__file__)"
mkdir -p .work evidence replay
# smoke run of the CPython cross-check of the VC generator's Python/NumPy models (concrete mode vs the real functions)
PYTHONWARNINGS=ignore "$V/bin/python" selftest/crosscheck.py 2 2>/dev/null | tail -1 || echo "cross-check reported disagreements (see selftest/crosscheck.py)"
