#!/usr/bin/env python3
"""Mutation self-test of the VC generator (not a registered check).

usage: mutate.py <contracts module> <repo file> <old text> <new text> [filter]
Copies /repo/persim to a scratch directory outside /repo and /verif, applies the textual edit, points the
engine at the copy (VERIF_REPO) and prints the verdict per obligation label.  Scratch is removed afterwards.
"""
import importlib
import json
import os
import shutil
import sys
import tempfile

ROOT = os.path.dirname(os.path.dirname(os.path.abspath(__file__)))
sys.path.insert(0, ROOT)


def run(modname, relfile, old, new, flt=None, quiet=False):
    tmp = tempfile.mkdtemp(prefix="verif_mut_")
    try:
        shutil.copytree("/repo/persim", os.path.join(tmp, "persim"))
        p = os.path.join(tmp, relfile)
        s = open(p).read()
        occ = 1
        if "@@" in old:
            old, k = old.rsplit("@@", 1)
            occ = int(k)
        if s.count(old) < occ:
            raise SystemExit("pattern not found in %s: %r" % (relfile, old))
        pos = -1
        for _ in range(occ):
            pos = s.index(old, pos + 1)
        open(p, "w").write(s[:pos] + new + s[pos + len(old):])
        os.environ["VERIF_REPO"] = tmp
        import pyvc.engine as E
        E.REPO = tmp
        from pyvc.run import verify_all
        mod = importlib.import_module(modname)
        cs, table = mod.all_contracts("quick")
        if flt:
            cs = [c for c in cs if flt in c.qualname + "[" + c.variant + "]"]
        res = verify_all(cs, table, timeout_ms=10000)
        bad = []
        for r in res:
            if r["undecided_reason"] or r["error"]:
                bad.append((r["qualname"], "UNDECIDED-FUNCTION", r["undecided_reason"] or r["error"][-300:]))
            for o in r["obs"]:
                if o["status"] != "discharged":
                    bad.append((o["name"] + "[" + r["variant"] + "]", o["status"], o["cls"]))
        if not quiet:
            for b in sorted(set(bad)):
                print("  ", b)
            print("verdict:", "CAUGHT" if any(b[1] == "refuted" for b in bad) else ("UNDECIDED" if bad else "GREEN"))
        return bad
    finally:
        shutil.rmtree(tmp, ignore_errors=True)


if __name__ == "__main__":
    run(*sys.argv[1:6])
