#!/usr/bin/env python3
"""Cross-check of the smaller NumPy models (sign, clip, diag, mean, hypot, full, logical_*, operator aliases, transpose, fill,
shape queries) against NumPy itself: tiny functions are written to a scratch module, executed by the VC engine in concrete mode and by
CPython, and the results compared.  usage: VERIF_REPO is set by this script; run with /verif/.venv/bin/python.  exit 0 = all agree"""
import os
import shutil
import subprocess
import sys
import tempfile

ROOT = os.path.dirname(os.path.dirname(os.path.abspath(__file__)))
SRC = '''import numpy as np

def f_sign(a): return np.sign(a)
def f_clip(a): return np.clip(a, -1, 2.5)
def f_clip2(a): return a.clip(0, None)
def f_diag2(m): return np.diag(m)
def f_diag1(a): return np.diag(a)
def f_diagm(m): return m.diagonal()
def f_mean(a): return np.mean(a)
def f_hyp(a, b): return np.hypot(a, b)
def f_full(a): return np.full((2, 3), 7)
def f_ol(a): return np.ones_like(a)
def f_lor(a): return np.logical_or(a > 1, a < 0)
def f_lnot(a): return np.logical_not(a > 1)
def f_sub(a, b): return np.subtract(a, b) + np.add(a, b) * np.negative(b)
def f_pow(a): return np.power(a, 2)
def f_tr(m): return np.transpose(m)
def f_fill(a):
    b = a.copy()
    b.fill(3)
    return b
def f_isnan(a): return np.isnan(a)
def f_shape(m): return np.shape(m)[0] + np.ndim(m) + np.size(m)
'''
DRIVER = '''
import sys
sys.path.insert(0, %r); sys.path.insert(0, %r)
import numpy as np
import crosscheck as cc
import persim.tmpmod as T
a = np.array([1.5, -2.0, 0.0, 3.25]); b = np.array([0.5, 4.0, -1.0, 2.0]); ai = np.array([3, -1, 0, 2])
m = np.array([[1.0, 2.0, 3.0], [4.0, 5.0, 6.0], [7.5, 8.0, 9.0]])
tests = [("f_sign", [a]), ("f_sign", [ai]), ("f_clip", [a]), ("f_clip2", [a]), ("f_diag2", [m]), ("f_diag1", [a]), ("f_diagm", [m]), ("f_mean", [a]),
         ("f_hyp", [a, b]), ("f_full", [a]), ("f_ol", [ai]), ("f_lor", [a]), ("f_lnot", [a]), ("f_sub", [a, b]), ("f_pow", [a]), ("f_tr", [m]),
         ("f_fill", [a]), ("f_isnan", [a]), ("f_shape", [m])]
bad = 0
for name, args in tests:
    want = getattr(T, name)(*[x.copy() for x in args])
    want = want.tolist() if isinstance(want, np.ndarray) else want
    try:
        r = cc.run_model("persim/tmpmod.py", name, args)
    except Exception as ex:
        r = ("exc", repr(ex))
    ok = r[0] == "ok" and cc.close(r[1], want)
    print(name, "agrees" if ok else "MISMATCH %%r vs %%r" %% (r[:2], want))
    bad += not ok
sys.exit(1 if bad else 0)
'''


def main():
    scratch = tempfile.mkdtemp(prefix="npm_", dir="/tmp")
    try:
        os.makedirs(os.path.join(scratch, "persim"))
        open(os.path.join(scratch, "persim", "__init__.py"), "w").close()
        with open(os.path.join(scratch, "persim", "tmpmod.py"), "w") as f:
            f.write(SRC)
        env = dict(os.environ, VERIF_REPO=scratch, PYTHONPATH=scratch + ":" + ROOT)
        r = subprocess.run([sys.executable, "-c", DRIVER % (os.path.join(ROOT, "selftest"), ROOT)], env=env)
        return r.returncode
    finally:
        shutil.rmtree(scratch, ignore_errors=True)


if __name__ == "__main__":
    sys.exit(main())
