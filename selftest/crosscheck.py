#!/usr/bin/env python3
"""CPython cross-check of the VC generator (DESIGN 2.8): the interpreter + library models are run in *concrete* mode (all values
numerals, every branch decided) on the real source of a function and the result is compared with CPython/NumPy executing the same
function.  Disagreement = the encoding of Python/NumPy semantics is wrong somewhere (not a property violation).

usage: crosscheck.py [n_inputs_per_function]      exit 0 = all agree
"""
import math
import os
import random
import sys
import warnings

ROOT = os.path.dirname(os.path.dirname(os.path.abspath(__file__)))
sys.path.insert(0, ROOT)

import numpy as np          # noqa: E402
import z3                   # noqa: E402

from pyvc import values as V                                   # noqa: E402
from pyvc.arrays import Arr, SymSeq, from_nested               # noqa: E402
from pyvc.engine import Contract, Engine, Obj, PyRaise         # noqa: E402


def to_model(x):
    if isinstance(x, np.ndarray):
        if x.size == 0:
            return Arr(tuple(x.shape), lambda idx: 0.0, dtype="float")
        return from_nested(x.tolist(), dtype=("int" if x.dtype.kind in "iu" else "float"))
    if isinstance(x, (list, tuple)):
        return type(x)(to_model(v) for v in x)
    if isinstance(x, dict):
        return {k: to_model(v) for k, v in x.items()}
    if isinstance(x, (np.floating, np.integer)):
        return x.item()
    return x


_UF = {"uf_sqrt": math.sqrt, "uf_exp": math.exp, "uf_log": math.log, "uf_sin": math.sin, "uf_cos": math.cos, "uf_arcsin": math.asin,
       "uf_erfc": math.erfc}


def eval_float(t, cache=None):
    """numeric value of a closed z3 term built by the models in concrete mode (pi, cos(pi/4), sqrt/exp/erfc ... get their real values)"""
    cache = {} if cache is None else cache
    k = t.get_id()
    if k in cache:
        return cache[k]
    if z3.is_int_value(t):
        v = t.as_long()
    elif z3.is_rational_value(t):
        v = t.numerator_as_long() / t.denominator_as_long()
    elif z3.is_true(t):
        v = True
    elif z3.is_false(t):
        v = False
    else:
        d = t.decl()
        name, kind = d.name(), d.kind()
        ch = [eval_float(c, cache) for c in t.children()]
        if kind == z3.Z3_OP_UNINTERPRETED:
            if name == "pi":
                v = math.pi
            elif name == "half_sqrt2":
                v = math.sqrt(0.5)
            elif name in _UF:
                v = _UF[name](ch[0])
            elif name == "uf_pow":
                v = ch[0] ** ch[1]
            else:
                raise ValueError("uninterpreted symbol %s in concrete mode" % name)
        elif kind == z3.Z3_OP_ADD:
            v = sum(ch)
        elif kind == z3.Z3_OP_SUB:
            v = ch[0] - sum(ch[1:])
        elif kind == z3.Z3_OP_UMINUS:
            v = -ch[0]
        elif kind == z3.Z3_OP_MUL:
            v = 1
            for c in ch:
                v = v * c
        elif kind in (z3.Z3_OP_DIV, z3.Z3_OP_IDIV):
            v = ch[0] / ch[1] if kind == z3.Z3_OP_DIV else ch[0] // ch[1]
        elif kind == z3.Z3_OP_TO_REAL:
            v = ch[0]
        elif kind == z3.Z3_OP_TO_INT:
            v = math.floor(ch[0])
        elif kind == z3.Z3_OP_ITE:
            v = ch[1] if ch[0] else ch[2]
        elif kind == z3.Z3_OP_LE:
            v = ch[0] <= ch[1]
        elif kind == z3.Z3_OP_LT:
            v = ch[0] < ch[1]
        elif kind == z3.Z3_OP_GE:
            v = ch[0] >= ch[1]
        elif kind == z3.Z3_OP_GT:
            v = ch[0] > ch[1]
        elif kind == z3.Z3_OP_EQ:
            v = ch[0] == ch[1]
        elif kind == z3.Z3_OP_DISTINCT:
            v = ch[0] != ch[1]
        elif kind == z3.Z3_OP_AND:
            v = all(ch)
        elif kind == z3.Z3_OP_OR:
            v = any(ch)
        elif kind == z3.Z3_OP_NOT:
            v = not ch[0]
        elif kind == z3.Z3_OP_POWER:
            v = ch[0] ** ch[1]
        else:
            raise ValueError("operator %s in concrete mode" % name)
    cache[k] = v
    return v


def from_model(x):
    if isinstance(x, Arr):
        if not all(isinstance(d, int) for d in x.shape):
            raise ValueError("symbolic shape in concrete mode")
        if x.ndim == 0:
            return from_model(x.get())
        def rec(pre, axes):
            if not axes:
                return from_model(x.get(*pre))
            return [rec(pre + (i,), axes[1:]) for i in range(axes[0])]
        return rec((), list(x.shape))
    if isinstance(x, SymSeq):
        return [from_model(x.get(i)) for i in range(x.n)]
    if isinstance(x, (list, tuple)):
        return [from_model(v) for v in x]
    if isinstance(x, V.Num):
        c = V.conc_of(x)
        if c is None:
            return float(eval_float(x.t))
        return float(c)
    if isinstance(x, V.BoolV):
        return bool(eval_float(x.t))
    if isinstance(x, (bool, int, float)):
        return x
    if hasattr(x, "numerator"):
        return float(x)
    return x


def close(a, b, tol=1e-9):
    if isinstance(a, (list, tuple)) or isinstance(b, (list, tuple)):
        a, b = list(a), list(b)
        return len(a) == len(b) and all(close(x, y, tol) for x, y in zip(a, b))
    if a is None or b is None:
        return a is b
    try:
        a, b = float(a), float(b)
    except (TypeError, ValueError):
        return a == b
    if math.isinf(a) or math.isinf(b):
        return a == b
    return abs(a - b) <= tol * max(1.0, abs(a), abs(b))


def run_model(module, qualname, args, kwargs=None, table=None):
    eng = Engine(contracts=table or {})
    V.ENGINE = eng
    eng.solver = eng.new_solver()
    eng.path_assumptions, eng.decisions, eng.dpos, eng.pending = [], [], 0, []
    eng.top_key = (module, qualname)
    eng.cur_contract = Contract(module, qualname, None, definedness="assume")
    try:
        f = eng.module(module).find_function(qualname)
        return ("ok", from_model(eng.call_function(f, [to_model(a) for a in args], {k: to_model(v) for k, v in (kwargs or {}).items()}, top=True)), eng)
    except PyRaise as ex:
        return ("raise", ex.typ, eng)
    finally:
        V.ENGINE = None


def dg(rng, n, inf=False):
    out = []
    for _ in range(n):
        b = round(rng.uniform(-2, 4), 3)
        out.append([b, b + round(rng.uniform(0.1, 3), 3)])
    a = np.array(out, dtype=float).reshape(-1, 2)
    if inf and n:
        a[rng.randrange(n), 1] = np.inf
    return a


def targets(rng):
    import importlib
    import persim
    aux = importlib.import_module("persim.landscapes.auxiliary")
    heat = importlib.import_module("persim.heat")
    sw = importlib.import_module("persim.sliced_wasserstein")
    pe = importlib.import_module("persim.persistent_entropy")
    ik = importlib.import_module("persim.images_kernels")
    iw = importlib.import_module("persim.images_weights")
    im = importlib.import_module("persim.images")
    gh = importlib.import_module("persim.gromov_hausdorff")

    def cps():
        out = []
        for _ in range(rng.randint(1, 3)):
            k = rng.randint(2, 5)
            xs = sorted({round(rng.uniform(0, 6), 2) for _i in range(k + 3)})[:k]
            out.append([[x, round(rng.uniform(-2, 2), 2)] for x in xs])
        return out
    T = []
    T.append(("persim/landscapes/auxiliary.py", "_p_norm", aux._p_norm, lambda: ((), {"p": rng.choice([1, 2, 3]), "critical_pairs": cps()})))
    T.append(("persim/landscapes/auxiliary.py", "pos_to_slope_interp", aux.pos_to_slope_interp, lambda: ((cps()[0],), {})))
    T.append(("persim/landscapes/auxiliary.py", "union_vals", lambda A, B: [x.tolist() for x in aux.union_vals(A, B)], lambda: ((np.round(np.random.rand(rng.randint(1, 3), 4), 3), np.round(np.random.rand(rng.randint(1, 3), 4), 3)), {})))
    T.append(("persim/heat.py", "evalHeatKernel", heat.evalHeatKernel, lambda: ((dg(rng, rng.randint(0, 3)), dg(rng, rng.randint(1, 3)), rng.choice([0.3, 1.0])), {})))
    T.append(("persim/heat.py", "heat", heat.heat, lambda: ((dg(rng, rng.randint(1, 3)), dg(rng, rng.randint(1, 3)), rng.choice([0.3, 1.0])), {})))
    T.append(("persim/sliced_wasserstein.py", "sliced_wasserstein", sw.sliced_wasserstein, lambda: ((dg(rng, rng.randint(1, 3)), dg(rng, rng.randint(1, 3))), {"M": rng.choice([1, 3, 4])})))
    T.append(("persim/persistent_entropy.py", "persistent_entropy", lambda *a, **k: pe.persistent_entropy(*a, **k).tolist(),
              lambda: ((dg(rng, rng.randint(3, 4), inf=rng.random() < 0.5),), rng.choice([{}, {"normalize": True}, {"keep_inf": True, "val_inf": 9.0}]))))
    T.append(("persim/images_kernels.py", "uniform", lambda *a, **k: ik.uniform(*a, **k).tolist(), lambda: ((np.round(np.random.rand(4) * 3, 2), np.round(np.random.rand(4) * 3, 2)), {"mu": np.array([1.0, 1.5]), "width": 1.0, "height": 2.0})))
    T.append(("persim/images_kernels.py", "sbvn_cdf", lambda *a, **k: ik.sbvn_cdf(*a, **k).tolist(), lambda: ((np.round(np.random.rand(4) * 3, 2), np.round(np.random.rand(4) * 3, 2)), {"mu_x": 1.0, "mu_y": 0.5, "sigma_x": 0.49, "sigma_y": 2.25})))
    T.append(("persim/images_kernels.py", "bvn_cdf", lambda *a, **k: ik.bvn_cdf(*a, **k).tolist(),
              lambda: ((np.round(np.random.rand(3) * 4 - 1, 2), np.round(np.random.rand(3) * 4 - 1, 2)), {"mu_x": 1.0, "mu_y": 0.5, "sigma_xx": 1.0, "sigma_yy": 4.0, "sigma_xy": rng.choice([0.4, 1.2, -1.0, 1.9, -1.9])})))
    T.append(("persim/images_weights.py", "linear_ramp", lambda *a, **k: iw.linear_ramp(*a, **k).tolist(), lambda: ((np.round(np.random.rand(4), 2), np.round(np.random.rand(4) * 3, 2)), {"low": 0.0, "high": 2.0, "start": 0.5, "end": 2.0})))

    def tr_args():
        d = dg(rng, rng.randint(1, 3))
        return ((d,), {"skew": rng.random() < 0.5, "resolution": (2, 3), "weight": iw.persistence, "weight_params": {"n": 1.0},
                       "kernel": rng.choice([ik.gaussian, ik.uniform]), "kernel_params": None, "_bpnts": np.array([0.0, 1.0, 2.0]), "_ppnts": np.array([0.0, 1.0, 2.0, 3.0])})
    T.append(("persim/images.py", "_transform", "_transform-special", tr_args))
    T.append(("persim/gromov_hausdorff.py", "determine_optimal_int_type", lambda v: gh.determine_optimal_int_type(v).__name__, lambda: ((rng.choice([3, 200, 40000, 3e9]),), {})))
    return T


def main():
    V.CONCRETE_EVAL = lambda v: float(eval_float(V.lift(v).t)) if not isinstance(v, (int, float)) else float(v)
    n = int(sys.argv[1]) if len(sys.argv) > 1 else 8
    rng = random.Random(1)
    np.random.seed(1)
    import importlib
    ik = importlib.import_module("persim.images_kernels")
    iw = importlib.import_module("persim.images_weights")
    im = importlib.import_module("persim.images")
    bad, total = [], 0
    with warnings.catch_warnings():
        warnings.simplefilter("ignore")
        for module, qual, real, mk in targets(rng):
            ok = 0
            for _ in range(n):
                args, kwargs = mk()
                total += 1
                try:
                    if real == "_transform-special":
                        kw = dict(kwargs)
                        is_gauss = kw["kernel"] is ik.gaussian
                        kw["kernel_params"] = {"sigma": rng.choice([0.5, [[0.5, 0.0], [0.0, 0.5]], [[0.5, 0.0], [0.0, 1.5]], [[1.0, 0.4], [0.4, 2.0]]])} if is_gauss else {"width": 1.0, "height": 2.0}
                        want = im._transform(*args, **kw).tolist()
                        eng0 = Engine()
                        mkw = dict(kw)
                        km, wm = eng0.module("persim/images_kernels.py"), eng0.module("persim/images_weights.py")
                        # the model must receive the *interpreted* kernel / weight functions
                        st, got, _e = run_model_with(eng0, module, qual, args, mkw, {"kernel": km.lookup("gaussian" if is_gauss else "uniform"), "weight": wm.lookup("persistence")})
                    else:
                        want = real(*args, **kwargs)
                        st, got, _e = run_model(module, qual, args, kwargs)
                    if isinstance(want, np.ndarray):
                        want = want.tolist()
                    if isinstance(want, (np.floating, np.integer)):
                        want = want.item()
                    if qual == "determine_optimal_int_type":
                        got = getattr(got, "name", got)
                    tol = 1e-6 if qual == "sliced_wasserstein" else 1e-9      # the real code stores its direction vectors in float32 (A1: reals)
                    if st == "ok" and close(got, want, tol):
                        ok += 1
                    else:
                        bad.append((qual, repr(args)[:200], repr(kwargs)[:160], repr(got)[:160], repr(want)[:160]))
                except Exception as ex:
                    bad.append((qual, repr(args)[:200], repr(kwargs)[:160], "EXC " + repr(ex)[:200], ""))
            print("%-34s %d/%d agree" % (qual, ok, n))
    for b in bad[:12]:
        print("DISAGREE", b)
    print("cross-check: %d/%d agree" % (total - len(bad), total))
    return 0 if not bad else 1


def run_model_with(eng, module, qualname, args, kwargs, replace):
    V.ENGINE = eng
    eng.solver = eng.new_solver()
    eng.path_assumptions, eng.decisions, eng.dpos, eng.pending = [], [], 0, []
    eng.top_key = (module, qualname)
    eng.cur_contract = Contract(module, qualname, None, definedness="assume")
    try:
        f = eng.module(module).find_function(qualname)
        kw = {k: to_model(v) for k, v in kwargs.items()}
        kw.update(replace)
        return ("ok", from_model(eng.call_function(f, [to_model(a) for a in args], kw, top=True)), eng)
    except PyRaise as ex:
        return ("raise", ex.typ, eng)
    finally:
        V.ENGINE = None


if __name__ == "__main__":
    sys.exit(main())
