"""E1: verification-condition generator.  A symbolic interpreter over the `ast` of the *real* source
(re-read from /repo on every run), with sidecar contracts.  See DESIGN.md section 2.1.

Path exploration is by re-execution with a decision prefix: every branch on a symbolic condition whose two
sides are both feasible under the path condition consumes one decision; unexplored alternatives are queued.
Loops with a symbolic trip count need a LoopContract (invariant / variant); calls to repo functions that
have a Contract are modular (assert pre, havoc, assume post).
"""
import ast
import itertools
import os
import time

import z3

from . import values as V
from .values import BoolV, Num, Unsupported, b_and, b_not, b_or, conc_of, is_num, ite, lift, mkbool, to_z3, zb
from .arrays import Arr, SymSeq, iconc

REPO = os.environ.get("VERIF_REPO", "/repo")


# ============================================================================= control-flow signals
class PathEnd(Exception):
    """this path is finished (e.g. after the arbitrary-iteration check of a loop)"""


class PyRaise(Exception):
    def __init__(self, typ, msg=""):
        Exception.__init__(self, "%s: %s" % (typ, msg))
        self.typ = typ
        self.msg = msg


class _Return(Exception):
    def __init__(self, value):
        self.value = value


class _Break(Exception):
    pass


class _Continue(Exception):
    pass


EXC_PARENTS = {
    "IndexError": "LookupError", "KeyError": "LookupError", "LookupError": "Exception",
    "ValueError": "Exception", "TypeError": "Exception", "ZeroDivisionError": "ArithmeticError",
    "ArithmeticError": "Exception", "StopIteration": "Exception", "NotImplementedError": "RuntimeError",
    "RuntimeError": "Exception", "AttributeError": "Exception", "Exception": "BaseException",
}


def exc_matches(typ, handler_names):
    if handler_names is None:
        return True
    t = typ
    while t is not None:
        if t in handler_names:
            return True
        t = EXC_PARENTS.get(t)
    return False


class ExcClass:
    """exception class object visible to interpreted code"""

    def __init__(self, name):
        self.name = name

    def __call__(self, *a, **k):
        return ExcInstance(self.name, a[0] if a else "")

    def __repr__(self):
        return "<exc %s>" % self.name


class ExcInstance:
    def __init__(self, name, msg):
        self.name = name
        self.msg = msg


# ============================================================================= obligations
class Ob:
    __slots__ = ("name", "status", "backend", "time_s", "cls", "tags", "model", "detail", "path", "smt2", "func")

    def __init__(self, name, status, backend, time_s, cls, tags, model=None, detail=None, path=None, func=None):
        self.name = name
        self.status = status
        self.backend = backend
        self.time_s = time_s
        self.cls = cls
        self.tags = tags
        self.model = model
        self.detail = detail
        self.path = path
        self.smt2 = None
        self.func = func

    def as_dict(self):
        return {"name": self.name, "status": self.status, "backend": self.backend, "time_s": self.time_s,
                "cls": self.cls, "tags": list(self.tags), "model": self.model, "detail": self.detail,
                "path": self.path, "func": self.func}


# ============================================================================= interpreter objects
class Obj:
    """instance of a repo class (or a plain record)"""

    def __init__(self, cls=None, **fields):
        self.__dict__["cls"] = cls
        self.__dict__["fields"] = dict(fields)
        self.__dict__["origin"] = None

    def __getattr__(self, name):
        f = self.__dict__["fields"]
        if name in f:
            return f[name]
        raise AttributeError(name)

    def __setattr__(self, name, v):
        self.__dict__["fields"][name] = v

    def __repr__(self):
        c = self.__dict__["cls"]
        return "<Obj %s %s>" % (c.name if c else "?", sorted(self.__dict__["fields"]))


class PyFunc:
    def __init__(self, node, env, module, qualname, cls=None):
        self.node = node
        self.env = env
        self.module = module
        self.qualname = qualname
        self.cls = cls
        self.name = getattr(node, "name", "<lambda>")
        self.__name__ = self.name

    def __repr__(self):
        return "<PyFunc %s>" % self.qualname


class BoundMethod:
    def __init__(self, func, obj):
        self.func = func
        self.obj = obj


class Prop:
    def __init__(self, fget=None, fset=None):
        self.fget = fget
        self.fset = fset


class RepoClass:
    def __init__(self, name, node, module, bases):
        self.name = name
        self.node = node
        self.module = module
        self.bases = bases          # list of RepoClass / other
        self.members = {}

    def lookup(self, name):
        if name in self.members:
            return self.members[name]
        for b in self.bases:
            if isinstance(b, RepoClass):
                r = b.lookup(name)
                if r is not None:
                    return r
        return None

    def mro_after(self, cls):
        """classes after `cls` in a linearised (depth-first) order"""
        order = []

        def rec(c):
            if c in order:
                return
            order.append(c)
            for b in c.bases:
                if isinstance(b, RepoClass):
                    rec(b)
        rec(self)
        i = order.index(cls) if cls in order else -1
        return order[i + 1:]

    def __repr__(self):
        return "<RepoClass %s>" % self.name


class SuperProxy:
    def __init__(self, obj, cls):
        self.obj = obj
        self.cls = cls


class FmtKey:
    """the string "{}".format(i) for a symbolic integer i (injective in i)"""

    def __init__(self, i):
        self.i = i

    def __eq__(self, o):
        if isinstance(o, FmtKey):
            return V.num_eq(self.i, o.i)
        return False

    def __hash__(self):
        return hash("fmt")

    def __repr__(self):
        return "FmtKey(%s)" % (self.i,)


class Env:
    def __init__(self, parent=None, module=None):
        self.vars = {}
        self.parent = parent
        self.module = module if module is not None else (parent.module if parent else None)

    def lookup(self, name):
        e = self
        while e is not None:
            if name in e.vars:
                v = e.vars[name]
                if hasattr(v, "resolve") and type(v).__name__ == "LazyRepoName":
                    v = v.resolve()
                    e.vars[name] = v
                return v
            e = e.parent
        return self.module.lookup(name)

    def has(self, name):
        e = self
        while e is not None:
            if name in e.vars:
                return True
            e = e.parent
        return False

    def set(self, name, v):
        self.vars[name] = v


class ModuleNS:
    """namespace of one repo module: functions/classes from its AST, imports mapped to models"""

    def __init__(self, engine, relpath):
        self.engine = engine
        self.relpath = relpath
        self.path = os.path.join(REPO, relpath)
        with open(self.path) as f:
            self.src = f.read()
        self.tree = ast.parse(self.src)
        self.names = {}
        self.lazy = {}
        self.env = Env(module=self)
        self._scan()

    def _scan(self):
        from . import models
        for st in self.tree.body:
            if isinstance(st, ast.FunctionDef):
                self.names[st.name] = PyFunc(st, self.env, self, st.name)
            elif isinstance(st, ast.ClassDef):
                self.lazy[st.name] = st
            elif isinstance(st, (ast.Import, ast.ImportFrom)):
                for alias, val in models.resolve_import(self.engine, self, st):
                    self.names[alias] = val
            elif isinstance(st, ast.Assign) and len(st.targets) == 1 and isinstance(st.targets[0], ast.Name):
                self.lazy[st.targets[0].id] = st
            elif isinstance(st, ast.Try):
                pass

    def lookup(self, name):
        if name in self.names:
            v = self.names[name]
            from . import models
            if isinstance(v, models.LazyRepoName):
                v = v.resolve()
                self.names[name] = v
            return v
        if name in self.lazy:
            st = self.lazy.pop(name)
            if isinstance(st, ast.ClassDef):
                self.names[name] = self.engine.make_class(st, self)
            else:
                self.names[name] = self.engine.eval(st.value, self.env)
            return self.names[name]
        from . import models
        b = models.builtin(self.engine, name)
        if b is not models.MISSING:
            return b
        raise Unsupported("name %r not found in %s" % (name, self.relpath))

    def find_function(self, qualname):
        parts = qualname.split(".")
        if len(parts) == 1:
            return self.lookup(parts[0])
        cls = self.lookup(parts[0])
        m = cls.lookup(parts[1])
        if isinstance(m, Prop):
            if len(parts) == 3 and parts[2] == "setter":
                return m.fset
            return m.fget
        return m


# ============================================================================= contracts
class LoopContract:
    """invariant for the n-th loop (source order) of a function.
    fingerprint : substring that must occur in ast.unparse(loop header) (drift check)
    inv(st)     : list of (label, truth value[, cls]) evaluated on a LoopState
    variant(st) : Int-valued measure for while loops (must decrease and stay >= 0)
    havoc       : {name: factory(st) -> fresh value} overriding the default havoc of assigned names
    index       : name of the ghost index for `for` loops (available as st.k)
    """

    def __init__(self, fingerprint, inv, variant=None, havoc=None, ghost_init=None, ghost_step=None, modifies=None,
                 cls="S"):
        self.fingerprint = fingerprint
        self.inv = inv
        self.variant = variant
        self.havoc = havoc or {}
        self.modifies = modifies
        self.cls = cls


class LoopState:
    def __init__(self, eng, env, k=None, n=None, seq=None, entry=None, mode="prove"):
        self.eng = eng
        self.env = env
        self.k = k
        self.n = n
        self.seq = seq
        self.entry = entry or {}
        self.mode = mode          # "prove": quantified clauses are checked on fresh constants; "assume": as forall

    def each(self, ranges, fn, name="e"):
        """clause `forall x1 in [lo1,hi1), ... . fn(x1,...)`; ranges: list of (lo, hi) with None = unbounded"""
        e = self.eng
        xs = [z3.Int(e.uniq(name + str(i))) for i in range(len(ranges))]
        conds = []
        for x, (lo, hi) in zip(xs, ranges):
            if lo is not None:
                conds.append(x >= to_z3(lo))
            if hi is not None:
                conds.append(x < to_z3(hi))
        rng = z3.And(*conds) if conds else z3.BoolVal(True)
        if self.mode == "assume":
            body = e.under(rng, lambda: zb(fn(*[Num(x) for x in xs])))
            return z3.ForAll(xs, z3.Implies(rng, body))
        body = e.under(rng, lambda: zb(fn(*[Num(x) for x in xs])))
        return z3.Implies(rng, body)

    def __getattr__(self, name):
        return self.env.lookup(name)

    @property
    def g(self):
        return self.eng.ghost

    @staticmethod
    def e_not(v):
        return b_not(v) if not isinstance(v, bool) else (not v)

    def kof(self, ordn):
        """ghost index of the enclosing loop #ordn (arbitrary-iteration path)"""
        return self.env.lookup("__k_loop%d" % ordn)

    def old(self, name):
        return self.entry[name]


class LemmaSet:
    """facts about spec functions (no code involved): fn(eng) -> [(label, goal)] proved under the axioms the
    models add while the goal is built"""

    def __init__(self, name, fn, variant=""):
        self.module = "spec"
        self.qualname = name
        self.fn = fn
        self.variant = variant
        self.definedness = "D"
        self.inline_callees = set()
        self.hints = []
        self.cuts = []
        self.loops = {}

    @property
    def key(self):
        return ("spec", self.qualname)


class Contract:
    def __init__(self, module, qualname, make_args, requires=None, ensures=None, raises=None, loops=None,
                 summary=None, definedness="D", inline_callees=(), notes="", hints=None, variant="", cuts=None, script=None, covers=None):
        self.module = module
        self.qualname = qualname
        self.make_args = make_args        # (eng) -> (args dict, ghost dict)
        self.requires = requires or (lambda a: [])
        self.ensures = ensures or (lambda a, r: [])
        self.raises = raises              # (a) -> list of (label, exc type, condition)  "raises typ iff cond"
        self.loops = loops or {}
        self.summary = summary            # (eng, args, kwargs) -> result   modular use at call sites
        self.definedness = definedness    # class of definedness obligations inside this function
        self.inline_callees = set(inline_callees)
        self.notes = notes
        self.hints = hints or []          # [(statement prefix, fn(LoopState) -> [(label, term)])]  proved (class S) then assumed
        self.cuts = cuts or []            # [(statement prefix, fn(LoopState) -> {"ob": [...], "env": {...}, "assume": [...]})]
        self.variant = variant
        self.script = script              # (eng, ArgView) -> result: a *sequence* of calls of real functions instead of one call
        self.covers = covers              # parameter names the callee's own contract was verified for; a call passing any other
                                          # parameter explicitly is outside that contract (modular use refused: undecided)

    @property
    def key(self):
        return (self.module, self.qualname)


_SIGS = None


def _recorded_signatures():
    global _SIGS
    if _SIGS is None:
        import json
        try:
            _SIGS = json.load(open(os.path.join(os.path.dirname(os.path.dirname(os.path.abspath(__file__))), "contracts", "signatures.json")))
        except Exception:
            _SIGS = {}
    return _SIGS


# ============================================================================= the engine
class Engine:
    def __init__(self, timeout_ms=10000, contracts=None, max_paths=400, feas_timeout_ms=2000):
        self.timeout_ms = timeout_ms
        self.feas_timeout_ms = feas_timeout_ms
        self.contracts = contracts or {}        # (module, qualname) -> Contract
        self.modules = {}
        self.max_paths = max_paths
        self.obs = []
        self.dropped = []
        self.warnings = []
        self.frame_writes = []
        self.ctr = itertools.count()
        self.name_ctr = {}
        self.solver = None
        self.decisions = []
        self.dpos = 0
        self.pending = []
        self.path_id = 0
        self.cur_func = None
        self.cur_contract = None
        self.top_key = None
        self.axioms = []
        self.facts = []
        self.path_assumptions = []
        self.sums = []
        self.trace = []
        self.call_depth = 0
        self.param_buffers = {}
        self.recorders = {}
        self.rng_calls = []
        self.ghost = {}
        self.hint_hits = set()
        self.top_env = None
        self.extra_probes = {}
        self.in_spec = 0
        self.ext_unknown = False
        self.in_preserve = False
        self.scope_id = 0
        self.scope_ctr = 0
        self.assumed_defined = 0
        self.cut_owner = {}
        self.cut_hits = set()
        self.cur_line = None
        self.path_axioms = []
        self.range_guards = {}
        self.cur_argview = None
        self.quick_ms = 400
        self.defer_sat = True     # models are produced by the external pass (smaller, bounded sizes)

    # ------------------------------------------------------------------ naming / solver
    def uniq(self, base):
        n = self.name_ctr.get(base, 0)
        self.name_ctr[base] = n + 1
        return base if n == 0 else "%s!%d" % (base, n)

    def new_solver(self):
        s = z3.Solver()
        s.set("timeout", self.feas_timeout_ms)
        # E-matching only while paths are explored (predictable; "unknown" = feasible / deferred);
        # the external portfolio (solve_one.py) runs with z3's defaults and cvc5
        s.set("smt.mbqi", False)
        return s

    def assume(self, t):
        if isinstance(t, bool):
            if not t:
                self.solver.add(z3.BoolVal(False))
                self.path_assumptions.append(z3.BoolVal(False))
            return
        t = zb(t)
        self.solver.add(t)
        self.path_assumptions.append(t)

    def axiom(self, t):
        """a fact that holds unconditionally (defining property of an uninterpreted symbol introduced by a model):
        survives the temporary scopes of `under`"""
        if isinstance(t, bool):
            if not t:
                raise Unsupported("false axiom")
            return
        t = zb(t)
        self.solver.add(t)
        self.path_assumptions.append(t)
        self.path_axioms.append(t)

    def check(self, *extra, timeout=None):
        self.solver.set("timeout", timeout or self.feas_timeout_ms)
        return self.solver.check(*extra)

    def must(self, t):
        """pc |= t ?  (python bool; False when unknown)"""
        t = zb(t)
        if z3.is_true(t):
            return True
        return self.check(z3.Not(t)) == z3.unsat

    def may(self, t):
        t = zb(t)
        return self.check(t) != z3.unsat

    def branch(self, t):
        t = zb(t)
        if z3.is_true(t):
            return True
        if z3.is_false(t):
            return False
        can_t = self.check(t) != z3.unsat
        can_f = self.check(z3.Not(t)) != z3.unsat
        if can_t and not can_f:
            return True
        if can_f and not can_t:
            return False
        if not can_t and not can_f:
            raise PathEnd()           # path condition already infeasible
        if self.dpos < len(self.decisions):
            d = self.decisions[self.dpos]
        else:
            d = True
            self.decisions.append(True)
            self.pending.append(self.decisions[:self.dpos] + [False])
        self.dpos += 1
        self.assume(t if d else z3.Not(t))
        return d

    def decide(self, label=""):
        """a non-deterministic boolean choice explored both ways (used by loop contracts)"""
        if self.dpos < len(self.decisions):
            d = self.decisions[self.dpos]
        else:
            d = True
            self.decisions.append(True)
            self.pending.append(self.decisions[:self.dpos] + [False])
        self.dpos += 1
        return d

    def is_integer_valued(self, t):
        if t.sort().kind() == z3.Z3_INT_SORT:
            return z3.BoolVal(True)
        return z3.ToReal(z3.ToInt(t)) == t

    # ------------------------------------------------------------------ obligations
    def oblige(self, label, goal, cls="P", tags=(), detail=None):
        name = "%s.%s" % (self.cur_label(), label)
        goal = zb(goal)
        gs = self.guards_of(goal)
        if gs:
            goal = z3.Implies(z3.And(*gs), goal)
        t0 = time.time()
        status, backend, model = self._prove(goal)
        if self.ext_unknown:
            tags = tuple(tags) + ("ext_unknown",)
        ob = Ob(name, status, backend, round(time.time() - t0, 4), cls, tuple(tags), model=model, detail=detail,
                path=self.path_id, func=self.top_qual())
        if status != "discharged":
            ob.smt2 = self._smt2(goal)
            if ob.smt2 is None and status == "deferred":
                ob.status = "undecided"
                ob.detail = "could not serialise obligation"
        self.obs.append(ob)
        # like `assert` in a verifier: continue under the assumption that it holds
        self.assume(goal)
        return status == "discharged"

    def _prove(self, goal):
        """quick in-process attempt; anything not settled quickly is *deferred*: its SMT-LIB text is kept and
        discharged afterwards by the portfolio in pyvc/solve_one.py (hard time limits, parallel)"""
        if z3.is_true(goal):
            return "discharged", "syntactic", None
        self.solver.push()
        try:
            self.solver.add(z3.Not(goal))
            r = self.check(timeout=self.quick_ms)
            if r == z3.unsat:
                return "discharged", "z3", None
            if r == z3.sat and not self.defer_sat:
                return "refuted", "z3", self._model_text(self.solver.model())
        finally:
            self.solver.pop()
        return "deferred", "", None

    def _probes(self):
        """definitions probe!<local> == <term> for the scalar locals of the function under contract, so that a
        counter-model names the concrete values of the code's own variables (used to build the replay input)"""
        out = []
        env = self.top_env
        if env is None:
            return out
        for name, v in list(env.vars.items()):
            if name.startswith("__"):
                if name.startswith("__k_") and isinstance(v, Num):
                    out.append(z3.Int("probe!" + name[2:]) == v.t)
                continue
            try:
                if isinstance(v, Num):
                    c = z3.Const("probe!" + name, v.t.sort())
                    out.append(c == v.t)
                    if not isinstance(v.k, int):
                        out.append(z3.Int("probe!" + name + "!kind") == v.k)
                elif isinstance(v, BoolV):
                    out.append(z3.Bool("probe!" + name) == v.t)
            except z3.Z3Exception:
                pass
        for name, t in self.extra_probes.items():
            try:
                out.append(z3.Const("probe!" + name, t.sort()) == t)
            except z3.Z3Exception:
                pass
        return out

    def _smt2(self, goal):
        s2 = z3.Solver()
        s2.add(*self.path_assumptions)
        s2.add(z3.Not(goal))
        s2.add(*self._probes())
        try:
            return s2.to_smt2()
        except Exception:
            return None

    def _model_text(self, m):
        out = {}
        try:
            for d in m.decls():
                v = m[d]
                s = str(v)
                if len(s) > 400:
                    s = s[:400] + "..."
                out[d.name()] = s
        except Exception as ex:     # pragma: no cover
            out["<error>"] = str(ex)
        return out

    def definedness(self, t, msg, force=False):
        t = zb(t) if not isinstance(t, bool) else z3.BoolVal(t)
        if z3.is_true(t):
            return
        cls = self.cur_contract.definedness if self.cur_contract else "D"
        if force and cls == "assume":
            cls = "P"          # shape errors raise in NumPy: never assumed away
        if cls == "assume":
            # this contract does not decide arithmetic definedness (stated in its evidence): assumed, not checked
            self.assumed_defined += 1
            self.assume(t)
            return
        if self.in_spec:
            cls, msg = "S", "spec " + msg
        if self.must(t):
            # cheap path: provable with the feasibility budget; still recorded as an obligation
            self.obs.append(Ob("%s.defined.%s" % (self.cur_label(), _slug(msg)), "discharged", "z3", 0.0, cls, ("defined",),
                               path=self.path_id, func=self.top_qual()))
            return
        self.oblige("defined." + _slug(msg), t, cls=cls, tags=("defined",), detail="%s (at line %s%s)" % (msg, self.cur_line, ", in contract text" if self.in_spec else ""))

    def dtype_store(self, a, v):
        self.oblige("dtype_store.float_into_int_buffer", z3.BoolVal(False) if not self.must(self.is_integer_valued(to_z3(v))) else z3.BoolVal(True),
                    cls="P", tags=("dtype",), detail="float value stored into integer buffer %s" % a.buf.origin)

    def on_store(self, arr):
        o = arr.buf.origin or ""
        if o.startswith("param:"):
            self.frame_writes.append((self.cur_label(), o))
            self.oblige("frame.no_write_to_argument." + o.split(":", 1)[1], z3.BoolVal(False), cls="P", tags=("frame",),
                        detail="in-place store into a buffer reachable from parameter %s" % o)

    def cur_label(self):
        return self.top_qual() if self.cur_func is None else self.cur_func

    def top_qual(self):
        if self.top_key and self.top_key[0] == "spec":
            return "spec:" + self.top_key[1]
        return "%s:%s" % (self.top_key[0].replace("persim/", "").replace(".py", "").replace("/", "."), self.top_key[1]) if self.top_key else "?"

    def py_raise(self, typ, msg=""):
        raise PyRaise(typ, msg)

    # ------------------------------------------------------------------ quantifier helpers
    def spec_eval(self, thunk):
        self.in_spec += 1
        try:
            return thunk()
        finally:
            self.in_spec -= 1

    def under(self, hyp, thunk, default=None):
        """evaluate thunk() with `hyp` temporarily assumed (definedness obligations raised inside see it).
        If the hypothesis is infeasible on this path the thunk's value is irrelevant (it is only used guarded by
        `hyp`): an exception raised while evaluating it is swallowed and `default` (or True) returned."""
        self.solver.push()
        n0 = len(self.path_assumptions)
        outer = self.scope_id
        nax0 = len(self.path_axioms)
        self.scope_ctr += 1
        self.scope_id = self.scope_ctr
        try:
            self.assume(hyp)
            try:
                return thunk()
            except (PyRaise, PathEnd):
                if self.check() == z3.unsat:
                    return default if default is not None else z3.BoolVal(True)
                raise
        finally:
            self.solver.pop()
            del self.path_assumptions[n0:]
            self.scope_id = outer
            for ax in self.path_axioms[nax0:]:      # facts about symbols created inside the scope stay valid
                self.solver.add(ax)
                self.path_assumptions.append(ax)

    def forall(self, n, fn, lo=0, name="q"):
        k = z3.Int(self.uniq(name))
        rng = z3.And(k >= to_z3(lo), k < to_z3(n))
        body = self.under(rng, lambda: zb(fn(Num(k))))
        return z3.ForAll([k], z3.Implies(rng, body))

    def exists(self, n, fn, lo=0, name="x"):
        k = z3.Int(self.uniq(name))
        rng = z3.And(k >= to_z3(lo), k < to_z3(n))
        body = self.under(rng, lambda: zb(fn(Num(k))))
        return z3.Exists([k], z3.And(rng, body))

    def forall2(self, n1, n2, fn, name="q"):
        i = z3.Int(self.uniq(name + "i"))
        j = z3.Int(self.uniq(name + "j"))
        rng = z3.And(i >= 0, i < to_z3(n1), j >= 0, j < to_z3(n2))
        body = self.under(rng, lambda: zb(fn(Num(i), Num(j))))
        return z3.ForAll([i, j], z3.Implies(rng, body))

    def fresh_int(self, name, lo=None, hi=None):
        """fresh integer constant.  With both bounds it stands for "an arbitrary element of [lo, hi)": the range may be
        empty, so only  (lo < hi) -> lo <= x < hi  is recorded, and every obligation that mentions x is weakened by
        lo < hi (see oblige) - an empty range must not make the rest of the path vacuous."""
        x = z3.Int(self.uniq(name))
        if lo is not None and hi is not None:
            ne = to_z3(lo) < to_z3(hi)
            if self.must(ne):
                self.axiom(z3.And(x >= to_z3(lo), x < to_z3(hi)) if self.must_axiom(ne) else z3.Implies(ne, z3.And(x >= to_z3(lo), x < to_z3(hi))))
            else:
                self.axiom(z3.Implies(ne, z3.And(x >= to_z3(lo), x < to_z3(hi))))
                self.range_guards[x.get_id()] = ne
        elif lo is not None:
            self.axiom(x >= to_z3(lo))
        elif hi is not None:
            self.axiom(x < to_z3(hi))
        return Num(x)

    def must_axiom(self, t):
        return False

    def guards_of(self, goal):
        if not self.range_guards:
            return []
        out, seen, todo = [], set(), [goal]
        while todo:
            x = todo.pop()
            i = x.get_id()
            if i in seen:
                continue
            seen.add(i)
            g = self.range_guards.get(i)
            if g is not None:
                out.append(g)
            if z3.is_app(x):
                todo.extend(x.children())
            elif z3.is_quantifier(x):
                todo.append(x.body())
        return out

    def fresh_real(self, name, maybe_inf=False):
        x = z3.Real(self.uniq(name))
        if maybe_inf:
            k = z3.Int(self.uniq(name + "_k"))
            self.assume(z3.And(k >= -1, k <= 1))
            return Num(x, k)
        return Num(x)

    def fresh_bool(self, name):
        return BoolV(z3.Bool(self.uniq(name)))

    # ------------------------------------------------------------------ modules / classes
    def module(self, relpath):
        if relpath not in self.modules:
            self.modules[relpath] = ModuleNS(self, relpath)
        return self.modules[relpath]

    def make_class(self, node, module):
        bases = []
        for b in node.bases:
            try:
                bases.append(self.eval(b, module.env))
            except Unsupported:
                bases.append(None)
        cls = RepoClass(node.name, node, module, bases)
        for st in node.body:
            if isinstance(st, ast.FunctionDef):
                f = PyFunc(st, module.env, module, "%s.%s" % (node.name, st.name), cls=cls)
                decos = [ast.unparse(d) for d in st.decorator_list]
                if "property" in decos:
                    cls.members[st.name] = Prop(fget=f)
                elif any(d.endswith(".setter") for d in decos):
                    p = cls.members.get(st.name)
                    if not isinstance(p, Prop):
                        p = Prop()
                        cls.members[st.name] = p
                    f.qualname = "%s.%s.setter" % (node.name, st.name)
                    p.fset = f
                elif "staticmethod" in decos:
                    cls.members[st.name] = ("static", f)
                else:
                    cls.members[st.name] = f
            elif isinstance(st, ast.Assign) and len(st.targets) == 1 and isinstance(st.targets[0], ast.Name):
                cls.members[st.targets[0].id] = ("const", st.value)
        return cls

    # ------------------------------------------------------------------ top level
    def verify(self, contract, time_budget_s=600):
        """explore all paths of the function under `contract`; returns list of Ob"""
        self.top_key = contract.key
        if isinstance(contract, LemmaSet):
            return self.run_lemmas(contract)
        mod = self.module(contract.module)
        if contract.script is not None:
            func = None
        else:
            func = mod.find_function(contract.qualname)
            if func is None or not isinstance(func, PyFunc):
                raise Unsupported("function %s not found in %s" % (contract.qualname, contract.module))
            self._check_loop_fingerprints(func, contract)
            self._check_hint_patterns(func, contract, mod)
        self.pending = [[]]
        n_paths = 0
        t0 = time.time()
        outcomes = []
        while self.pending:
            if n_paths >= self.max_paths:
                raise Unsupported("more than %d paths" % self.max_paths)
            if time.time() - t0 > time_budget_s:
                raise Unsupported("time budget exhausted after %d paths" % n_paths)
            prefix = self.pending.pop()
            n_paths += 1
            self.path_id = n_paths
            outcomes.append(self.run_path(func, contract, prefix))
        self.n_paths = n_paths
        if not isinstance(contract, LemmaSet) and getattr(self, "n_live_paths", 0) == 0 and any(o[0] in ("return", "raise") for o in outcomes) \
                and not any(ob.status != "discharged" for ob in self.obs):
            self.obs.append(Ob("%s.canary.some_path_is_live" % self.top_qual(), "undecided", "z3", 0.0, "V", ("vacuity",),
                               detail="no completed path has a satisfiable path condition", func=self.top_qual()))
        return outcomes

    def run_lemmas(self, ls):
        V.ENGINE = self
        self.solver = self.new_solver()
        self.path_assumptions = []
        self.decisions, self.dpos, self.pending = [], 0, []
        self.name_ctr = {}
        self.cur_contract = ls
        self.cur_func = None
        self.path_id = 1
        self.n_paths = 1
        try:
            for item in ls.fn(self):
                if item[0] == "assume":
                    self.assume(item[1])
                    continue
                self.solver.push()
                n0 = len(self.path_assumptions)
                for h in (item[2] if len(item) > 2 else []):
                    self.assume(h)
                self.oblige(item[0], item[1], cls="L")
                self.solver.pop()
                del self.path_assumptions[n0:]
        finally:
            V.ENGINE = None
        return [("lemmas", None)]

    def _check_hint_patterns(self, func, contract, mod):
        """drift check: every statement pattern a hint / cut is keyed on must still occur in the function"""
        texts = []
        for n in ast.walk(func.node):
            if isinstance(n, ast.stmt):
                try:
                    seg = (ast.get_source_segment(mod.src, n) or "").strip().split("\n")[0].strip()
                except Exception:
                    seg = ""
                texts.append((seg, ast.unparse(n)))
        missing = [pat for pat, _f in list(contract.hints) + list(contract.cuts)
                   if not any(a.startswith(pat) or b.startswith(pat) for a, b in texts)]
        if missing:
            raise Unsupported("drift: statement(s) a contract hint / cut is keyed on no longer exist: %s" % missing)

    def _check_loop_fingerprints(self, func, contract):
        """drift check of the loop contracts.  A loop contract is a proof aid, not part of the specification: when the loops of the
        function no longer match the fingerprints (a loop was vectorised away, rewritten or moved), ALL loop contracts of the function
        are switched off for this run and the function is verified against its pre/postconditions without them - loop-free code can
        still be decided, code with loops of symbolic length then ends as `needs an invariant` (undecided), never as a refutation of an
        invariant applied to the wrong loop."""
        loops = [n for n in _walk_loops(func.node)]
        self.loops_off = None
        for ordn, lc in contract.loops.items():
            if ordn >= len(loops):
                self.loops_off = "loop #%d no longer exists in %s" % (ordn, contract.qualname)
                break
            hdr = _loop_header(loops[ordn])
            if lc.fingerprint not in hdr:
                self.loops_off = "loop #%d of %s is now `%s` (expected `%s`)" % (ordn, contract.qualname, hdr, lc.fingerprint)
                break

    def run_path(self, func, contract, prefix):
        V.ENGINE = self
        self.solver = self.new_solver()
        self.path_assumptions = []
        self.decisions = list(prefix)
        self.dpos = 0
        self.name_ctr = {}
        self.cur_func = None
        self.cur_contract = contract
        self.warnings = []
        self.frame_writes = []
        self.sums = []
        self.rng_calls = []
        self.recorders = {}
        self.top_env = None
        self.extra_probes = {}
        self.ext_unknown = False
        self.path_axioms = []
        self.range_guards = {}
        self.cur_line = None
        for ax in self.axioms:
            self.solver.add(ax)
        try:
            args, ghost = contract.make_args(self)
            self.ghost = ghost
            a = ArgView(args, ghost, self)
            self.cur_argview = a
            for item in self.spec_eval(lambda: contract.requires(a)):
                self.assume(zb(item[1]))
            # vacuity guard: the precondition must be satisfiable
            if self.check() == z3.unsat:
                self.obs.append(Ob("%s.requires.satisfiable" % self.top_qual(), "refuted", "z3", 0.0, "V", ("vacuity",),
                                   path=self.path_id, func=self.top_qual()))
                return ("vacuous", None)
            outcome = None
            list_snap = _snapshot_lists(args) if contract.script is None else []
            try:
                if contract.script is not None:
                    res = contract.script(self, a)
                else:
                    res = self.call_function(func, [], args, top=True)
                outcome = ("return", res)
            except PyRaise as ex:
                outcome = ("raise", ex.typ, ex.msg)
            a.warnings = list(self.warnings)
            if contract.raises is not None:
                for label, typ, cond in self.spec_eval(lambda: contract.raises(a)):
                    raised = outcome[0] == "raise" and exc_matches(outcome[1], [typ])
                    # raises typ iff cond:   on this path, cond must agree with what happened
                    self.oblige("raises.%s" % label, zb(cond) if raised else z3.Not(zb(cond)), cls="P", tags=("raises",),
                                detail="outcome=%s" % (outcome[:2],))
            if outcome[0] == "return" and contract.script is None:
                self.oblige("frame.no_store_into_argument_buffers", z3.BoolVal(len(self.frame_writes) == 0), cls="P", tags=("frame",),
                            detail="stores into parameter-reachable buffers on this path: %s" % (self.frame_writes[:3],))
                if list_snap:
                    changed = [nm for nm, obj, was in list_snap if len(obj) != len(was) or any(x is not y for x, y in zip(obj, was))]
                    self.oblige("frame.argument_lists_unchanged", z3.BoolVal(not changed), cls="P", tags=("frame",),
                                detail="list arguments changed (length or an element rebound) on this path: %s" % (changed[:3],))
            refuted_before = any(o.status != "discharged" and o.path == self.path_id for o in self.obs)
            if outcome[0] == "return":
                for item in self.spec_eval(lambda: contract.ensures(a, outcome[1])):
                    label, goal = item[0], item[1]
                    cls = item[2] if len(item) > 2 else "P"
                    tags = item[3] if len(item) > 3 else ()
                    self.oblige("ensures.%s" % label, goal, cls=cls, tags=tags)
            elif contract.raises is None:
                self.oblige("no_exception", z3.BoolVal(False), cls="P", tags=("raises",),
                            detail="unexpected %s: %s" % (outcome[1], outcome[2]))
            else:
                known = [typ for _l, typ, _c in self.spec_eval(lambda: contract.raises(a))]
                if not any(exc_matches(outcome[1], [t]) for t in known):
                    self.oblige("no_unlisted_exception", z3.BoolVal(False), cls="P", tags=("raises",),
                                detail="unexpected %s: %s" % (outcome[1], outcome[2]))
            # vacuity canary (DESIGN 2.8): a path that reached the end with every obligation discharged must have a satisfiable
            # path condition - otherwise "discharged" would mean nothing.  (unknown counts as satisfiable.)
            if not refuted_before and not any(o.status != "discharged" and o.path == self.path_id for o in self.obs):
                if self.check() == z3.unsat:
                    self.obs.append(Ob("%s.canary.path_condition_satisfiable" % self.top_qual(), "undecided", "z3", 0.0, "V", ("vacuity",),
                                       detail="the path condition at the end of path %d is unsatisfiable: its obligations are vacuous" % self.path_id,
                                       path=self.path_id, func=self.top_qual()))
                else:
                    self.n_live_paths = getattr(self, "n_live_paths", 0) + 1
            return outcome
        except PathEnd:
            return ("end", None)
        finally:
            V.ENGINE = None

    # ------------------------------------------------------------------ calls
    def call_function(self, func, pos, kw, top=False):
        """interpret a PyFunc body"""
        node = func.node
        env = Env(parent=func.env, module=func.module)
        self.bind_params(node.args, pos, kw, env, func)
        if isinstance(node, ast.Lambda):
            return self.eval(node.body, env)
        prev = self.cur_func
        if not top:
            self.cur_func = (prev or self.top_qual()) + ">" + func.name
        self.call_depth += 1
        if self.call_depth > 40:
            raise Unsupported("call depth")
        if top:
            self.top_env = env
        try:
            env.vars["__func__"] = func
            self.exec_block(node.body, env)
            return None
        except _Return as r:
            return r.value
        finally:
            self.cur_func = prev
            self.call_depth -= 1

    def bind_params(self, a, pos, kw, env, func):
        params = [p.arg for p in a.posonlyargs + a.args]
        defaults = a.defaults
        nd = len(defaults)
        kw = dict(kw)
        pos = list(pos)
        if len(pos) > len(params) and a.vararg is None:
            self.py_raise("TypeError", "too many positional arguments for %s" % func.name)
        for i, p in enumerate(params):
            if i < len(pos):
                if p in kw:
                    self.py_raise("TypeError", "multiple values for %s" % p)
                env.vars[p] = pos[i]
            elif p in kw:
                env.vars[p] = kw.pop(p)
            else:
                di = i - (len(params) - nd)
                if di >= 0:
                    env.vars[p] = self.eval(defaults[di], func.env)
                else:
                    self.py_raise("TypeError", "missing argument %s of %s" % (p, func.name))
        if a.vararg is not None:
            env.vars[a.vararg.arg] = tuple(pos[len(params):])
        for p, d in zip(a.kwonlyargs, a.kw_defaults):
            if p.arg in kw:
                env.vars[p.arg] = kw.pop(p.arg)
            elif d is not None:
                env.vars[p.arg] = self.eval(d, func.env)
            else:
                self.py_raise("TypeError", "missing kw-only argument")
        if a.kwarg is not None:
            env.vars[a.kwarg.arg] = kw
        elif kw:
            self.py_raise("TypeError", "unexpected keyword %s for %s" % (sorted(kw), func.name))

    def call(self, f, pos, kw):
        """call any callable value"""
        if isinstance(f, BoundMethod):
            return self.call(f.func, [f.obj] + list(pos), kw)
        if isinstance(f, PyFunc):
            key = (f.module.relpath, f.qualname)
            c = self.contracts.get(key)
            if c is not None and c.summary is not None and key != self.top_key and \
                    f.qualname not in (self.cur_contract.inline_callees if self.cur_contract else ()):
                covers = c.covers
                if covers is None:
                    # default: the parameters the function had on the tree the contracts were written against (contracts/signatures.json)
                    covers = _recorded_signatures().get("%s:%s" % (f.module.relpath, f.qualname.replace(".setter", "")))
                if covers is not None:
                    names = [x.arg for x in f.node.args.args]
                    if f.cls is not None and names and names[0] == "self":
                        pass
                    passed = names[:len(pos)] + list(kw)
                    extra = [n for n in passed if n not in covers]
                    if extra:
                        raise Unsupported("call of %s passes %s, which its contract was not verified for (modular use refused)" % (f.qualname, extra))
                return c.summary(self, pos, kw)
            return self.call_function(f, pos, kw)
        if isinstance(f, RepoClass):
            cs = self.contracts.get("__class_summaries", {})
            if f.name in cs:
                return cs[f.name](self, pos, kw)      # modular constructor: the class is under its own contract elsewhere
            obj = Obj(cls=f)
            init = f.lookup("__init__")
            if init is not None:
                self.call(init, [obj] + list(pos), kw)
            return obj
        if isinstance(f, ExcClass):
            return f(*pos, **kw)
        if callable(f):
            if isinstance(kw.get("out"), Arr):
                # ufunc / reduction writing into a caller-supplied buffer: a store for the frame ledger; the value is not modelled
                self.on_store(kw["out"])
                raise Unsupported("out= argument (recorded as a store into the buffer)")
            try:
                return f(*pos, **kw)
            except TypeError as ex:
                # a library model called with a signature it does not cover (extra positional / keyword arguments): not modelled
                if getattr(f, "__module__", "").startswith("pyvc") and any(t in str(ex) for t in ("positional argument", "unexpected keyword", "bad operand type", "unsupported operand")):
                    raise Unsupported("library model %s: %s" % (getattr(f, "__name__", f), ex))
                raise
        raise Unsupported("call of %r" % (f,))

    # ------------------------------------------------------------------ statements
    def exec_block(self, body, env):
        for st in body:
            self.exec(st, env)

    def stmt_text(self, st, env):
        try:
            seg = ast.get_source_segment(env.module.src, st)
        except Exception:
            seg = None
        seg = (seg or "").strip().split("\n")[0].strip()
        return seg, ast.unparse(st)

    def at_cut(self, pat, fn, env):
        """segment boundary (DESIGN 2.2 `cut`): prove the cut's clauses on the arriving path, then continue *once* from an
        abstract state that keeps only the parameters and what the cut re-establishes (fresh symbols + assumed clauses)."""
        res = self.spec_eval(lambda: fn(LoopState(self, env)))
        pre = tuple(self.decisions[:self.dpos])
        owner = self.cut_owner.get(pat)
        if owner is None or owner != pre:
            for item in res.get("ob", []):
                self.oblige("cut.%s" % item[0], item[1], cls=(item[2] if len(item) > 2 else "P"), tags=(item[3] if len(item) > 3 else ()))
        if owner is None:
            self.cut_owner[pat] = pre
        elif owner != pre:
            raise PathEnd()
        self.cut_hits.add(pat)
        # restart the path condition: contract requires + what the cut provides
        self.solver = self.new_solver()
        self.path_assumptions = []
        for ax in self.axioms:
            self.solver.add(ax)
        for item in self.spec_eval(lambda: self.cur_contract.requires(self.cur_argview)):
            self.assume(zb(item[1]))
        func = env.vars.get("__func__")
        params = [a.arg for a in func.node.args.posonlyargs + func.node.args.args + func.node.args.kwonlyargs]
        keep = {k: v for k, v in env.vars.items() if k in params or k.startswith("__") or k in res.get("keep", ())}
        env.vars.clear()
        env.vars.update(keep)
        new = res["make"](LoopState(self, env)) if "make" in res else {}
        env.vars.update(new.get("env", {}))
        for t in new.get("assume", []):
            self.assume(t)
        self.warnings = list(new.get("warnings", []))

    def exec(self, st, env):
        m = getattr(self, "x_" + type(st).__name__, None)
        if m is None:
            raise Unsupported("statement %s at line %d" % (type(st).__name__, st.lineno))
        top = self.call_depth == 1 and self.cur_contract is not None
        if top:
            self.cur_line = getattr(st, "lineno", None)
        if top and self.cur_contract.cuts:
            seg, unp = self.stmt_text(st, env)
            for pat, fn in self.cur_contract.cuts:
                if seg.startswith(pat) or unp.startswith(pat):
                    self.at_cut(pat, fn, env)
        r = m(st, env)
        if top and self.cur_contract.hints and \
                not isinstance(st, (ast.For, ast.While, ast.If, ast.Try)):
            seg, unp = self.stmt_text(st, env)
            for pat, fn in self.cur_contract.hints:
                if seg.startswith(pat) or unp.startswith(pat):
                    self.hint_hits.add(pat)
                    for item in self.spec_eval(lambda: fn(LoopState(self, env))):
                        if item[0] == "then":
                            item[1]()      # abstraction step: replace a value by one just proved equal to it
                            continue
                        self.oblige("hint.%s" % item[0], item[1], cls=(item[2] if len(item) > 2 else "S"))
        return r

    def x_Pass(self, st, env):
        pass

    def x_Expr(self, st, env):
        v = st.value
        if isinstance(v, ast.Constant):
            return          # docstring
        if isinstance(v, ast.Call):
            fn = ast.unparse(v.func)
            if fn in ("print", "verboseprint", "plt.show", "plt.style.use"):
                d = "%s:%d %s(...)" % (env.module.relpath, st.lineno, fn)
                if d not in self.dropped:
                    self.dropped.append(d)
                return
        self.eval(v, env)

    def x_Return(self, st, env):
        raise _Return(self.eval(st.value, env) if st.value is not None else None)

    def x_Raise(self, st, env):
        if st.exc is None:
            raise Unsupported("bare raise")
        e = self.eval(st.exc, env)
        if isinstance(e, ExcClass):
            raise PyRaise(e.name, "")
        if isinstance(e, ExcInstance):
            raise PyRaise(e.name, str(e.msg))
        raise Unsupported("raise of %r" % (e,))

    def x_Assert(self, st, env):
        c = self.eval(st.test, env)
        if not self.truth(c):
            raise PyRaise("AssertionError", "")

    def x_Assign(self, st, env):
        v = self.eval(st.value, env)
        for t in st.targets:
            self.assign(t, v, env)

    def x_AnnAssign(self, st, env):
        if st.value is not None:
            self.assign(st.target, self.eval(st.value, env), env)

    def x_AugAssign(self, st, env):
        t = st.target
        if isinstance(t, ast.Name):
            cur = env.lookup(t.id)
            r = self.binop(st.op, cur, self.eval(st.value, env), inplace=True)
            self.assign_name(t.id, r, env)
        elif isinstance(t, ast.Subscript):
            obj = self.eval(t.value, env)
            key = self.eval_index(t.slice, env)
            cur = self.getitem(obj, key)
            r = self.binop(st.op, cur, self.eval(st.value, env), inplace=False)
            self.setitem(obj, key, r)
        elif isinstance(t, ast.Attribute):
            obj = self.eval(t.value, env)
            cur = self.getattr(obj, t.attr)
            r = self.binop(st.op, cur, self.eval(st.value, env), inplace=True)
            self.setattr(obj, t.attr, r)
        else:
            raise Unsupported("augassign target")

    def x_If(self, st, env):
        if self.truth(self.eval(st.test, env)):
            self.exec_block(st.body, env)
        else:
            self.exec_block(st.orelse, env)

    def x_Break(self, st, env):
        raise _Break()

    def x_Continue(self, st, env):
        raise _Continue()

    def x_FunctionDef(self, st, env):
        env.set(st.name, PyFunc(st, env, env.module, "<local>." + st.name))

    def x_Import(self, st, env):
        from . import models
        for alias, val in models.resolve_import(self, env.module, st):
            env.set(alias, val)

    x_ImportFrom = x_Import

    def x_Try(self, st, env):
        try:
            self.exec_block(st.body, env)
        except PyRaise as ex:
            for h in st.handlers:
                names = None
                if h.type is not None:
                    if isinstance(h.type, ast.Tuple):
                        names = [ast.unparse(e).split(".")[-1] for e in h.type.elts]
                    else:
                        names = [ast.unparse(h.type).split(".")[-1]]
                if exc_matches(ex.typ, names):
                    if h.name:
                        env.set(h.name, ExcInstance(ex.typ, ex.msg))
                    self.exec_block(h.body, env)
                    break
            else:
                if st.finalbody:
                    self.exec_block(st.finalbody, env)
                raise
        else:
            self.exec_block(st.orelse, env)
        if st.finalbody:
            self.exec_block(st.finalbody, env)

    def x_Delete(self, st, env):
        raise Unsupported("del")

    # -- loops
    def loop_contract(self, st, env):
        func = env.lookup("__func__") if env.has("__func__") else None
        if func is None or self.cur_contract is None:
            return None
        key = (func.module.relpath, func.qualname)
        c = self.contracts.get(key)
        if key == self.top_key:
            c = self.cur_contract
            if getattr(self, "loops_off", None):
                return None
        if c is None:
            return None
        loops = list(_walk_loops(func.node))
        try:
            ordn = loops.index(st)
        except ValueError:
            return None
        return c.loops.get(ordn), ordn

    def x_While(self, st, env):
        lc = self.loop_contract(st, env)
        if lc is None or lc[0] is None:
            # try to run it concretely (bounded unrolling only while the guard is decided by the path condition)
            n = 0
            while True:
                c = self.eval(st.test, env)
                if isinstance(c, (BoolV, Num)) and not isinstance(conc_of(c) if isinstance(c, Num) else None, (int, float)):
                    t = zb(c)
                    if self.must(t):
                        c = True
                    elif self.must(z3.Not(t)):
                        c = False
                    else:
                        raise Unsupported("while loop with symbolic guard needs an invariant (line %d)%s" % (st.lineno, ("; drift: " + self.loops_off) if getattr(self, "loops_off", None) else ""))
                if not self.truth(c):
                    break
                n += 1
                if n > 200:
                    raise Unsupported("while loop unrolled more than 200 times (line %d)" % st.lineno)
                try:
                    self.exec_block(st.body, env)
                except _Break:
                    break
                except _Continue:
                    continue
            return
        lc, ordn = lc
        tag = "loop%d" % ordn
        entry = dict(env.vars)
        s0 = LoopState(self, env, entry=entry)
        for item in self.spec_eval(lambda: lc.inv(s0)):
            self.oblige("%s.init.%s" % (tag, item[0]), item[1], cls=(item[2] if len(item) > 2 else lc.cls), tags=(item[3] if len(item) > 3 else ()))
        mod = _assigned_names(st) | set(lc.havoc)
        arbitrary = self.decide(tag)
        self.havoc(env, mod, lc, st, entry)
        s1 = LoopState(self, env, entry=entry, mode="assume")
        for item in self.spec_eval(lambda: lc.inv(s1)):
            self.assume(zb(item[1]))
        c = self.truth(self.eval(st.test, env))
        if arbitrary:
            if not c:
                raise PathEnd()
            v0 = lc.variant(s1) if lc.variant else None
            try:
                self.exec_block(st.body, env)
            except _Continue:
                pass
            except _Break:
                raise Unsupported("break inside a loop under contract")
            s2 = LoopState(self, env, entry=entry)
            for item in self.spec_eval(lambda: lc.inv(s2)):
                self.oblige("%s.preserve.%s" % (tag, item[0]), item[1], cls=(item[2] if len(item) > 2 else lc.cls), tags=(item[3] if len(item) > 3 else ()))
            if v0 is not None:
                v1 = lc.variant(s2)
                self.oblige("%s.variant" % tag, z3.And(to_z3(v1) < to_z3(v0), to_z3(v0) >= 0 if True else True), cls="S")
            raise PathEnd()
        else:
            if c:
                raise PathEnd()
            # exit: inv and not guard hold; continue after the loop
            self.exec_block(st.orelse, env)

    def x_For(self, st, env):
        it = self.eval(st.iter, env)
        seq = self.as_iterable(it)
        if not isinstance(seq, SymSeq) or isinstance(seq.n, int):
            items = list(seq) if not isinstance(seq, SymSeq) else [seq.get(i) for i in range(seq.n)]
            broke = False
            for x in items:
                self.assign(st.target, x, env)
                try:
                    self.exec_block(st.body, env)
                except _Break:
                    broke = True
                    break
                except _Continue:
                    continue
            if not broke:
                self.exec_block(st.orelse, env)
            return
        lc = self.loop_contract(st, env)
        if lc is None or lc[0] is None:
            raise Unsupported("for loop over a sequence of symbolic length needs an invariant (line %d: %s)%s" % (st.lineno, _loop_header(st), ("; drift: " + self.loops_off) if getattr(self, "loops_off", None) else ""))
        lc, ordn = lc
        tag = "loop%d" % ordn
        n = seq.n
        n_eff = ite(lift(n) >= 0, n, 0) if not self.must(to_z3(n) >= 0) else n
        entry = dict(env.vars)
        s0 = LoopState(self, env, k=0, n=n_eff, seq=seq, entry=entry)
        for item in self.spec_eval(lambda: lc.inv(s0)):
            self.oblige("%s.init.%s" % (tag, item[0]), item[1], cls=(item[2] if len(item) > 2 else lc.cls), tags=(item[3] if len(item) > 3 else ()))
        mod = (_assigned_names(st) | set(lc.havoc)) - _target_names(st.target)
        arbitrary = self.decide(tag)
        if arbitrary:
            k = self.fresh_int("k_" + tag)
            self.assume(z3.And(k.t >= 0, k.t < to_z3(n_eff)))
            env.vars["__k_" + tag] = k
        else:
            env.vars["__k_" + tag] = n_eff
        self.havoc(env, mod, lc, st, entry)
        if arbitrary:
            s1 = LoopState(self, env, k=k, n=n_eff, seq=seq, entry=entry, mode="assume")
            for item in self.spec_eval(lambda: lc.inv(s1)):
                self.assume(zb(item[1]))
            self.assign(st.target, seq.get(k), env)
            try:
                self.exec_block(st.body, env)
            except _Continue:
                pass
            except _Break:
                raise Unsupported("break inside a loop under contract")
            s2 = LoopState(self, env, k=k + 1, n=n_eff, seq=seq, entry=entry)
            self.in_preserve = True
            items2 = self.spec_eval(lambda: lc.inv(s2))
            self.in_preserve = False
            for item in items2:
                self.oblige("%s.preserve.%s" % (tag, item[0]), item[1], cls=(item[2] if len(item) > 2 else lc.cls), tags=(item[3] if len(item) > 3 else ()))
            raise PathEnd()
        else:
            s1 = LoopState(self, env, k=n_eff, n=n_eff, seq=seq, entry=entry, mode="assume")
            for item in self.spec_eval(lambda: lc.inv(s1)):
                self.assume(zb(item[1]))
            # python leaves the loop variable bound to the last element; not relied upon here
            self.exec_block(st.orelse, env)

    def havoc(self, env, names, lc, st, entry):
        s = LoopState(self, env, entry=entry)
        self._rebound = _rebound_names(st)
        for name in sorted(names):
            if name in lc.havoc:
                f = lc.havoc[name]
                if f is None:
                    continue
                env.vars[name] = f(s)
                continue
            if not env.has(name):
                continue     # first assigned inside the loop: dead on entry of an arbitrary iteration
            env.vars[name] = self.havoc_value(name, env.lookup(name))

    def havoc_value(self, name, v):
        from .arrays import fresh_symbolic
        if isinstance(v, bool):
            return self.fresh_bool(name)
        if isinstance(v, BoolV):
            return self.fresh_bool(name)
        if isinstance(v, int):
            return self.fresh_int(name)
        if isinstance(v, (float,)):
            return self.fresh_real(name)
        if isinstance(v, Num):
            if v.is_int:
                return self.fresh_int(name)
            return self.fresh_real(name, maybe_inf=not (isinstance(v.k, int) and v.k == 0))
        if isinstance(v, Arr):
            if name in getattr(self, "_rebound", {name}):
                shape = tuple(d if isinstance(d, int) else self.fresh_int(name + "_dim", lo=0) for d in v.shape)
            else:
                shape = v.shape        # only written in place inside the loop: same buffer shape
            # the havocked array keeps the *ownership* of the original (a parameter's buffer stays a parameter's buffer)
            return fresh_symbolic(name, shape, dtype=v.kind, eng=self, origin=v.buf.origin if (v.buf.origin or "").startswith("param:") else None)
        raise Unsupported("default havoc of %s (%s): give a factory in the loop contract" % (name, type(v).__name__))

    # ------------------------------------------------------------------ assignment targets
    def assign(self, t, v, env):
        if isinstance(t, ast.Name):
            self.assign_name(t.id, v, env)
        elif isinstance(t, (ast.Tuple, ast.List)):
            vals = self.unpack(v, len(t.elts))
            for e, x in zip(t.elts, vals):
                self.assign(e, x, env)
        elif isinstance(t, ast.Subscript):
            obj = self.eval(t.value, env)
            self.setitem(obj, self.eval_index(t.slice, env), v)
        elif isinstance(t, ast.Attribute):
            self.setattr(self.eval(t.value, env), t.attr, v)
        else:
            raise Unsupported("assignment target %s" % type(t).__name__)

    def assign_name(self, name, v, env):
        env.vars[name] = v

    def unpack(self, v, n):
        if isinstance(v, (tuple, list)):
            if len(v) != n:
                self.py_raise("ValueError", "unpack %d into %d" % (len(v), n))
            return list(v)
        if isinstance(v, Arr):
            d = v.shape[0]
            if isinstance(d, int):
                if d != n:
                    self.py_raise("ValueError", "unpack")
                return [v[i] for i in range(n)]
            self.definedness(to_z3(d) == n, "unpack length")
            return [v[i] for i in range(n)]
        if isinstance(v, SymSeq):
            if isinstance(v.n, int):
                if v.n != n:
                    self.py_raise("ValueError", "unpack")
            else:
                self.definedness(to_z3(v.n) == n, "unpack length")
            return [v.get(i) for i in range(n)]
        raise Unsupported("unpack of %s" % type(v).__name__)

    def setitem(self, obj, key, v):
        from . import models
        if isinstance(obj, (Arr,)):
            obj[self.expand_ellipsis(key, obj.ndim)] = v
        elif isinstance(obj, list):
            if isinstance(key, Num):
                c = conc_of(key)
                if c is None:
                    raise Unsupported("symbolic index store into python list")
                key = c
            obj[key] = v
        elif isinstance(obj, dict):
            obj[key] = v
        elif isinstance(obj, models.SymDict):
            obj.store(key, v)
        else:
            raise Unsupported("setitem on %s" % type(obj).__name__)

    def getitem(self, obj, key):
        from . import models
        if isinstance(obj, Arr):
            key = self.expand_ellipsis(key, obj.ndim)
        if isinstance(obj, (Arr, SymSeq)):
            return obj[key]
        if isinstance(obj, (list, tuple, str)):
            if isinstance(key, Num):
                c = conc_of(key)
                if c is None:
                    from .arrays import table_lookup
                    self.definedness(z3.And(key.t >= -len(obj), key.t < len(obj)), "list index in range")
                    kk = ite(key >= 0, key, key + len(obj))
                    return table_lookup({(i,): x for i, x in enumerate(obj)}, (kk,))
                key = c
            if isinstance(key, slice):
                key = slice(*[conc_of(x) if isinstance(x, Num) else x for x in (key.start, key.stop, key.step)])
            try:
                return obj[key]
            except IndexError:
                self.py_raise("IndexError", "index out of range")
        if isinstance(obj, dict):
            if key not in obj:
                self.py_raise("KeyError", str(key))
            return obj[key]
        if isinstance(obj, (models.SymDict, models.HKResult)):
            return obj.load(key)
        if isinstance(obj, Obj):
            gi = obj.cls.lookup("__getitem__") if obj.cls else None
            if gi is not None:
                return self.call(gi, [obj, key], {})
        if hasattr(obj, "__getitem__"):
            return obj[key]
        raise Unsupported("getitem on %s" % type(obj).__name__)

    def setattr(self, obj, name, v):
        if isinstance(obj, Obj):
            cls = obj.cls
            m = cls.lookup(name) if cls else None
            if isinstance(m, Prop):
                if m.fset is None:
                    self.py_raise("AttributeError", "can't set " + name)
                self.call(m.fset, [obj, v], {})
                return
            obj.fields[name] = v
            return
        raise Unsupported("setattr on %s" % type(obj).__name__)

    def getattr(self, obj, name):
        if isinstance(obj, Obj):
            if name in obj.fields:
                return obj.fields[name]
            cls = obj.cls
            m = cls.lookup(name) if cls else None
            if m is None:
                self.py_raise("AttributeError", name)
            if isinstance(m, Prop):
                return self.call(m.fget, [obj], {})
            if isinstance(m, tuple) and m[0] == "static":
                return m[1]
            if isinstance(m, tuple) and m[0] == "const":
                return self.eval(m[1], cls.module.env)
            if isinstance(m, PyFunc):
                return BoundMethod(m, obj)
            return m
        if isinstance(obj, SuperProxy):
            for c in obj.obj.cls.mro_after(obj.cls):
                m = c.members.get(name)
                if isinstance(m, PyFunc):
                    return BoundMethod(m, obj.obj)
            # non-repo base (sklearn mixins etc.): no-op initialisers
            if name == "__init__":
                return lambda *a, **k: None
            raise Unsupported("super().%s" % name)
        if isinstance(obj, RepoClass):
            m = obj.lookup(name)
            if isinstance(m, tuple) and m[0] == "static":
                return m[1]
            if isinstance(m, PyFunc):
                return m
            raise Unsupported("class attribute %s.%s" % (obj.name, name))
        if isinstance(obj, PyFunc) and name == "__name__":
            return obj.name
        from . import models
        r = models.getattr_model(self, obj, name)
        if r is not models.MISSING:
            return r
        try:
            return getattr(obj, name)
        except AttributeError:
            raise Unsupported("attribute %s of %s" % (name, type(obj).__name__))

    # ------------------------------------------------------------------ expressions
    def truth(self, v):
        from . import models
        if isinstance(v, bool):
            return v
        if v is None:
            return False
        if isinstance(v, BoolV):
            return self.branch(v.t)
        if isinstance(v, Num):
            return self.branch(v.t != 0)
        if isinstance(v, (int, float, str, list, tuple, dict, set)):
            return bool(v)
        if isinstance(v, Arr):
            s = v.size
            if isinstance(s, int):
                if s == 0:
                    return False     # deprecated in numpy, but this is what `if dgms:` relies on
                if s == 1:
                    return self.truth(v.get(*([0] * v.ndim)))
                self.py_raise("ValueError", "truth value of an array with more than one element is ambiguous")
            # symbolic size: ambiguous unless size <= 1
            if self.branch(to_z3(s) == 0):
                return False
            if self.branch(to_z3(s) == 1):
                return self.truth(v.get(*([0] * v.ndim)))
            self.py_raise("ValueError", "truth value of an array with more than one element is ambiguous")
        if isinstance(v, SymSeq):
            return self.branch(to_z3(v.n) > 0) if not isinstance(v.n, int) else v.n > 0
        if isinstance(v, models.SymDict):
            return self.truth(v.size() > 0)
        if isinstance(v, (Obj, PyFunc, RepoClass, BoundMethod)):
            return True
        if callable(v):
            return True
        return bool(v)

    def eval(self, e, env):
        m = getattr(self, "e_" + type(e).__name__, None)
        if m is None:
            raise Unsupported("expression %s at line %d" % (type(e).__name__, getattr(e, "lineno", -1)))
        return m(e, env)

    def e_Constant(self, e, env):
        return e.value

    def e_Name(self, e, env):
        return env.lookup(e.id)

    def e_Tuple(self, e, env):
        return tuple(self.eval_elts(e.elts, env))

    def e_List(self, e, env):
        return list(self.eval_elts(e.elts, env))

    def e_Set(self, e, env):
        return set(self.eval_elts(e.elts, env))

    def eval_elts(self, elts, env):
        out = []
        for x in elts:
            if isinstance(x, ast.Starred):
                out.extend(list(self.as_iterable(self.eval(x.value, env))))
            else:
                out.append(self.eval(x, env))
        return out

    def e_Dict(self, e, env):
        d = {}
        for k, v in zip(e.keys, e.values):
            if k is None:
                d.update(self.eval(v, env))
            else:
                d[self.eval(k, env)] = self.eval(v, env)
        return d

    def e_JoinedStr(self, e, env):
        return "<f-string>"

    def e_Attribute(self, e, env):
        return self.getattr(self.eval(e.value, env), e.attr)

    def e_Subscript(self, e, env):
        obj = self.eval(e.value, env)
        return self.getitem(obj, self.eval_index(e.slice, env))

    def eval_index(self, s, env):
        if isinstance(s, ast.Slice):
            return slice(self.eval(s.lower, env) if s.lower else None,
                         self.eval(s.upper, env) if s.upper else None,
                         self.eval(s.step, env) if s.step else None)
        if isinstance(s, ast.Tuple):
            return tuple(self.eval_index(x, env) for x in s.elts)
        return self.eval(s, env)

    @staticmethod
    def expand_ellipsis(key, ndim):
        """a[..., 0] -> a[:, :, 0]: the Ellipsis stands for as many full slices as are needed"""
        if key is Ellipsis:
            return tuple([slice(None)] * ndim)
        if isinstance(key, tuple) and any(k is Ellipsis for k in key):
            n_real = sum(1 for k in key if k is not None and k is not Ellipsis)
            out = []
            for k in key:
                if k is Ellipsis:
                    out.extend([slice(None)] * (ndim - n_real))
                else:
                    out.append(k)
            return tuple(out)
        return key

    def e_Slice(self, e, env):
        return self.eval_index(e, env)

    def e_UnaryOp(self, e, env):
        v = self.eval(e.operand, env)
        if isinstance(e.op, ast.Not):
            if isinstance(v, (BoolV,)):
                return b_not(v)
            return not self.truth(v)
        if isinstance(e.op, ast.USub):
            if isinstance(v, Obj):
                m = v.cls.lookup("__neg__") if v.cls else None
                if isinstance(m, PyFunc):
                    return self.call(m, [v], {})
                self.py_raise("TypeError", "bad operand type for unary -")
            return -v
        if isinstance(e.op, ast.UAdd):
            return +v
        if isinstance(e.op, ast.Invert):
            if isinstance(v, BoolV):
                return b_not(v)
            return ~v
        raise Unsupported("unary op")

    def e_BinOp(self, e, env):
        return self.binop(e.op, self.eval(e.left, env), self.eval(e.right, env))

    _DUNDER = {ast.Add: ("__add__", "__radd__"), ast.Sub: ("__sub__", "__rsub__"), ast.Mult: ("__mul__", "__rmul__"),
               ast.Div: ("__truediv__", "__rtruediv__")}

    def obj_binop(self, op, a, b):
        names = self._DUNDER.get(type(op))
        if names is None:
            raise Unsupported("operator %s on objects" % type(op).__name__)
        if isinstance(a, Obj):
            m = a.cls.lookup(names[0]) if a.cls else None
            if isinstance(m, PyFunc):
                return self.call(m, [a, b], {})
        if isinstance(b, Obj):
            m = b.cls.lookup(names[1]) if b.cls else None
            if isinstance(m, PyFunc):
                return self.call(m, [b, a], {})
        self.py_raise("TypeError", "unsupported operand type(s)")

    def binop(self, op, a, b, inplace=False):
        import operator as O
        from .models import ObjArr
        if isinstance(a, ObjArr) or isinstance(b, ObjArr):
            # elementwise over an object array: each element pair goes through Python's operator protocol
            n = len(a.items) if isinstance(a, ObjArr) else len(b.items)
            def at(v, i):
                if isinstance(v, ObjArr):
                    if len(v.items) != n:
                        raise Unsupported("object arrays of different length")
                    return v.items[i]
                if isinstance(v, Arr):
                    if v.ndim != 1 or not isinstance(v.shape[0], int) or v.shape[0] != n:
                        raise Unsupported("broadcast of an array against an object array")
                    return v.get(i)
                return v
            return ObjArr([self.binop(op, at(a, i), at(b, i)) for i in range(n)])
        if isinstance(a, Obj) or isinstance(b, Obj):
            return self.obj_binop(op, a, b)
        if isinstance(a, list) and isinstance(b, SymSeq):
            return b.__radd__(a)
        if isinstance(op, ast.Div):
            if isinstance(a, Arr) or isinstance(b, Arr):
                return (a.__itruediv__(b) if inplace and isinstance(a, Arr) else a / b)
            return V.num_div(a, b) if (is_num(a) and is_num(b)) else a / b
        if isinstance(op, ast.FloorDiv):
            return V.num_floordiv(a, b) if (is_num(a) and is_num(b)) else a // b
        if isinstance(op, ast.Pow):
            if is_num(a) and is_num(b):
                return V.num_pow(a, b)
            return a ** b
        if isinstance(op, ast.Mod):
            if isinstance(a, str):
                return "<%-format>"
            return a % b
        table = {ast.Add: (O.add, O.iadd), ast.Sub: (O.sub, O.isub), ast.Mult: (O.mul, O.imul),
                 ast.BitAnd: (O.and_, O.iand), ast.BitOr: (O.or_, O.ior), ast.BitXor: (O.xor, O.ixor),
                 ast.LShift: (O.lshift, O.ilshift), ast.RShift: (O.rshift, O.irshift),
                 ast.MatMult: (O.matmul, O.imatmul)}
        f = table.get(type(op))
        if f is None:
            raise Unsupported("binary op %s" % type(op).__name__)
        if isinstance(a, bool) and isinstance(b, (Num, BoolV)):
            a = int(a)
        if isinstance(op, ast.Mult) and isinstance(a, (list,)) and isinstance(b, Num):
            raise Unsupported("list repetition by symbolic count")
        if isinstance(a, float) and conc_of(b) is None and isinstance(b, Num) and V.conc_inf_kind(a) != 0:
            a = lift(a)
        return (f[1] if inplace and isinstance(a, Arr) else f[0])(a, b)

    def e_BoolOp(self, e, env):
        # `a and b` / `a or b` return one of the operands, not a bool: a symbolic number stays that number
        # (its truth value is decided on this path); a symbolic bool becomes the constant decided on this path
        if isinstance(e.op, ast.And):
            v = True
            for i, x in enumerate(e.values):
                v = self.eval(x, env)
                last = i == len(e.values) - 1
                if isinstance(v, BoolV):
                    t = self.truth(v)
                    if not t:
                        return False
                    v = True
                elif not last and not self.truth(v):
                    return v
            return v
        v = False
        for i, x in enumerate(e.values):
            v = self.eval(x, env)
            last = i == len(e.values) - 1
            if isinstance(v, BoolV):
                t = self.truth(v)
                if t:
                    return True
                v = False
            elif not last and self.truth(v):
                return v
        return v

    def e_Compare(self, e, env):
        left = self.eval(e.left, env)
        result = True
        for op, rn in zip(e.ops, e.comparators):
            right = self.eval(rn, env)
            r = self.compare(op, left, right)
            if len(e.ops) == 1:
                return r
            if not self.truth(r):
                return False
            left = right
        return result

    def compare(self, op, a, b):
        from . import models
        import operator as O
        if isinstance(op, ast.Is):
            return a is b
        if isinstance(op, ast.IsNot):
            return a is not b
        if isinstance(op, (ast.In, ast.NotIn)):
            r = models.contains(self, b, a)
            return b_not(r) if isinstance(op, ast.NotIn) else r
        if isinstance(op, (ast.Eq, ast.NotEq)):
            if isinstance(a, Arr) or isinstance(b, Arr):
                if isinstance(a, (list, tuple)) or isinstance(b, (list, tuple)):
                    from .arrays import from_nested
                    a = from_nested(list(a)) if isinstance(a, (list, tuple)) else a
                    b = from_nested(list(b)) if isinstance(b, (list, tuple)) else b
                return (a != b) if isinstance(op, ast.NotEq) else (a == b)
            r = models.generic_eq(self, a, b)
            return b_not(r) if isinstance(op, ast.NotEq) else r
        f = {ast.Lt: O.lt, ast.LtE: O.le, ast.Gt: O.gt, ast.GtE: O.ge}[type(op)]
        if isinstance(a, bool):
            a = int(a)
        if isinstance(b, bool):
            b = int(b)
        if isinstance(a, float) and isinstance(b, Num):
            a = lift(a)
        return f(a, b)

    def e_IfExp(self, e, env):
        if self.truth(self.eval(e.test, env)):
            return self.eval(e.body, env)
        return self.eval(e.orelse, env)

    def e_Lambda(self, e, env):
        return PyFunc(e, env, env.module, "<lambda>")

    def e_Call(self, e, env):
        from . import models
        # special forms
        if isinstance(e.func, ast.Name) and e.func.id == "super" and not e.args:
            f = env.lookup("__func__")
            return SuperProxy(env.lookup(f.node.args.args[0].arg), f.cls)
        if isinstance(e.func, ast.Attribute) and isinstance(e.func.value, ast.Constant) and isinstance(e.func.value.value, str) \
                and e.func.attr == "format":
            args = [self.eval(a, env) for a in e.args]
            if e.func.value.value == "{}" and len(args) == 1 and isinstance(args[0], (int, Num)):
                return FmtKey(args[0])
            return "<formatted>"
        # zip(*rows) over a sequence of symbolic length whose rows have a fixed width: the transposition (one sequence per column)
        if isinstance(e.func, ast.Name) and e.func.id == "zip" and len(e.args) == 1 and isinstance(e.args[0], ast.Starred) and not e.keywords:
            rows = self.as_iterable(self.eval(e.args[0].value, env))
            if isinstance(rows, SymSeq) and not isinstance(rows.n, int):
                probe = self.spec_eval(lambda: rows.get(0))
                if not isinstance(probe, (list, tuple)):
                    raise Unsupported("zip(*rows) over rows that are not fixed-width lists")
                cols = []
                for c in range(len(probe)):
                    col = SymSeq(rows.n, (lambda k, c=c: rows.get(k)[c]), kind="tuple")
                    col.column_of = (getattr(rows, "rowid", None), c)
                    cols.append(col)
                return cols
        f = self.eval(e.func, env)
        pos = []
        for a in e.args:
            if isinstance(a, ast.Starred):
                pos.extend(list(self.as_iterable(self.eval(a.value, env))))
            else:
                pos.append(self.eval(a, env))
        kw = {}
        for k in e.keywords:
            if k.arg is None:
                kw.update(self.eval(k.value, env))
            else:
                kw[k.arg] = self.eval(k.value, env)
        if isinstance(f, models.NeedsEngine):
            return f.fn(self, env, e, pos, kw)
        return self.call(f, pos, kw)

    # -- comprehensions
    def e_ListComp(self, e, env):
        return self.comprehension(e, env, "list")

    def e_GeneratorExp(self, e, env):
        return self.comprehension(e, env, "gen")

    def e_SetComp(self, e, env):
        return self.comprehension(e, env, "set")

    def e_DictComp(self, e, env):
        # dict comprehension over concrete iterables only (one or more generators, optional filters decided on this path)
        out = {}

        def rec(gi, env2):
            if gi == len(e.generators):
                out[self.eval(e.key, env2)] = self.eval(e.value, env2)
                return
            g = e.generators[gi]
            it = self.as_iterable(self.eval(g.iter, env2))
            if isinstance(it, SymSeq) and not isinstance(it.n, int):
                raise Unsupported("dict comprehension over a sequence of symbolic length")
            items = list(it) if not isinstance(it, SymSeq) else [it.get(i) for i in range(it.n)]
            for x in items:
                env3 = Env(parent=env2)
                self.assign(g.target, x, env3)
                if all(self.truth(self.eval(c, env3)) for c in g.ifs):
                    rec(gi + 1, env3)
        rec(0, env)
        return out

    def comprehension(self, e, env, kind):
        from . import models
        gens = e.generators
        g0 = gens[0]
        it = self.as_iterable(self.eval(g0.iter, env))
        sym = isinstance(it, SymSeq) and not isinstance(it.n, int)
        if sym:
            if len(gens) != 1:
                raise Unsupported("nested comprehension over symbolic sequence")
            if kind == "set":
                # {x for x in range(n) if cond}  ->  membership closure
                if not (isinstance(e.elt, ast.Name) and isinstance(g0.target, ast.Name) and e.elt.id == g0.target.id):
                    raise Unsupported("set comprehension shape")
                seq = it
                if getattr(seq, "kind", "") != "range":
                    raise Unsupported("set comprehension over non-range")

                def mem(v, seq=seq):
                    ce = Env(parent=env)
                    ce.vars[g0.target.id] = v
                    inr = b_and(lift(v) >= 0, lift(v) < seq.n)
                    conds = [inr]
                    for c in g0.ifs:
                        # the filter is only evaluated for elements of the range
                        conds.append(self.under(zb(inr), lambda c=c: self.as_bool(self.eval(c, ce))))
                    return b_and(*conds)
                return models.SymSet(mem)
            if g0.ifs:
                if kind != "gen":
                    raise Unsupported("filtered comprehension over symbolic sequence")
                seq0 = it

                def cond(x):
                    ce = Env(parent=env)
                    self.assign(g0.target, x, ce)
                    return b_and(*[self.as_bool(self.eval(c, ce)) for c in g0.ifs])

                def elt(x):
                    ce = Env(parent=env)
                    self.assign(g0.target, x, ce)
                    return self.eval(e.elt, ce)
                return models.FilteredGen(seq0, cond, elt)
            seq = it

            def get(k, seq=seq):
                ce = Env(parent=env)
                self.assign(g0.target, seq.get(k), ce)
                return self.eval(e.elt, ce)
            if kind == "gen":
                return models.SymGen(SymSeq(seq.n, get))
            return SymSeq(seq.n, get)
        items = list(it) if not isinstance(it, SymSeq) else [it.get(i) for i in range(it.n)]
        out = []

        def rec(gi, cenv):
            if gi == len(gens):
                out.append(self.eval(e.elt, cenv))
                return
            g = gens[gi]
            seq = items if gi == 0 else self.as_iterable(self.eval(g.iter, cenv))
            if isinstance(seq, SymSeq):
                if not isinstance(seq.n, int):
                    raise Unsupported("inner symbolic generator")
                seq = [seq.get(i) for i in range(seq.n)]
            for x in seq:
                ce = Env(parent=cenv)
                self.assign(g.target, x, ce)
                if all(self.truth(self.eval(c, ce)) for c in g.ifs):
                    rec(gi + 1, ce)
        rec(0, env)
        if kind == "set":
            return set(out)
        if kind == "gen":
            return models.GenList(out)
        return out

    def as_bool(self, v):
        if isinstance(v, (bool, BoolV)):
            return v
        if isinstance(v, Num):
            return v != 0
        return self.truth(v)

    def as_iterable(self, v):
        from . import models
        if isinstance(v, SymSeq):
            return v
        if isinstance(v, Arr):
            n = v.shape[0]
            if isinstance(n, int):
                return [v[i] for i in range(n)]
            return v.as_seq()
        if isinstance(v, (list, tuple, range, set, str, dict)):
            return v
        if isinstance(v, models.GenList):
            return v.items
        if isinstance(v, Obj):
            # legacy iteration protocol: an object without __iter__ is iterated by calling __getitem__(0), (1), ... until IndexError.
            # For the grid landscapes __getitem__(k) indexes self.values, and NumPy raises IndexError exactly at k == len(values)
            # (assumption D25); the elements are produced by the real __getitem__.
            gi = v.cls.lookup("__getitem__") if v.cls else None
            it = v.cls.lookup("__iter__") if v.cls else None
            if gi is not None and it is None:
                vals = v.fields.get("values")
                if isinstance(vals, Arr):
                    n = vals.shape[0]
                    if isinstance(n, int):
                        return [self.call(gi, [v, i], {}) for i in range(n)]
                    return SymSeq(n, lambda k: self.call(gi, [v, k], {}))
        if hasattr(v, "__iter__"):
            return list(v)
        raise Unsupported("iteration over %s" % type(v).__name__)


class ArgView:
    """what contract clauses see: arguments by name, ghost values, helpers"""

    def __init__(self, args, ghost, eng):
        self.__dict__.update(args)
        self.args = args
        self.g = ghost
        self.eng = eng
        self.warnings = []


# ============================================================================= AST helpers
def _walk_loops(fnode):
    """loops of a function in source order, not descending into nested function definitions"""
    out = []

    def rec(n):
        for ch in ast.iter_child_nodes(n):
            if isinstance(ch, (ast.FunctionDef, ast.Lambda, ast.ClassDef)):
                continue
            if isinstance(ch, (ast.For, ast.While)):
                out.append(ch)
            rec(ch)
    rec(fnode)
    out.sort(key=lambda n: (n.lineno, n.col_offset))
    return out


def _snapshot_lists(args, depth=2):
    """python lists handed over as (or inside) arguments, with a shallow copy of each: compared after the call (frame clause)"""
    out = []

    def rec(nm, v, d):
        if isinstance(v, list):
            out.append((nm, v, list(v)))
            if d > 0:
                for i, x in enumerate(v):
                    rec("%s[%d]" % (nm, i), x, d - 1)
        elif isinstance(v, tuple) and d > 0:
            for i, x in enumerate(v):
                rec("%s[%d]" % (nm, i), x, d - 1)
    items = args.items() if isinstance(args, dict) else enumerate(args if isinstance(args, (list, tuple)) else [])
    for k, v in items:
        rec(str(k), v, depth)
    return out


def _loop_header(st):
    if isinstance(st, ast.While):
        return "while " + ast.unparse(st.test)
    return "for %s in %s" % (ast.unparse(st.target), ast.unparse(st.iter))


def _target_names(t):
    return {n.id for n in ast.walk(t) if isinstance(n, ast.Name)}


def _assigned_names(st):
    """names (re)bound or mutated-through in the body of loop `st`"""
    out = set()
    MUT = {"append", "pop", "insert", "extend", "sort", "remove", "clear", "update", "add"}
    for n in ast.walk(st):
        if isinstance(n, (ast.Assign, ast.AugAssign, ast.AnnAssign)):
            ts = n.targets if isinstance(n, ast.Assign) else [n.target]
            for t in ts:
                for x in ast.walk(t):
                    if isinstance(x, ast.Name) and isinstance(x.ctx, ast.Store):
                        out.add(x.id)
                base = t
                while isinstance(base, (ast.Subscript, ast.Attribute)):
                    base = base.value
                if isinstance(base, ast.Name) and base is not t:
                    out.add(base.id)
        elif isinstance(n, (ast.For,)):
            if n is not st:
                out |= _target_names(n.target)
        elif isinstance(n, ast.Call) and isinstance(n.func, ast.Attribute) and n.func.attr in MUT:
            base = n.func.value
            while isinstance(base, (ast.Subscript, ast.Attribute)):
                base = base.value
            if isinstance(base, ast.Name):
                out.add(base.id)
        elif isinstance(n, ast.NamedExpr):
            out.add(n.target.id)
        elif isinstance(n, ast.Call) and isinstance(n.func, ast.Name) and n.func.id == "next" and n.args and isinstance(n.args[0], ast.Name):
            out.add(n.args[0].id)
    if isinstance(st, ast.For):
        out |= _target_names(st.target)
    return out


def _rebound_names(st):
    """names re-bound by a plain assignment (or loop target) somewhere in loop `st`"""
    out = set()
    for n in ast.walk(st):
        if isinstance(n, ast.Assign):
            for t in n.targets:
                for x in ast.walk(t):
                    if isinstance(x, ast.Name) and isinstance(x.ctx, ast.Store):
                        out.add(x.id)
        elif isinstance(n, ast.AnnAssign) and isinstance(n.target, ast.Name):
            out.add(n.target.id)
        elif isinstance(n, ast.For):
            out |= _target_names(n.target)
    return out


def _slug(s):
    return "".join(ch if ch.isalnum() else "_" for ch in s)[:40]
