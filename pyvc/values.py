"""Symbolic values for the VC generator (engine E1).

Numbers
  python int / float / Fraction        concrete
  Num(t, k)                            z3 Int- or Real-sorted term `t`; `k` is the infinity kind:
                                       python 0 (known finite) or a z3 Int term in {-1,0,1}
                                       (A1: floats are reals plus tagged +-inf; an operation that would
                                       produce NaN raises a *definedness obligation* instead of a value)
  BoolV(t)                             z3 Bool term; truthiness forks the path via the current engine

Comparisons between symbolic values return BoolV; `bool(BoolV)` calls Engine.branch.
"""
import math
import operator
from fractions import Fraction

import z3

ENGINE = None          # the Engine currently executing a path (set by Engine.run_path)
CONCRETE_EVAL = None   # set by selftest/crosscheck.py: numeric evaluation of closed terms (concrete mode only)


def cur():
    if ENGINE is None:
        raise RuntimeError("no engine active")
    return ENGINE


class Unsupported(Exception):
    """The interpreter / a model met something it cannot encode -> function is *undecided*."""


# ----------------------------------------------------------------------------- lifting
def is_conc_num(x):
    return isinstance(x, (int, float, Fraction)) and not isinstance(x, bool)


def is_num(x):
    return isinstance(x, Num) or is_conc_num(x) or isinstance(x, bool)


def conc_inf_kind(x):
    if isinstance(x, float):
        if x == math.inf:
            return 1
        if x == -math.inf:
            return -1
        if x != x:
            raise Unsupported("concrete NaN")
    return 0


def to_z3(x):
    """z3 arithmetic term of a (finite part of a) number."""
    if isinstance(x, Num):
        return x.t
    if isinstance(x, bool):
        return z3.IntVal(1 if x else 0)
    if isinstance(x, int):
        return z3.IntVal(x)
    if isinstance(x, Fraction):
        if x.denominator == 1:
            return z3.RealVal(x.numerator)
        return z3.Q(x.numerator, x.denominator)
    if isinstance(x, float):
        if math.isinf(x):
            return z3.RealVal(0)
        # decimal reading of the literal (A1: floats are reals); repr is the shortest round-trip
        f = Fraction(repr(x)) if "e" not in repr(x) and "E" not in repr(x) else Fraction(x)
        if f.denominator == 1:
            return z3.RealVal(f.numerator)
        return z3.Q(f.numerator, f.denominator)
    if isinstance(x, BoolV):
        return z3.If(x.t, z3.IntVal(1), z3.IntVal(0))
    raise Unsupported("to_z3(%r)" % type(x).__name__)


def kind_of(x):
    if isinstance(x, Num):
        return x.k
    if is_conc_num(x):
        return conc_inf_kind(x)
    return 0


def lift(x):
    """any number -> Num"""
    if isinstance(x, Num):
        return x
    if isinstance(x, BoolV):
        return Num(to_z3(x))
    return Num(to_z3(x), kind_of(x))


def is_int_sorted(x):
    if isinstance(x, Num):
        return x.t.sort().kind() == z3.Z3_INT_SORT
    return isinstance(x, (int, bool))


def to_real(t):
    if t.sort().kind() == z3.Z3_INT_SORT:
        return z3.ToReal(t)
    return t


def zb(x):
    """truth value -> z3 Bool"""
    if isinstance(x, BoolV):
        return x.t
    if isinstance(x, bool):
        return z3.BoolVal(x)
    if isinstance(x, z3.BoolRef):
        return x
    if isinstance(x, Num):
        return x.t != 0
    if isinstance(x, (int, float)):
        return z3.BoolVal(bool(x))
    raise Unsupported("zb(%r)" % type(x).__name__)


def mkbool(t):
    """z3 Bool -> python bool when it is a constant, else BoolV"""
    if isinstance(t, bool):
        return t
    if z3.is_true(t):
        return True
    if z3.is_false(t):
        return False
    s = z3.simplify(t)
    if z3.is_true(s):
        return True
    if z3.is_false(s):
        return False
    return BoolV(s)


def conc_of(x):
    """If a Num holds a numeral, return the python number, else None."""
    if is_conc_num(x) or isinstance(x, bool):
        return x
    if isinstance(x, Num) and isinstance(x.k, int):
        t = z3.simplify(x.t)
        if z3.is_int_value(t):
            if x.k == 0:
                return t.as_long()
        elif z3.is_rational_value(t) and x.k == 0:
            return Fraction(t.numerator_as_long(), t.denominator_as_long())
        if x.k == 1:
            return math.inf
        if x.k == -1:
            return -math.inf
    return None


# ----------------------------------------------------------------------------- BoolV
class BoolV:
    __slots__ = ("t",)

    def __init__(self, t):
        self.t = t

    def __bool__(self):
        return cur().branch(self.t)

    def __invert__(self):
        return mkbool(z3.Not(self.t))

    def __and__(self, o):
        return mkbool(z3.And(self.t, zb(o)))

    __rand__ = __and__

    def __or__(self, o):
        return mkbool(z3.Or(self.t, zb(o)))

    __ror__ = __or__

    def __xor__(self, o):
        return mkbool(z3.Xor(self.t, zb(o)))

    def __eq__(self, o):
        return mkbool(self.t == zb(o))

    def __ne__(self, o):
        return mkbool(self.t != zb(o))

    def __hash__(self):
        return id(self)

    # numeric use of a bool (True == 1)
    def _num(self):
        return Num(z3.If(self.t, z3.IntVal(1), z3.IntVal(0)))

    def __add__(self, o):
        return self._num() + o

    __radd__ = __add__

    def __mul__(self, o):
        return self._num() * o

    __rmul__ = __mul__

    def __repr__(self):
        return "BoolV(%s)" % self.t


def b_and(*xs):
    return mkbool(z3.And(*[zb(x) for x in xs])) if xs else True


def b_or(*xs):
    return mkbool(z3.Or(*[zb(x) for x in xs])) if xs else False


def b_not(x):
    if isinstance(x, bool):
        return not x
    return mkbool(z3.Not(zb(x)))


def b_implies(a, b):
    return mkbool(z3.Implies(zb(a), zb(b)))


# ----------------------------------------------------------------------------- Num
def _kterm(k):
    return z3.IntVal(k) if isinstance(k, int) else k


def _both_finite(a, b):
    return isinstance(a.k, int) and a.k == 0 and isinstance(b.k, int) and b.k == 0


class Num:
    __slots__ = ("t", "k")
    __array_priority__ = 1000

    def __init__(self, t, k=0):
        self.t = t
        self.k = k

    # -- helpers
    @property
    def is_int(self):
        return self.t.sort().kind() == z3.Z3_INT_SORT

    def finite(self):
        """BoolV/bool: value is finite"""
        if isinstance(self.k, int):
            return self.k == 0
        return mkbool(self.k == 0)

    def __hash__(self):
        return id(self)

    def __repr__(self):
        if isinstance(self.k, int) and self.k == 0:
            return "Num(%s)" % self.t
        return "Num(%s, k=%s)" % (self.t, self.k)

    def __bool__(self):
        return bool(self != 0)

    def __index__(self):
        c = conc_of(self)
        if isinstance(c, int):
            return c
        raise Unsupported("symbolic integer used where a concrete index is required: %s" % self.t)

    def __int__(self):
        raise Unsupported("int() of symbolic value outside the model (use builtins model)")

    def __float__(self):
        raise Unsupported("float() of symbolic value outside the model")

    # -- arithmetic
    def _bin(self, o, op, name):
        if not is_num(o) and not isinstance(o, BoolV):
            return NotImplemented
        a, b = self, lift(o)
        if _both_finite(a, b):
            return Num(op(a.t, b.t))
        return _inf_arith(a, b, op, name)

    def _rbin(self, o, op, name):
        if not is_num(o) and not isinstance(o, BoolV):
            return NotImplemented
        a, b = lift(o), self
        if _both_finite(a, b):
            return Num(op(a.t, b.t))
        return _inf_arith(a, b, op, name)

    def __add__(self, o):
        return self._bin(o, operator.add, "add")

    def __radd__(self, o):
        return self._rbin(o, operator.add, "add")

    def __sub__(self, o):
        return self._bin(o, operator.sub, "sub")

    def __rsub__(self, o):
        return self._rbin(o, operator.sub, "sub")

    def __mul__(self, o):
        return self._bin(o, operator.mul, "mul")

    def __rmul__(self, o):
        return self._rbin(o, operator.mul, "mul")

    def __truediv__(self, o):
        if not is_num(o):
            return NotImplemented
        return num_div(self, o)

    def __rtruediv__(self, o):
        if not is_num(o):
            return NotImplemented
        return num_div(o, self)

    def __floordiv__(self, o):
        if not is_num(o):
            return NotImplemented
        return num_floordiv(self, o)

    def __rfloordiv__(self, o):
        if not is_num(o):
            return NotImplemented
        return num_floordiv(o, self)

    def __mod__(self, o):
        if not is_num(o):
            return NotImplemented
        return self - num_floordiv(self, o) * o

    def __neg__(self):
        k = self.k
        return Num(-self.t, (-k) if isinstance(k, int) else -k)

    def __pos__(self):
        return self

    def __abs__(self):
        k = self.k
        if isinstance(k, int):
            kk = abs(k)
        else:
            kk = z3.If(k == 0, z3.IntVal(0), z3.IntVal(1))
        return Num(z3.If(self.t >= 0, self.t, -self.t), kk)

    def __pow__(self, o):
        if not is_num(o):
            return NotImplemented
        return num_pow(self, o)

    def __rpow__(self, o):
        if not is_num(o):
            return NotImplemented
        return num_pow(o, self)

    # -- comparisons
    def _cmp(self, o, op, name):
        if not is_num(o) and not isinstance(o, BoolV):
            return NotImplemented
        a, b = self, lift(o)
        if _both_finite(a, b):
            return mkbool(op(a.t, b.t))
        ka, kb = _kterm(a.k), _kterm(b.k)
        fin = z3.And(ka == 0, kb == 0)
        return mkbool(z3.If(fin, op(a.t, b.t), op(ka, kb)))

    def __lt__(self, o):
        return self._cmp(o, operator.lt, "lt")

    def __le__(self, o):
        return self._cmp(o, operator.le, "le")

    def __gt__(self, o):
        return self._cmp(o, operator.gt, "gt")

    def __ge__(self, o):
        return self._cmp(o, operator.ge, "ge")

    def __eq__(self, o):
        if o is None or isinstance(o, str):
            return False
        r = self._cmp(o, operator.eq, "eq")
        return False if r is NotImplemented else r

    def __ne__(self, o):
        if o is None or isinstance(o, str):
            return True
        r = self._cmp(o, operator.ne, "ne")
        return True if r is NotImplemented else r


def _inf_arith(a, b, op, name):
    """extended-real arithmetic with definedness obligations for the NaN cases"""
    e = cur()
    ka, kb = _kterm(a.k), _kterm(b.k)
    if name in ("add", "sub"):
        kb2 = kb if name == "add" else -kb
        # inf + (-inf) undefined
        e.definedness(z3.Not(z3.And(ka != 0, kb2 != 0, ka != kb2)), "inf-inf in " + name)
        k = z3.If(ka != 0, ka, kb2)
        return Num(op(a.t, b.t), _simp_kind(k))
    if name == "mul":
        za = z3.And(ka == 0, a.t == 0)
        zb_ = z3.And(kb == 0, b.t == 0)
        e.definedness(z3.Not(z3.Or(z3.And(za, kb != 0), z3.And(zb_, ka != 0))), "0*inf")
        sa = z3.If(ka != 0, ka, z3.If(a.t > 0, z3.IntVal(1), z3.If(a.t < 0, z3.IntVal(-1), z3.IntVal(0))))
        sb = z3.If(kb != 0, kb, z3.If(b.t > 0, z3.IntVal(1), z3.If(b.t < 0, z3.IntVal(-1), z3.IntVal(0))))
        k = z3.If(z3.And(ka == 0, kb == 0), z3.IntVal(0), sa * sb)
        return Num(op(a.t, b.t), _simp_kind(k))
    raise Unsupported("infinite operand in " + name)


def _simp_kind(k):
    s = z3.simplify(k)
    if z3.is_int_value(s):
        return s.as_long()
    return s


def num_div(a, b):
    """true division (python / numpy float semantics on reals)"""
    if is_conc_num(a) and is_conc_num(b) and not isinstance(a, Num) and not isinstance(b, Num):
        return a / b
    a, b = lift(a), lift(b)
    e = cur()
    if not _both_finite(a, b):
        ka, kb = _kterm(a.k), _kterm(b.k)
        e.definedness(z3.Not(z3.And(ka != 0, kb != 0)), "inf/inf")
        e.definedness(z3.Or(kb != 0, b.t != 0), "division by zero")
        # finite / inf = 0 ; inf / finite = +-inf
        sb = z3.If(b.t > 0, z3.IntVal(1), z3.IntVal(-1))
        k = _simp_kind(z3.If(ka != 0, ka * sb, z3.IntVal(0)))
        t = z3.If(kb != 0, z3.RealVal(0), to_real(a.t) / z3.If(b.t == 0, z3.RealVal(1), to_real(b.t)))
        return Num(t, k)
    e.definedness(b.t != 0, "division by zero")
    return Num(to_real(a.t) / to_real(b.t))


def num_floordiv(a, b):
    if is_conc_num(a) and is_conc_num(b) and not isinstance(a, Num) and not isinstance(b, Num):
        return a // b
    a, b = lift(a), lift(b)
    if not _both_finite(a, b):
        raise Unsupported("floordiv with infinity")
    e = cur()
    e.definedness(b.t != 0, "integer division by zero")
    if a.is_int and b.is_int:
        return Num(z3.If(b.t > 0, a.t / b.t, (-a.t) / (-b.t)))
    q = to_real(a.t) / to_real(b.t)
    return Num(z3.ToReal(z3.ToInt(q)))


_POW = None


def pow_uf():
    global _POW
    if _POW is None:
        _POW = z3.Function("uf_pow", z3.RealSort(), z3.RealSort(), z3.RealSort())
    return _POW


def num_pow(a, b):
    cb = conc_of(b)
    if cb is not None and not isinstance(a, Num) and is_conc_num(a):
        return a ** cb
    if isinstance(cb, Fraction) and cb.denominator == 1:
        cb = int(cb)
    if isinstance(cb, float) and cb == int(cb) and abs(cb) < 64:
        cb = int(cb)
    a = lift(a)
    if not (isinstance(a.k, int) and a.k == 0):
        raise Unsupported("power of possibly infinite base")
    if isinstance(cb, int) and 0 <= cb <= 8:
        if cb == 0:
            return 1
        t = a.t
        r = t
        for _ in range(cb - 1):
            r = r * t
        return Num(r)
    if isinstance(cb, int) and -8 <= cb < 0:
        return num_div(1, num_pow(a, -cb))
    # symbolic or fractional exponent: uninterpreted pow with a definedness obligation (A6)
    bl = lift(b)
    e = cur()
    if not (isinstance(bl.k, int) and bl.k == 0):
        raise Unsupported("power with possibly infinite exponent")
    e.definedness(z3.Or(a.t >= 0, e.is_integer_valued(bl.t)), "fractional power of a negative base (NaN)")
    e.definedness(z3.Or(a.t != 0, bl.t >= 0), "zero to a negative power")
    r = pow_uf()(to_real(a.t), to_real(bl.t))
    e.axiom(z3.And(z3.Implies(a.t > 0, r > 0), z3.Implies(a.t >= 0, r >= 0)))          # sign of a power of a non-negative base
    return Num(r)


def ite(c, x, y):
    """value-level if-then-else (c: truth value)"""
    if isinstance(c, bool):
        return x if c else y
    ct = zb(c)
    if x is y:
        return x
    if isinstance(x, (BoolV, bool)) and isinstance(y, (BoolV, bool)):
        return mkbool(z3.If(ct, zb(x), zb(y)))
    if is_num(x) and is_num(y):
        a, b = lift(x), lift(y)
        ta, tb = a.t, b.t
        if ta.sort() != tb.sort():
            ta, tb = to_real(ta), to_real(tb)
        if _both_finite(a, b):
            return Num(z3.If(ct, ta, tb))
        return Num(z3.If(ct, ta, tb), _simp_kind(z3.If(ct, _kterm(a.k), _kterm(b.k))))
    raise Unsupported("ite over %s / %s" % (type(x).__name__, type(y).__name__))


def num_eq(a, b):
    """truth value of a == b for numbers (python bool or BoolV)"""
    if isinstance(a, Num):
        return a == b
    if isinstance(b, Num):
        return b == a
    if isinstance(a, BoolV) or isinstance(b, BoolV):
        return mkbool(zb(a) == zb(b))
    return a == b


def num_max(a, b):
    if not isinstance(a, Num) and not isinstance(b, Num):
        return a if a >= b else b
    return ite(lift(a) >= b, a, b)


def num_min(a, b):
    if not isinstance(a, Num) and not isinstance(b, Num):
        return a if a <= b else b
    return ite(lift(a) <= b, a, b)


def num_abs(a):
    return abs(a)


def to_int_trunc(x):
    """python int(x): truncation toward zero"""
    if isinstance(x, bool):
        return int(x)
    if is_conc_num(x):
        return int(x)
    if isinstance(x, BoolV):
        return x._num()
    if isinstance(x, Num):
        if not (isinstance(x.k, int) and x.k == 0):
            cur().definedness(_kterm(x.k) == 0, "int() of infinity")
        if x.is_int:
            return x
        return Num(z3.If(x.t >= 0, z3.ToInt(x.t), -z3.ToInt(-x.t)))
    raise Unsupported("int(%s)" % type(x).__name__)


def num_ceil(x):
    if is_conc_num(x):
        return float(math.ceil(x))
    x = lift(x)
    if x.is_int:
        return Num(z3.ToReal(x.t), x.k)
    return Num(z3.ToReal(-z3.ToInt(-x.t)), x.k)


def num_floor(x):
    if is_conc_num(x):
        return float(math.floor(x))
    x = lift(x)
    if x.is_int:
        return Num(z3.ToReal(x.t), x.k)
    return Num(z3.ToReal(z3.ToInt(x.t)), x.k)


def as_float(x):
    """python float(x) / numpy float cast: Int term -> Real term"""
    if isinstance(x, bool):
        return float(x)
    if is_conc_num(x):
        return float(x)
    if isinstance(x, BoolV):
        x = x._num()
    if isinstance(x, Num):
        return Num(to_real(x.t), x.k)
    raise Unsupported("float(%s)" % type(x).__name__)
