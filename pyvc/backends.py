"""second-opinion back ends: cvc5 (CLI 1.0.3) and /usr/bin/z3 4.8.12 on the SMT-LIB text of an obligation"""
import os
import subprocess
import tempfile

WORK = os.path.join(os.path.dirname(os.path.dirname(os.path.abspath(__file__))), ".work")


def _run(cmd, text, timeout_s):
    os.makedirs(WORK, exist_ok=True)
    fd, path = tempfile.mkstemp(suffix=".smt2", dir=WORK)
    try:
        with os.fdopen(fd, "w") as f:
            f.write(text)
        try:
            p = subprocess.run(cmd + [path], capture_output=True, text=True, timeout=timeout_s + 5)
        except subprocess.TimeoutExpired:
            return "timeout"
        out = (p.stdout or "").strip().splitlines()
        for line in out:
            if line.strip() in ("sat", "unsat", "unknown"):
                return line.strip()
        return "error: " + ((p.stderr or p.stdout or "").strip()[:200])
    finally:
        try:
            os.unlink(path)
        except OSError:
            pass


def cvc5_check(smt2, timeout_ms):
    if "(check-sat)" not in smt2:
        smt2 = smt2 + "\n(check-sat)\n"
    # cvc5 needs a logic; ALL covers quantifiers + NRA + UF
    text = "(set-logic ALL)\n" + smt2
    return _run(["/usr/bin/cvc5", "--tlimit=%d" % timeout_ms], text, timeout_ms / 1000.0)


def z3old_check(smt2, timeout_ms):
    if "(check-sat)" not in smt2:
        smt2 = smt2 + "\n(check-sat)\n"
    return _run(["/usr/bin/z3", "-T:%d" % max(1, timeout_ms // 1000)], smt2, timeout_ms / 1000.0)
