"""run a set of contracts through the engine, one process per contract (fork pool), collect obligations"""
import multiprocessing as mp
import os
import time
import traceback

from .engine import Engine, Unsupported

_TASKS = None


def _work(i):
    contract, table, opts = _TASKS[i]
    t0 = time.time()
    eng = Engine(timeout_ms=opts.get("timeout_ms", 10000), contracts=table, max_paths=opts.get("max_paths", 400))
    res = {"module": contract.module, "qualname": contract.qualname, "variant": getattr(contract, "variant", ""),
           "obs": [], "paths": 0, "dropped": [], "error": None, "undecided_reason": None, "outcomes": []}
    try:
        outs = eng.verify(contract, time_budget_s=opts.get("budget_s", 600))
        res["paths"] = eng.n_paths
        res["outcomes"] = [o[0] if o[0] != "raise" else "raise:" + o[1] for o in outs]
    except Unsupported as ex:
        res["undecided_reason"] = str(ex)
    except RecursionError as ex:
        res["undecided_reason"] = "recursion limit: " + str(ex)
    except Exception as ex:   # engine bug: reported as crash of this function's verification, never as violation
        res["error"] = "".join(traceback.format_exception(type(ex), ex, ex.__traceback__))[-3000:]
    res["obs"] = [o.as_dict() for o in eng.obs]
    for o, d in zip(eng.obs, res["obs"]):
        if o.smt2 and (o.status == "deferred" or opts.get("keep_smt2")):
            d["smt2"] = o.smt2
    res["dropped"] = list(eng.dropped)
    res["wall_s"] = round(time.time() - t0, 2)
    return res


def verify_all(contracts, table=None, workers=None, **opts):
    """contracts: list of Contract; table: {(module, qualname): Contract} available for modular calls"""
    global _TASKS
    if table is None:
        table = {}
    _TASKS = [(c, table, opts) for c in contracts]
    workers = workers or min(16, max(1, len(contracts)))
    if workers == 1 or len(contracts) == 1:
        results = [_work(i) for i in range(len(contracts))]
    else:
        ctx = mp.get_context("fork")
        with ctx.Pool(workers) as pool:
            results = pool.map(_work, range(len(contracts)), chunksize=1)
    discharge_deferred(results, budget_s=opts.get("solve_budget_s", 20))
    return results


def _solve_external(args):
    text, budget = args
    import json, subprocess, sys, tempfile
    work = os.path.join(os.path.dirname(os.path.dirname(os.path.abspath(__file__))), ".work")
    os.makedirs(work, exist_ok=True)
    fd, path = tempfile.mkstemp(suffix=".smt2", dir=work)
    t0 = time.time()
    try:
        with os.fdopen(fd, "w") as f:
            f.write(text)
        try:
            p = subprocess.run([sys.executable, "-m", "pyvc.solve_one", path, str(budget)], capture_output=True, text=True,
                               timeout=budget * 1.3 + 10, cwd=os.path.dirname(os.path.dirname(os.path.abspath(__file__))))
            line = (p.stdout or "").strip().split("\n")[-1]
            res = json.loads(line) if line.startswith("{") else {"status": "undecided", "backend": "ext", "detail": "solver process: " + (p.stderr or p.stdout or "")[-300:], "model": None}
        except subprocess.TimeoutExpired:
            res = {"status": "undecided", "backend": "ext", "detail": "hard time limit %.0fs" % (budget * 1.3 + 10), "model": None}
    finally:
        try:
            os.unlink(path)
        except OSError:
            pass
    res["time_s"] = round(time.time() - t0, 3)
    return res


def discharge_deferred(results, budget_s=20, workers=16):
    from concurrent.futures import ThreadPoolExecutor
    todo = []
    for r in results:
        for o in r["obs"]:
            if o["status"] == "deferred":
                todo.append(o)
    if not todo:
        return
    with ThreadPoolExecutor(max_workers=workers) as ex:
        outs = list(ex.map(_solve_external, [(o["smt2"], budget_s) for o in todo]))
    for o, res in zip(todo, outs):
        o["status"] = res["status"]
        o["backend"] = res.get("backend") or "ext"
        o["time_s"] = round(o["time_s"] + res["time_s"], 3)
        o["model"] = res.get("model")
        if res["status"] == "undecided":
            o["detail"] = (o.get("detail") or "") + " | " + (res.get("detail") or "")
        if res["status"] == "discharged":
            o.pop("smt2", None)


def feed_report(rep, results, pid=None):
    """aggregate per (function, clause label): a clause is discharged iff every path instance is"""
    agg = {}
    for r in results:
        fq = "%s:%s" % (r["module"], r["qualname"]) + (("[" + r["variant"] + "]") if r.get("variant") else "")
        rep.add_function(fq, r["module"], r["paths"], r["dropped"])
        if r["error"]:
            rep.add_obligation(fq + ".<engine>", "undecided", backend="engine", func=fq, detail="engine error: " + r["error"][-400:])
            rep.note("engine error in %s: %s" % (fq, r["error"][-800:]))
        if r["undecided_reason"]:
            rep.add_obligation(fq + ".<function>", "undecided", backend="engine", func=fq, detail=r["undecided_reason"])
        for o in r["obs"]:
            if pid and o["tags"] and any(t.startswith("only:") for t in o["tags"]) and ("only:" + pid) not in o["tags"]:
                continue
            label = o["name"] + (("[" + r["variant"] + "]") if r.get("variant") else "")
            a = agg.setdefault((fq, label), {"status": "discharged", "time": 0.0, "backend": set(), "cls": o["cls"], "n": 0,
                                              "models": [], "detail": None, "tags": o["tags"]})
            a["n"] += 1
            a["time"] += o["time_s"]
            a["backend"].add(o["backend"])
            if o["status"] == "refuted" and "ext_unknown" in (o["tags"] or ()):
                # aggregate matching was incomplete on this path: a counter-model proves nothing
                if a["status"] != "refuted":
                    a["status"] = "undecided"
                    a["detail"] = "counter-model not trusted: Sigma/sorted extensionality check returned unknown on this path"
            elif o["status"] == "refuted":
                a["status"] = "refuted"
                a["models"].append({"path": o["path"], "model": o["model"], "detail": o.get("detail")})
            elif o["status"] == "undecided" and a["status"] != "refuted":
                a["status"] = "undecided"
                a["detail"] = o.get("detail")
    out = []
    for (fq, label), a in sorted(agg.items()):
        rep.add_obligation(label, a["status"], backend="+".join(sorted(a["backend"])), time_s=a["time"], cls=a["cls"], func=fq,
                           detail=(a["detail"] if a["status"] == "undecided" else None))
        out.append({"func": fq, "label": label, **a})
    return out
