"""Discharge one obligation given as SMT-LIB2 text (assertions = path condition + negated goal).

Strategies, in order, each under its own share of the budget (the whole process is killed by the parent
at the hard limit):
  full    : the text as is, default z3 solver                          unsat -> discharged, sat -> refuted(model)
  ground  : drop quantified assertions (sound for proving: fewer hypotheses), replace every
            uninterpreted-function application by a fresh constant plus Ackermann congruence
            constraints, solve as pure (non)linear real/int arithmetic (nlsat)  unsat -> discharged
            (sat is only believed when nothing was dropped)
  cvc5    : the full text through /usr/bin/cvc5                          unsat -> discharged
Prints one JSON object.
"""
import json
import sys
import time

import z3


def has_quant(t):
    todo, seen = [t], set()
    while todo:
        x = todo.pop()
        if x.get_id() in seen:
            continue
        seen.add(x.get_id())
        if z3.is_quantifier(x):
            return True
        todo.extend(x.children())
    return False


def purify(assertions):
    """Ackermann reduction of uninterpreted function applications (quantifier-free input)"""
    cache = {}
    apps = {}      # decl name -> list of (args(purified), const)
    counter = [0]

    def walk(t):
        tid = t.get_id()
        if tid in cache:
            return cache[tid]
        if z3.is_app(t):
            kids = [walk(c) for c in t.children()]
            d = t.decl()
            if d.kind() == z3.Z3_OP_UNINTERPRETED and t.num_args() > 0:
                lst = apps.setdefault(d.name(), [])
                for (a2, c2) in lst:
                    if len(a2) == len(kids) and all(x.eq(y) for x, y in zip(a2, kids)):
                        cache[tid] = c2
                        return c2
                counter[0] += 1
                c = z3.Const("ack!%s!%d" % (d.name(), counter[0]), t.sort())
                lst.append((kids, c))
                cache[tid] = c
                return c
            r = d(*kids) if kids else t
            cache[tid] = r
            return r
        cache[tid] = t
        return t
    out = [walk(a) for a in assertions]
    cong = []
    for name, lst in apps.items():
        for i in range(len(lst)):
            for j in range(i + 1, len(lst)):
                a1, c1 = lst[i]
                a2, c2 = lst[j]
                cong.append(z3.Implies(z3.And(*[x == y for x, y in zip(a1, a2)]), c1 == c2))
    return out + cong, sum(len(v) for v in apps.values())


def model_dict(m):
    out = {}
    for d in m.decls():
        try:
            s = str(m[d])
        except Exception:
            s = "?"
        out[d.name()] = s if len(s) < 2000 else s[:2000] + "..."
    return out


def main():
    path, budget = sys.argv[1], float(sys.argv[2])
    want_model = len(sys.argv) > 3 and sys.argv[3] == "model"
    text = open(path).read()
    t0 = time.time()
    res = {"status": "undecided", "backend": "", "detail": "", "model": None, "tries": []}
    assertions = list(z3.parse_smt2_string(text))
    # ---- full, short first attempt (most obligations fall here); the long attempt comes after the ground stage
    def full(ms, tag):
        s = z3.Solver()
        s.set("timeout", int(ms))
        s.add(*assertions)
        tt = time.time()
        r = s.check()
        res["tries"].append([tag, str(r), round(time.time() - tt, 2)])
        if r == z3.unsat:
            res.update(status="discharged", backend="z3")
            print(json.dumps(res)); return True
        if r == z3.sat:
            res.update(status="refuted", backend="z3", model=model_dict(s.model()))
            print(json.dumps(res)); return True
        return False
    if full(min(2500, budget * 1000 * 0.1), "z3-full-short"):
        return
    # ---- ground + ackermann + nlsat
    t1 = time.time()
    ground = [a for a in assertions if not has_quant(a)]
    dropped = len(assertions) - len(ground)
    try:
        pure, napps = purify(ground)
        s2 = z3.SolverFor("QF_NRA") if True else z3.Solver()
        s2.set("timeout", int(budget * 1000 * 0.35))
        s2.add(*pure)
        r2 = s2.check()
    except z3.Z3Exception as ex:
        r2 = "error %s" % ex
        napps = -1
    res["tries"].append(["z3-ground-ackermann", str(r2), round(time.time() - t1, 2), {"dropped_quantified": dropped, "uf_apps": napps}])
    if r2 == z3.unsat:
        res.update(status="discharged", backend="z3-ground")
        print(json.dumps(res)); return
    if r2 == z3.sat and dropped == 0:
        res.update(status="refuted", backend="z3-ground", model=model_dict(s2.model()))
        print(json.dumps(res)); return
    # ---- full, long attempt
    if full(budget * 1000 * 0.35, "z3-full"):
        return
    # ---- cvc5 full
    import os, subprocess, tempfile
    t2 = time.time()
    left = max(1.0, budget - (time.time() - t0))
    fd, p2 = tempfile.mkstemp(suffix=".smt2", dir=os.path.dirname(path))
    try:
        with os.fdopen(fd, "w") as f:
            f.write("(set-logic ALL)\n" + text + ("\n(check-sat)\n" if "(check-sat)" not in text else ""))
        try:
            p = subprocess.run(["/usr/bin/cvc5", "--tlimit=%d" % int(left * 1000), p2], capture_output=True, text=True, timeout=left + 2)
            out = (p.stdout or "").strip().split("\n")[0]
        except subprocess.TimeoutExpired:
            out = "timeout"
    finally:
        os.unlink(p2)
    res["tries"].append(["cvc5-full", out, round(time.time() - t2, 2)])
    if out == "unsat":
        res.update(status="discharged", backend="cvc5")
    else:
        res["detail"] = "; ".join("%s=%s" % (t[0], t[1]) for t in res["tries"])
    print(json.dumps(res))


if __name__ == "__main__":
    main()
