"""Closure arrays and symbolic sequences for engine E1.

Arr      n-d array: a *view* (shape, fwd, inv) onto a Buffer whose contents are a python closure
         base-index-tuple -> value.  Sizes may be symbolic (Num of Int sort).  NumPy operations compose
         closures, so `forall i,j. D[i,j] == spec(i,j)` is checked on fresh index constants.
         View/copy classification follows A5 of DESIGN.md: basic slices, .T and reshape are views that
         share the Buffer; arithmetic, np.array/np.copy, mask and fancy indexing produce fresh Buffers.
SymSeq   python-list-like sequence with symbolic length and element closure.
"""
import itertools

import z3

from .values import (BoolV, Num, Unsupported, b_and, b_not, b_or, conc_of, cur, is_num, ite, lift, mkbool,
                     num_eq, to_z3, zb)

_ids = itertools.count(1)


def isym(x):
    """is x a symbolic integer"""
    return isinstance(x, Num)


def iconc(x):
    c = conc_of(x)
    return c if isinstance(c, int) else None


def imax(a, b):
    if isinstance(a, int) and isinstance(b, int):
        return max(a, b)
    return ite(lift(a) >= b, a, b)


def imin(a, b):
    if isinstance(a, int) and isinstance(b, int):
        return min(a, b)
    return ite(lift(a) <= b, a, b)


def same_dim(a, b):
    """python bool: dims are syntactically/semantically known equal"""
    if isinstance(a, int) and isinstance(b, int):
        return a == b
    ta, tb = to_z3(a), to_z3(b)
    if ta.eq(tb):
        return True
    return cur().must(ta == tb)


def _memo(fn):
    """cache closure results per (path, index tuple): closures are pure, and without this layered stores and
    arithmetic re-evaluate shared sub-closures exponentially often"""
    if getattr(fn, "_memoized", False):
        return fn
    cache = {}

    def g(idx):
        e = cur()
        try:
            key = (id(e), e.path_id, e.scope_id) + tuple(
                i if isinstance(i, int) else ("z", i.t.get_id()) if isinstance(i, Num) else ("o", id(i)) for i in idx)
        except Exception:
            return fn(idx)
        if key in cache:
            return cache[key]
        v = fn(idx)
        cache[key] = v
        return v
    g._memoized = True
    return g


class Buffer:
    def __init__(self, shape, fn, dtype="float", origin=None):
        self.id = next(_ids)
        self.shape = tuple(shape)
        self._fn = _memo(fn) if fn is not None else None
        self.dtype = dtype
        self.origin = origin or ("fresh#%d" % self.id)
        self.writes = 0

    @property
    def fn(self):           # base index tuple -> value; rebound on every store
        return self._fn

    @fn.setter
    def fn(self, f):
        self._fn = _memo(f)


def _ident(idx):
    return idx


def _ident_inv(idx):
    return True, idx


class Arr:
    __array_priority__ = 2000

    def __init__(self, shape, fn=None, dtype="float", buf=None, fwd=None, inv=None, origin=None):
        self.shape = tuple(shape)
        if buf is None:
            buf = Buffer(self.shape, fn, dtype, origin)
            fwd, inv = _ident, _ident_inv
        self.buf = buf
        self.fwd = fwd
        self.inv = inv
        self.compress = None      # CompressInfo when produced by boolean-mask indexing

    # ------------------------------------------------------------------ basics
    @property
    def dtype(self):
        return DType(self.buf.dtype)

    @property
    def kind(self):
        return self.buf.dtype

    @property
    def ndim(self):
        return len(self.shape)

    @property
    def size(self):
        s = 1
        for d in self.shape:
            s = s * d
        return s

    def __len__(self):
        if not self.shape:
            raise TypeError("len() of unsized object")
        d = self.shape[0]
        if isinstance(d, int):
            return d
        raise Unsupported("len() of array with symbolic length must go through the len model")

    def length(self):
        return self.shape[0]

    def get(self, *idx):
        """element at a full index tuple (ints or Int-sorted Nums)"""
        if len(idx) == 1 and isinstance(idx[0], tuple):
            idx = idx[0]
        if len(idx) != len(self.shape):
            raise Unsupported("get with %d indices on %d-d array" % (len(idx), len(self.shape)))
        return self.buf.fn(self.fwd(tuple(idx)))

    def snapshot_fn(self):
        """immutable closure view-index -> value (contents as of now)"""
        f, fwd = self.buf.fn, self.fwd
        return lambda idx: f(fwd(idx))

    def is_view(self):
        return self.fwd is not _ident

    def in_bounds(self, idx):
        cs = []
        for i, d in zip(idx, self.shape):
            cs.append(b_and(lift(i) >= 0, lift(i) < d) if (isym(i) or isym(d)) else (0 <= i < d))
        return b_and(*cs)

    def __iter__(self):
        n = self.shape[0]
        if isinstance(n, int):
            return iter([self[i] for i in range(n)])
        raise Unsupported("python-level iteration over an array of symbolic length")

    def as_seq(self):
        return SymSeq(self.shape[0], lambda k: self[k])

    def __repr__(self):
        return "Arr(shape=%s, %s, buf=%s)" % (self.shape, self.kind, self.buf.origin)

    def __hash__(self):
        return id(self)

    def __bool__(self):
        c = iconc(self.size)
        if c == 1:
            return bool(self.get(*([0] * self.ndim)))
        raise Unsupported("truth value of an array")

    # ------------------------------------------------------------------ indexing
    def _norm_index(self, key):
        if not isinstance(key, tuple):
            key = (key,)
        # expand lists to arrays
        out = []
        for k in key:
            if isinstance(k, list):
                k = from_nested(k, dtype="int")
            out.append(k)
        n_real = sum(1 for k in out if k is not None)
        # boolean mask with same ndim consumes several axes
        return out

    def __getitem__(self, key):
        return index_array(self, key)

    def __setitem__(self, key, value):
        store_array(self, key, value)

    # ------------------------------------------------------------------ shape ops
    @property
    def T(self):
        if self.ndim != 2:
            if self.ndim < 2:
                return self
            raise Unsupported(".T of %d-d array" % self.ndim)
        fwd, inv = self.fwd, self.inv

        def nfwd(idx):
            return fwd((idx[1], idx[0]))

        def ninv(b):
            c, v = inv(b)
            return c, (v[1], v[0])
        return Arr((self.shape[1], self.shape[0]), buf=self.buf, fwd=nfwd, inv=ninv)

    def flatten(self, order="C"):
        if order != "C":
            raise Unsupported("flatten order " + order)
        return reshape_copy(self, (self.size,))

    def ravel(self):
        return self.flatten()

    def reshape(self, *shape, order="C"):
        if len(shape) == 1 and isinstance(shape[0], (tuple, list)):
            shape = tuple(shape[0])
        return reshape_copy(self, shape)

    def copy(self):
        return fresh_copy(self)

    def diagonal(self):
        from .models import NP
        return NP.diagonal(self)

    def transpose(self):
        return self.T

    def mean(self, axis=None):
        from .models import NP
        return NP.mean(self, axis=axis)

    def clip(self, lo=None, hi=None):
        from .models import NP
        return NP.clip(self, lo, hi)

    # in-place methods write through to the buffer (A5): each is a store for the frame ledger
    def sort(self, axis=-1, kind=None):
        from .models import NP
        cur().on_store(self)
        r = NP.sort(self, axis=(0 if self.ndim == 2 and axis in (0,) else axis))
        store_array(self, tuple(slice(None) for _ in self.shape), r)

    def fill(self, value):
        store_array(self, tuple(slice(None) for _ in self.shape), value)

    def _inplace_unmodelled(self, what):
        cur().on_store(self)
        raise Unsupported("in-place ndarray.%s (recorded as a store into the buffer)" % what)

    def partition(self, *a, **k): self._inplace_unmodelled("partition")
    def resize(self, *a, **k): self._inplace_unmodelled("resize")
    def put(self, *a, **k): self._inplace_unmodelled("put")
    def itemset(self, *a, **k): self._inplace_unmodelled("itemset")
    def setfield(self, *a, **k): self._inplace_unmodelled("setfield")
    def setflags(self, *a, **k): self._inplace_unmodelled("setflags")
    def byteswap(self, inplace=False): self._inplace_unmodelled("byteswap")

    def astype(self, dt, copy=True):
        return astype(self, dt)

    def tolist(self):
        n = self.shape[0]
        if not isinstance(n, int):
            raise Unsupported("tolist on symbolic length")
        if self.ndim == 1:
            return [self.get(i) for i in range(n)]
        return [self[i].tolist() for i in range(n)]

    def dot(self, other):
        return dot(self, other)

    def min(self, axis=None):
        from . import models as npmodel
        return npmodel.NP.min(self, axis=axis)

    def max(self, axis=None):
        from . import models as npmodel
        return npmodel.NP.max(self, axis=axis)

    def sum(self, axis=None):
        from . import models as npmodel
        return npmodel.NP.sum(self, axis=axis)

    def all(self, axis=None):
        from . import models as npmodel
        return npmodel.NP.all(self, axis=axis)

    def any(self, axis=None):
        from . import models as npmodel
        return npmodel.NP.any(self, axis=axis)

    # ------------------------------------------------------------------ arithmetic (fresh buffers)
    def _bin(self, o, f, dtype=None):
        if isinstance(o, (list, tuple)):
            o = from_nested(list(o))
        if not (isinstance(o, Arr) or is_num(o) or isinstance(o, BoolV)):
            return NotImplemented
        return elementwise(f, self, o, dtype=dtype)

    def _rbin(self, o, f, dtype=None):
        if isinstance(o, (list, tuple)):
            o = from_nested(list(o))
        if not (isinstance(o, Arr) or is_num(o) or isinstance(o, BoolV)):
            return NotImplemented
        return elementwise(f, o, self, dtype=dtype)

    def __add__(self, o): return self._bin(o, lambda a, b: a + b)
    def __radd__(self, o): return self._rbin(o, lambda a, b: a + b)
    def __sub__(self, o): return self._bin(o, lambda a, b: a - b)
    def __rsub__(self, o): return self._rbin(o, lambda a, b: a - b)
    def __mul__(self, o): return self._bin(o, lambda a, b: a * b)
    def __rmul__(self, o): return self._rbin(o, lambda a, b: a * b)
    def __truediv__(self, o): return self._bin(o, _tdiv, dtype="float")
    def __rtruediv__(self, o): return self._rbin(o, _tdiv, dtype="float")
    def __floordiv__(self, o): return self._bin(o, lambda a, b: a // b)
    def __pow__(self, o): return self._bin(o, lambda a, b: a ** b)
    def __rpow__(self, o): return self._rbin(o, lambda a, b: a ** b)
    def __neg__(self): return elementwise(lambda a: -a, self)
    def __abs__(self): return elementwise(abs, self)
    def __invert__(self): return elementwise(b_not, self, dtype="bool")
    def __lt__(self, o): return self._bin(o, lambda a, b: _cmp(a, b, "lt"), dtype="bool")
    def __le__(self, o): return self._bin(o, lambda a, b: _cmp(a, b, "le"), dtype="bool")
    def __gt__(self, o): return self._bin(o, lambda a, b: _cmp(a, b, "gt"), dtype="bool")
    def __ge__(self, o): return self._bin(o, lambda a, b: _cmp(a, b, "ge"), dtype="bool")
    def __eq__(self, o): return self._bin(o, num_eq, dtype="bool")
    def __ne__(self, o): return self._bin(o, lambda a, b: b_not(num_eq(a, b)), dtype="bool")
    def __and__(self, o): return self._bin(o, lambda a, b: b_and(a, b), dtype="bool")
    def __or__(self, o): return self._bin(o, lambda a, b: b_or(a, b), dtype="bool")

    # in-place operators on arrays write through to the buffer (A5)
    def _iop(self, o, f):
        r = self._bin(o, f)
        store_array(self, tuple(slice(None) for _ in self.shape) if self.shape else (), r)
        return self

    def __iadd__(self, o): return self._iop(o, lambda a, b: a + b)
    def __isub__(self, o): return self._iop(o, lambda a, b: a - b)
    def __imul__(self, o): return self._iop(o, lambda a, b: a * b)
    def __itruediv__(self, o): return self._iop(o, _tdiv)


def _tdiv(a, b):
    from .values import num_div
    return num_div(a, b)


def _cmp(a, b, op):
    import operator
    f = getattr(operator, op)
    r = f(a, b)
    return r


class DType:
    def __init__(self, kind):
        self.kind = kind

    def __eq__(self, o):
        return isinstance(o, DType) and o.kind == self.kind

    def __hash__(self):
        return hash(self.kind)

    def __repr__(self):
        return "dtype(%s)" % self.kind


# ----------------------------------------------------------------------------- construction
def from_nested(x, dtype=None, origin=None):
    """np.array(nested python lists / numbers / Arr) -> fresh Arr with concrete shape"""
    if isinstance(x, Arr):
        return fresh_copy(x, origin=origin)
    if isinstance(x, SymSeq):
        return seq_to_array(x, dtype=dtype)

    def shape_of(v):
        if isinstance(v, (list, tuple)):
            if len(v) == 0:
                return (0,)
            s0 = shape_of(v[0])
            return (len(v),) + s0
        if isinstance(v, Arr):
            return v.shape
        return ()
    shp = shape_of(x)

    def elem(v, idx):
        for i in idx:
            if isinstance(v, Arr):
                v = v[i]
            else:
                v = v[i]
        return v
    flat = {}

    def rec(v, pre):
        if isinstance(v, (list, tuple)):
            for i, w in enumerate(v):
                rec(w, pre + (i,))
        elif isinstance(v, Arr):
            if any(not isinstance(d, int) for d in v.shape):
                raise Unsupported("np.array of list containing symbolic-size arrays")
            for sub in itertools.product(*[range(d) for d in v.shape]):
                flat[pre + sub] = v.get(*sub)
        else:
            flat[pre] = v
    rec(x, ())
    if dtype is None:
        vals = list(flat.values())
        if vals and all(isinstance(v, (bool, BoolV)) for v in vals):
            dtype = "bool"
        elif all(_is_int_val(v) for v in vals):
            dtype = "int"
        elif all(is_num(v) or isinstance(v, BoolV) for v in vals):
            dtype = "float"
        else:
            dtype = "object"
    if dtype == "float":
        from .values import as_float
        flat = {k: as_float(v) for k, v in flat.items()}

    def fn(idx, _flat=flat, _shp=shp):
        return table_lookup(_flat, idx)
    return Arr(shp, fn, dtype=dtype, origin=origin)


def _is_int_val(v):
    from .values import is_int_sorted
    return (isinstance(v, (int, Num)) and is_int_sorted(v)) or isinstance(v, (bool, BoolV))


def table_lookup(table, idx):
    """value of a finite table at a possibly symbolic index tuple"""
    if all(isinstance(i, int) for i in idx):
        if tuple(idx) not in table:
            raise Unsupported("index %s outside concrete table" % (idx,))
        return table[tuple(idx)]
    cidx = tuple(iconc(i) if not isinstance(i, int) else i for i in idx)
    if all(c is not None for c in cidx):
        return table[cidx]
    # build an ite chain over the matching entries
    items = [(k, v) for k, v in table.items()
             if all((c is None) or (c == kk) for c, kk in zip(cidx, k))]
    if not items:
        raise Unsupported("symbolic index into empty table")
    res = items[-1][1]
    for k, v in reversed(items[:-1]):
        cond = b_and(*[num_eq(lift(i), kk) for i, kk, c in zip(idx, k, cidx) if c is None])
        res = ite(cond, v, res)
    return res


def fresh_copy(a, origin=None, dtype=None):
    f = a.snapshot_fn()
    r = Arr(a.shape, lambda idx: f(idx), dtype=dtype or a.kind, origin=origin)
    r.compress = a.compress
    return r


def astype(a, dt):
    kind = dtype_kind(dt)
    f = a.snapshot_fn()
    if kind == "float":
        from .values import as_float
        return Arr(a.shape, lambda idx: as_float(f(idx)), dtype="float")
    if kind == "int":
        from .values import to_int_trunc
        bits = _INT_BITS.get(getattr(dt, "name", None) or getattr(dt, "__name__", None) or (dt if isinstance(dt, str) else None))
        if bits is not None and a.kind != "bool" and all(isinstance(s, int) and s == 0 for s in a.shape) is False:
            # a cast to a sized integer type wraps silently in NumPy: every element (an arbitrary one) must fit the target type
            e = cur()
            idx = tuple(e.fresh_int("cast_i%d" % ax, lo=0, hi=n) for ax, n in enumerate(a.shape))
            v = lift(to_int_trunc(f(idx)))
            e.definedness(b_and(v >= -(2 ** bits), v <= 2 ** bits - 1), "cast to %d-bit signed integer keeps the value (no wrap-around)" % (bits + 1))
        return Arr(a.shape, lambda idx: to_int_trunc(f(idx)), dtype="int")
    if kind == "bool":
        return Arr(a.shape, lambda idx: mkbool(zb(f(idx))), dtype="bool")
    raise Unsupported("astype(%s)" % (dt,))


_INT_BITS = {"int8": 7, "int16": 15, "int32": 31, "int64": 63}


def dtype_kind(dt):
    if isinstance(dt, DType):
        return dt.kind
    if dt is None:
        return None
    if dt is float or dt in ("float", "float64", "float32"):
        return "float"
    if dt is int or dt in ("int", "int64", "int32", "int8", "int16"):
        return "int"
    if dt is bool or dt == "bool":
        return "bool"
    name = getattr(dt, "name", None) or getattr(dt, "__name__", None)
    if name:
        if name.startswith("float"):
            return "float"
        if name.startswith("int") or name.startswith("uint"):
            return "int"
        if name.startswith("bool"):
            return "bool"
        if name.startswith("complex"):
            raise Unsupported("complex dtype")
    raise Unsupported("dtype %r" % (dt,))


def full(shape, value, dtype="float"):
    if not isinstance(shape, (tuple, list)):
        shape = (shape,)
    return Arr(tuple(shape), lambda idx, v=value: v, dtype=dtype)


def fresh_symbolic(name, shape, dtype="float", origin=None, finite=True, eng=None):
    """array of uninterpreted contents: name(i,j,...)"""
    eng = eng or cur()
    nd = len(shape)
    rng = z3.RealSort() if dtype == "float" else (z3.IntSort() if dtype == "int" else z3.BoolSort())
    uf = z3.Function(eng.uniq(name), *([z3.IntSort()] * nd + [rng]))
    if finite or dtype != "float":
        def fn(idx):
            t = uf(*[to_z3(i) for i in idx])
            return mkbool(t) if dtype == "bool" else Num(t)
        kf = None
    else:
        kf = z3.Function(eng.uniq(name + "_k"), *([z3.IntSort()] * nd + [z3.IntSort()]))

        def fn(idx):
            args = [to_z3(i) for i in idx]
            k = kf(*args)
            eng.axiom(z3.And(k >= -1, k <= 1))
            return Num(uf(*args), k)
    a = Arr(tuple(shape), fn, dtype=dtype, origin=origin)
    a.uf = uf
    a.kuf = kf
    return a


# ----------------------------------------------------------------------------- broadcasting / elementwise
def broadcast_shapes(*shapes):
    nd = max(len(s) for s in shapes)
    out = []
    for ax in range(nd):
        dims = []
        for s in shapes:
            off = ax - (nd - len(s))
            dims.append(s[off] if off >= 0 else 1)
        d = None
        for x in dims:
            if isinstance(x, int) and x == 1:
                continue
            if d is None:
                d = x
            elif not same_dim(d, x):
                cur().definedness(to_z3(d) == to_z3(x), "broadcast of unequal dimensions", force=True)
        out.append(1 if d is None else d)
    return tuple(out)


def bidx(shape, out_nd, idx):
    """index into an operand of `shape` for output index idx"""
    off = out_nd - len(shape)
    return tuple(0 if (isinstance(shape[a], int) and shape[a] == 1) else idx[a + off] for a in range(len(shape)))


def elementwise(f, *ops, dtype=None):
    arrs = [o for o in ops if isinstance(o, Arr)]
    shp = broadcast_shapes(*[a.shape for a in arrs])
    nd = len(shp)
    getters = []
    for o in ops:
        if isinstance(o, Arr):
            g = o.snapshot_fn()
            getters.append((g, o.shape))
        else:
            getters.append((None, o))

    def fn(idx):
        vals = []
        for g, s in getters:
            vals.append(s if g is None else g(bidx(s, nd, idx)))
        return f(*vals)
    if dtype is None:
        kinds = [a.kind for a in arrs]
        scal = [o for o in ops if not isinstance(o, Arr)]
        if "object" in kinds:
            dtype = "object"
        elif "float" in kinds or any(isinstance(s, float) or (isinstance(s, Num) and not s.is_int) for s in scal):
            dtype = "float"
        elif "int" in kinds or scal:
            dtype = "int"
        else:
            dtype = kinds[0] if kinds else "float"
    r = Arr(shp, fn, dtype=dtype)
    ufs = [getattr(a, "unflat", None) for a in arrs]
    if nd == 1 and arrs and all(u is not None for u, a in zip(ufs, arrs) if a.ndim == 1 and not (isinstance(a.shape[0], int) and a.shape[0] == 1)) \
            and any(u is not None for u in ufs):
        base = next(u for u in ufs if u is not None)[1]
        okk = all(u is None or all(same_dim(x, y) for x, y in zip(u[1], base)) for u in ufs)
        if okk:
            parts = []
            for o in ops:
                if isinstance(o, Arr):
                    u = getattr(o, "unflat", None)
                    parts.append(("u", u[0]) if u is not None else ("c", o.snapshot_fn()))
                else:
                    parts.append(("s", o))

            def ufn(idx2, parts=parts):
                vals = []
                for t, v in parts:
                    vals.append(v(idx2) if t == "u" else (v((0,)) if t == "c" else v))
                return f(*vals)
            r.unflat = (ufn, base)
    cs = [a.compress for a in arrs if a.compress is not None]
    if cs and all(a.compress is not None for a in arrs if a.ndim == r.ndim):
        r.compress = cs[0]
    return r


# ----------------------------------------------------------------------------- indexing
class CompressInfo:
    """contract D6 for boolean-mask indexing along axis 0: the result lists, in order, the source
    positions where the mask holds.  pos: result index -> source index, rank: its inverse."""

    def __init__(self, eng, mask_fn, n_src, tag):
        self._mask = mask_fn
        self.n_src = n_src
        self.n = Num(z3.Int(eng.uniq("n_" + tag)))
        self.pos = z3.Function(eng.uniq("pos_" + tag), z3.IntSort(), z3.IntSort())
        self.rank = z3.Function(eng.uniq("rank_" + tag), z3.IntSort(), z3.IntSort())
        self.seen = []
        self.i0 = z3.Int(eng.uniq("miss_" + tag))
        self.eng = eng
        n, ns = self.n.t, to_z3(n_src)
        eng.axiom(z3.And(n >= 0, n <= ns))
        # n < n_src  <->  some position fails the mask (witness i0)
        m0 = self.mask_at(Num(self.i0))
        eng.axiom(z3.Implies(n < ns, z3.And(self.i0 >= 0, self.i0 < ns, z3.Not(m0))))

    def mask_at(self, i):
        """z3 Bool: mask at source position i, evaluated under 0 <= i < n_src (meaningless outside)"""
        it = to_z3(i)
        rng = z3.And(it >= 0, it < to_z3(self.n_src))
        return self.eng.under(rng, lambda: zb(self._mask(i)))

    def mask_fn(self, i):
        return mkbool(self.mask_at(i))

    def at(self, k):
        """source index of result position k (adds the D6 facts for this k)"""
        kt = to_z3(k)
        e = cur()
        p = self.pos(kt)
        ns, n = to_z3(self.n_src), self.n.t
        inb = z3.And(kt >= 0, kt < n)
        e.axiom(z3.Implies(inb, z3.And(p >= 0, p < ns, self.rank(p) == kt)))
        e.axiom(z3.Implies(inb, self.mask_at(Num(p))))
        e.axiom(z3.Implies(z3.And(inb, n == ns), p == kt))
        e.axiom(z3.Implies(inb, p >= kt))
        for (k2, p2) in self.seen:
            e.axiom(z3.Implies(z3.And(inb, k2 >= 0, k2 < n), z3.And((kt < k2) == (p < p2), (kt == k2) == (p == p2))))
        if not any(kt.eq(k2) for k2, _ in self.seen):
            self.seen.append((kt, p))
        return Num(p)

    def rank_of(self, i):
        """result position of source index i (meaningful when the mask holds at i)"""
        it = to_z3(i)
        e = cur()
        r = self.rank(it)
        ns, n = to_z3(self.n_src), self.n.t
        sel = z3.And(it >= 0, it < ns, self.mask_at(i))
        e.axiom(z3.Implies(sel, z3.And(r >= 0, r < n, self.pos(r) == it)))
        e.axiom(z3.Implies(z3.And(sel, n == ns), r == it))
        return Num(r)


def _slice_parts(s, n):
    """-> (start, length, step) for slice s on an axis of size n; step in {1,-1}"""
    step = s.step
    if step is None:
        step = 1
    cstep = iconc(step) if not isinstance(step, int) else step
    if cstep not in (1, -1):
        raise Unsupported("slice step %r" % (step,))

    def norm(v):
        # negative concrete -> n + v ; symbolic assumed non-negative (definedness)
        if isinstance(v, int):
            return v if v >= 0 else n + v
        c = iconc(v)
        if c is not None:
            return c if c >= 0 else n + c
        cur().definedness(to_z3(v) >= 0, "symbolic slice bound assumed non-negative")
        return v
    if cstep == 1:
        start = 0 if s.start is None else norm(s.start)
        stop = n if s.stop is None else norm(s.stop)
        start = imin(imax(start, 0), n) if not (isinstance(start, int) and start == 0) else 0
        if not (s.stop is None):
            stop = imin(imax(stop, 0), n)
        length = imax(stop - start, 0) if not (isinstance(start, int) and start == 0 and s.stop is None) else n
        if isinstance(start, int) and start == 0 and s.stop is not None:
            length = stop
        return start, length, 1
    # step -1
    start = (n - 1) if s.start is None else imin(norm(s.start), n - 1)
    if s.stop is None:
        length = start + 1
    else:
        stop = norm(s.stop)
        length = imax(start - stop, 0)
    return start, imax(length, 0), -1


def index_array(a, key):
    if type(key).__name__ == "TriuIdx":
        from .models import PairBag
        if a.ndim != 2:
            raise Unsupported("triangular selection of a non 2-d array")
        f = a.snapshot_fn()
        return PairBag(key, lambda i, j: f((i, j)))
    if not isinstance(key, tuple):
        key = (key,)
    key = tuple(from_nested(k, dtype=None) if isinstance(k, list) else k for k in key)
    # full-shape boolean mask (same ndim): flatten selection
    if len(key) == 1 and isinstance(key[0], Arr) and key[0].kind == "bool" and key[0].ndim == a.ndim and a.ndim > 1:
        return mask_select_nd(a, key[0])
    has_adv = any(isinstance(k, Arr) for k in key) or any(isinstance(k, SymSeq) for k in key)
    if has_adv:
        return advanced_index(a, key)
    # basic indexing -> view
    n_real = sum(1 for k in key if k is not None)
    if n_real > a.ndim:
        raise Unsupported("too many indices")
    key = list(key) + [slice(None)] * (a.ndim - n_real)
    new_shape = []
    plan = []      # per source axis: ('int', i) or ('slice', start, step, out_axis)
    out_ax = 0
    src_ax = 0
    for k in key:
        if k is None:
            new_shape.append(1)
            out_ax += 1
            continue
        n = a.shape[src_ax]
        if isinstance(k, slice):
            start, length, step = _slice_parts(k, n)
            plan.append(("slice", start, step, out_ax, length))
            new_shape.append(length)
            out_ax += 1
        elif is_num(k) and not isinstance(k, float):
            i = k
            if isinstance(i, int):
                if i < 0:
                    i = n + i
                if isinstance(n, int) and not (0 <= i < n):
                    cur().py_raise("IndexError", "index out of bounds")
            else:
                c = iconc(i)
                if c is not None and c < 0:
                    i = n + c
                cur().definedness(z3.And(to_z3(i) >= 0, to_z3(i) < to_z3(n)), "index within bounds")
            plan.append(("int", i))
        else:
            raise Unsupported("index of type %s" % type(k).__name__)
        src_ax += 1
    newaxes = [j for j, k in enumerate(_expand_positions(key)) if k is None]
    fwd0, inv0 = a.fwd, a.inv

    def fwd(idx, plan=plan):
        src = []
        for p in plan:
            if p[0] == "int":
                src.append(p[1])
            else:
                _, start, step, oa, _l = p
                src.append(start + idx[oa] if step == 1 else start - idx[oa])
        return fwd0(tuple(src))

    out_nd = len(new_shape)

    def inv(b, plan=plan):
        c0, v = inv0(b)
        conds = [c0]
        out = [0] * out_nd
        for ax, p in enumerate(plan):
            if p[0] == "int":
                conds.append(num_eq(v[ax], p[1]))
            else:
                _, start, step, oa, length = p
                o = (v[ax] - start) if step == 1 else (start - v[ax])
                conds.append(b_and(_ge0(o), _lt(o, length)))
                out[oa] = o
        return b_and(*conds), tuple(out)
    if out_nd == 0:
        return a.buf.fn(fwd(()))
    r = Arr(tuple(new_shape), buf=a.buf, fwd=fwd, inv=inv)
    return r


def _expand_positions(key):
    return key


def _ge0(o):
    return (o >= 0) if isinstance(o, int) else (lift(o) >= 0)


def _lt(o, n):
    if isinstance(o, int) and isinstance(n, int):
        return o < n
    return lift(o) < n


def mask_select_nd(a, mask):
    """a[mask] with mask.shape == a.shape (ndim>1): 1-d copy of selected elements, C order.
    Only the multiset/positional contract through CompressInfo over the flattened index."""
    flat = reshape_copy(a, (a.size,))
    mflat = reshape_copy(mask, (mask.size,))
    return mask_select_axis0(flat, mflat)


def mask_select_axis0(a, mask, rest=()):
    e = cur()
    mf = mask.snapshot_fn()
    # concrete mask over a concrete length: plain selection (used by the CPython cross-check and by concrete sub-computations)
    if isinstance(a.shape[0], int):
        mv = [mf((i,)) for i in range(a.shape[0])]
        if all(isinstance(v, bool) for v in mv):
            keep = [i for i, v in enumerate(mv) if v]
            f0 = a.snapshot_fn()
            r0 = Arr((len(keep),) + tuple(a.shape[1:]), lambda idx: f0((keep[idx[0]] if isinstance(idx[0], int) else table_lookup({(t,): k for t, k in enumerate(keep)}, (idx[0],)),) + tuple(idx[1:])), dtype=a.kind)
            return r0
    # D6 is functional: the same array selected by a pointwise-equal mask gives the same result, so an existing
    # CompressInfo is reused when the masks are provably equal (lets contract text name "the filtered diagram")
    info = None
    reg = e.ghost.setdefault("__compress", [])
    for (n2, mf2, info2) in reg:
        if not same_dim(n2, a.shape[0]):
            continue
        i = Num(z3.Int(e.uniq("meq")))
        rng = z3.And(i.t >= 0, i.t < to_z3(a.shape[0]))
        same = e.under(rng, lambda: e.must(zb(mf((i,))) == zb(mf2((i,)))))
        if same:
            info = info2
            break
    if info is None:
        info = CompressInfo(e, lambda i: mf((i,)), a.shape[0], "m%d" % next(_ids))
        reg.append((a.shape[0], mf, info))
    f = a.snapshot_fn()

    def fn(idx):
        return f((info.at(idx[0]),) + tuple(idx[1:]))
    r = Arr((info.n,) + tuple(a.shape[1:]), fn, dtype=a.kind)
    r.compress = info
    return r


def advanced_index(a, key):
    key = list(key)
    n_real = sum(1 for k in key if k is not None)
    key = key + [slice(None)] * (a.ndim - n_real)
    advs = [(ax, k) for ax, k in enumerate(key) if isinstance(k, (Arr, SymSeq))]
    # boolean mask on axis 0 (1-d), remaining basic
    if len(advs) == 1 and isinstance(advs[0][1], Arr) and advs[0][1].kind == "bool":
        ax, m = advs[0]
        if ax == 1 and m.ndim == 1 and a.ndim == 2 and isinstance(key[0], slice) and key[0] == slice(None):
            # a[:, mask]: select columns = select rows of the transpose (D6), transposed back
            selT = mask_select_axis0(a.T, m)
            fT = selT.snapshot_fn()
            r = Arr((a.shape[0], selT.shape[0]), lambda idx: fT((idx[1], idx[0])), dtype=a.kind)
            r.compress = selT.compress
            r.compress_axes = (a.compress, selT.compress)
            return r
        if ax != 0 or m.ndim != 1:
            raise Unsupported("boolean mask on axis %d" % ax)
        sel = mask_select_axis0(a, m)
        rest = tuple([slice(None)] + key[1:])
        if all(isinstance(k, slice) and k == slice(None) for k in key[1:]):
            return sel
        r = index_array(sel, rest)
        if isinstance(r, Arr):
            r2 = fresh_copy(r)
            r2.compress = sel.compress
            return r2
        return r
    # integer fancy indexing: all advanced indices broadcast together
    idx_arrs = []
    for ax, k in advs:
        if isinstance(k, SymSeq):
            k = seq_to_array(k, dtype="int")
        if k.kind == "bool":
            raise Unsupported("mixed boolean/integer fancy indexing")
        idx_arrs.append((ax, k))
    bshape = broadcast_shapes(*[k.shape for _, k in idx_arrs])
    adv_axes = [ax for ax, _ in idx_arrs]
    contiguous = adv_axes == list(range(adv_axes[0], adv_axes[0] + len(adv_axes)))
    basic = [(ax, k) for ax, k in enumerate(key) if not isinstance(k, (Arr, SymSeq))]
    # resolve basic part
    bplan = {}
    for ax, k in basic:
        n = a.shape[ax]
        if isinstance(k, slice):
            bplan[ax] = ("slice",) + _slice_parts(k, n)
        elif is_num(k):
            i = k
            if isinstance(i, int) and i < 0:
                i = n + i
            bplan[ax] = ("int", i)
        else:
            raise Unsupported("index of type %s in fancy indexing" % type(k).__name__)
    slice_axes = [ax for ax, _ in basic if bplan[ax][0] == "slice"]
    if contiguous and not any(bplan[ax][0] == "int" for ax, _ in basic):
        first = adv_axes[0]
        pre = [ax for ax in slice_axes if ax < first]
        post = [ax for ax in slice_axes if ax > first]
        out_shape = [bplan[ax][2] for ax in pre] + list(bshape) + [bplan[ax][2] for ax in post]
        layout = [("s", ax) for ax in pre] + [("b", j) for j in range(len(bshape))] + [("s", ax) for ax in post]
    else:
        out_shape = list(bshape) + [bplan[ax][2] for ax in slice_axes]
        layout = [("b", j) for j in range(len(bshape))] + [("s", ax) for ax in slice_axes]
    f = a.snapshot_fn()
    getters = [(ax, k.snapshot_fn(), k.shape) for ax, k in idx_arrs]
    nb = len(bshape)
    shp = a.shape

    def fn(idx):
        bi = tuple(idx[p] for p, (t, _) in enumerate(layout) if t == "b")
        src = [None] * len(shp)
        for ax, g, s in getters:
            v = g(bidx(s, nb, bi))
            n = shp[ax]
            if isinstance(v, int) and v < 0:
                v = n + v
            elif isinstance(v, Num):
                cur().definedness(z3.And(v.t >= 0, v.t < to_z3(n)), "fancy index within bounds")
            src[ax] = v
        for p, (t, ax) in enumerate(layout):
            if t == "s":
                _, start, _len, step = bplan[ax]
                src[ax] = start + idx[p] if step == 1 else start - idx[p]
        for ax, pl in bplan.items():
            if pl[0] == "int":
                src[ax] = pl[1]
        return f(tuple(src))
    if not out_shape:
        return fn(())
    return Arr(tuple(out_shape), fn, dtype=a.kind)


# ----------------------------------------------------------------------------- stores
def store_array(a, key, value):
    e = cur()
    if not isinstance(key, tuple):
        key = (key,)
    key = tuple(from_nested(k) if isinstance(k, list) else k for k in key)
    e.on_store(a)
    masks = [(ax, k) for ax, k in enumerate(key) if isinstance(k, Arr) and k.kind == "bool"]
    fancy = [(ax, k) for ax, k in enumerate(key) if isinstance(k, Arr) and k.kind != "bool"]
    if fancy:
        # integer index arrays of concrete length: a sequence of scalar stores (NumPy assigns them in order)
        if len(fancy) != len(key) or any(not isinstance(k.shape[0], int) or k.ndim != 1 for _ax, k in fancy):
            raise Unsupported("store through integer fancy index of symbolic length / mixed with slices")
        n = fancy[0][1].shape[0]
        if isinstance(value, Arr):
            vf = value.snapshot_fn()
            vals = [vf((t,)) for t in range(n)]
        else:
            vals = [value] * n
        idxs = [tuple(k.get(t) for _ax, k in fancy) for t in range(n)]
        for ix, v in zip(idxs, vals):
            store_array(a, ix, v)
        return
    if isinstance(value, (list, tuple)):
        value = from_nested(list(value))
    if masks:
        if len(masks) != 1:
            raise Unsupported("several masks in store")
        ax, m = masks[0]
        if m.ndim == a.ndim and len(key) == 1 and a.ndim > 1:
            _store_fullmask(a, m, value)
            return
        if ax != 0 or m.ndim != 1:
            raise Unsupported("mask store on axis %d" % ax)
        rest = key[1:]
        sub = index_array(a, (slice(None),) + tuple(rest)) if rest else a
        # sub is a view whose axis 0 is a's axis 0
        mf = m.snapshot_fn()
        _store_view(sub, value, row_cond=lambda i: mf((i,)), compress_mask=m)
        return
    target = index_array(a, key) if key != () else a
    if not isinstance(target, Arr):
        # scalar element store
        full = []
        for k, n in zip(key, a.shape):
            if isinstance(k, int) and k < 0:
                k = n + k
            full.append(k)
        bidx_ = a.fwd(tuple(full))
        old = a.buf.fn
        if isinstance(value, Arr):
            if iconc(value.size) == 1:
                value = value.get(*([0] * value.ndim))
            else:
                raise Unsupported("array stored into scalar cell")
        val = _coerce(a, value)

        def fn(b, old=old, bidx_=bidx_, val=val):
            c = b_and(*[num_eq(x, y) for x, y in zip(b, bidx_)])
            return ite(c, val, old(b)) if not isinstance(c, bool) else (val if c else old(b))
        a.buf.fn = fn
        a.buf.writes += 1
        return
    _store_view(target, value)


def _coerce(a, v):
    from .values import as_float, to_int_trunc
    if a.kind == "float" and (is_num(v) or isinstance(v, BoolV)):
        return as_float(v)
    if a.kind == "int" and (is_num(v) or isinstance(v, BoolV)):
        if isinstance(v, float) or (isinstance(v, Num) and not v.is_int):
            # numpy silently truncates a float stored into an int array: flag as dtype-store obligation
            cur().dtype_store(a, v)
            return to_int_trunc(v)
        return v
    return v


def _store_view(view, value, row_cond=None, compress_mask=None):
    buf = view.buf
    old = buf.fn
    inv = view.inv
    nd = view.ndim
    if isinstance(value, Arr):
        if compress_mask is not None:
            info = value.compress
            if info is None:
                # concrete mask (concrete mode): ranks are computed directly
                n0 = compress_mask.shape[0]
                if isinstance(n0, int):
                    cm = compress_mask.snapshot_fn()
                    mv = [cm((i,)) for i in range(n0)]
                    if all(isinstance(v, bool) for v in mv):
                        ranks, c = {}, 0
                        for i, v in enumerate(mv):
                            if v:
                                ranks[(i,)] = c
                                c += 1
                        vf0 = value.snapshot_fn()

                        def val_at(vidx, vf0=vf0, ranks=ranks):
                            r = ranks.get((vidx[0],) if isinstance(vidx[0], int) else None)
                            if r is None:
                                return 0.0
                            return vf0(bidx(value.shape, nd, (r,) + tuple(vidx[1:])))
                        info = "concrete"
            if info is None:
                raise Unsupported("mask store of a non-compressed array value")
            if info == "concrete":
                pass
            else:
                vf = value.snapshot_fn()

                def val_at(vidx, vf=vf, info=info):
                    return vf(bidx(value.shape, nd, (info.rank_of(vidx[0]),) + tuple(vidx[1:])))
        else:
            broadcast_shapes(view.shape, value.shape)
            vf = value.snapshot_fn()
            vs = value.shape

            def val_at(vidx, vf=vf, vs=vs):
                return vf(bidx(vs, nd, vidx))
    else:
        def val_at(vidx, value=value):
            return value
    target = view

    def fn(b):
        c, vidx = inv(b)
        if row_cond is not None:
            c = b_and(c, row_cond(vidx[0]))
        if isinstance(c, bool):
            return _coerce(target, val_at(vidx)) if c else old(b)
        return ite(c, _coerce(target, val_at(vidx)), old(b))
    buf.fn = fn
    buf.writes += 1


def _store_fullmask(a, m, value):
    if isinstance(value, Arr):
        raise Unsupported("full-mask store of an array value")
    buf = a.buf
    old = buf.fn
    inv = a.inv
    mf = m.snapshot_fn()

    def fn(b):
        c, vidx = inv(b)
        c = b_and(c, mf(vidx))
        return ite(c, _coerce(a, value), old(b))
    buf.fn = fn
    buf.writes += 1


# ----------------------------------------------------------------------------- reshape / dot
def reshape_copy(a, shape):
    """C-order reshape.  Modelled as a fresh array (a reshape of a contiguous array is a view in NumPy;
    no function under contract stores through a reshaped alias - checked by Engine.on_store origin)."""
    shape = tuple(shape)
    if any((isinstance(d, int) and d == -1) for d in shape):
        known = 1
        for d in shape:
            if not (isinstance(d, int) and d == -1):
                known = known * d
        total = a.size
        if isinstance(total, int) and isinstance(known, int):
            shape = tuple((total // known) if (isinstance(d, int) and d == -1) else d for d in shape)
        else:
            raise Unsupported("reshape -1 with symbolic size")
    f = a.snapshot_fn()
    src = a.shape
    if len(src) == len(shape) and all(same_dim(x, y) for x, y in zip(src, shape)):
        return Arr(shape, lambda idx: f(idx), dtype=a.kind)

    def lin(idx, shp):
        off = 0
        for i, d in zip(idx, shp):
            off = off * d + i
        return off

    def unlin(off, shp):
        out = []
        for d in reversed(shp[1:]):
            out.append(off % d)
            off = off // d
        out.append(off)
        return tuple(reversed(out))
    # D9 (meshgrid / flatten / reshape index algebra): a C-order flatten of a 2-d array remembers the 2-d closure, and
    # reshaping a flat array back to the same 2-d shape returns it, so no division / modulo reaches the solver
    if len(shape) == 2 and len(src) == 1 and getattr(a, "unflat", None) is not None:
        uf, ushape = a.unflat
        if all(same_dim(x, y) for x, y in zip(ushape, shape)):
            return Arr(shape, lambda idx: uf(idx), dtype=a.kind)
    # special cases that avoid div/mod: 2-d <-> 1-d
    if len(shape) == 1 and len(src) == 2:
        n1 = src[1]

        def fn(idx):
            k = idx[0]
            if isinstance(k, int) and isinstance(n1, int):
                return f((k // n1, k % n1))
            e = cur()
            q = Num(z3.Int(e.uniq("q")))
            r = Num(z3.Int(e.uniq("r")))
            e.axiom(z3.Implies(to_z3(n1) > 0, z3.And(to_z3(k) == q.t * to_z3(n1) + r.t, r.t >= 0, r.t < to_z3(n1))))
            return f((q, r))
        r1 = Arr(shape, fn, dtype=a.kind)
        r1.unflat = (f, tuple(src))
        return r1
    if len(shape) == 2 and len(src) == 1:
        n1 = shape[1]
        return Arr(shape, lambda idx: f((idx[0] * n1 + idx[1],)), dtype=a.kind)
    if all(isinstance(d, int) for d in src + shape):
        return Arr(shape, lambda idx: f(unlin(lin(idx, shape), src)), dtype=a.kind)
    raise Unsupported("reshape %s -> %s" % (src, shape))


def dot(a, b):
    if isinstance(b, (list, tuple)):
        b = from_nested(list(b))
    if isinstance(a, (list, tuple)):
        a = from_nested(list(a))
    if not isinstance(a, Arr) or not isinstance(b, Arr):
        return a * b
    fa, fb = a.snapshot_fn(), b.snapshot_fn()
    if a.ndim == 1 and b.ndim == 1:
        n = a.shape[0]
        if not isinstance(n, int):
            raise Unsupported("dot of symbolic-length vectors")
        if not same_dim(n, b.shape[0]):
            cur().py_raise("ValueError", "shapes not aligned")
        s = 0
        for k in range(n):
            s = s + fa((k,)) * fb((k,))
        return s
    if a.ndim == 2 and b.ndim == 2:
        n = a.shape[1]
        if not isinstance(n, int):
            raise Unsupported("matrix product with symbolic inner dimension")
        if not same_dim(n, b.shape[0]):
            cur().py_raise("ValueError", "shapes not aligned")

        def fn(idx):
            s = 0
            for k in range(n):
                s = s + fa((idx[0], k)) * fb((k, idx[1]))
            return s
        return Arr((a.shape[0], b.shape[1]), fn, dtype="float")
    if a.ndim == 1 and b.ndim == 2:
        n = a.shape[0]
        if not isinstance(n, int):
            raise Unsupported("dot with symbolic inner dimension")

        def fn(idx):
            s = 0
            for k in range(n):
                s = s + fa((k,)) * fb((k, idx[0]))
            return s
        return Arr((b.shape[1],), fn, dtype="float")
    if a.ndim == 2 and b.ndim == 1:
        n = a.shape[1]
        if not isinstance(n, int):
            raise Unsupported("dot with symbolic inner dimension")

        def fn(idx):
            s = 0
            for k in range(n):
                s = s + fa((idx[0], k)) * fb((k,))
            return s
        return Arr((a.shape[0],), fn, dtype="float")
    raise Unsupported("dot of %d-d and %d-d" % (a.ndim, b.ndim))


# ----------------------------------------------------------------------------- symbolic sequences
class SymSeq:
    """python sequence (list / range / zip / enumerate result) of symbolic length"""

    def __init__(self, n, get, kind="list"):
        self.n = n
        self._get = get
        self.kind = kind

    def length(self):
        return self.n

    def get(self, k):
        return self._get(k)

    def __len__(self):
        if isinstance(self.n, int):
            return self.n
        raise Unsupported("len() of SymSeq must go through the len model")

    def __getitem__(self, k):
        if isinstance(k, slice):
            start, length, step = _slice_parts(k, self.n)
            g = self._get
            if step == 1:
                return SymSeq(length, lambda j: g(start + j))
            return SymSeq(length, lambda j: g(start - j))
        n = self.n
        if isinstance(k, int) and k < 0:
            k = n + k
        c = b_and(lift(k) >= 0, lift(k) < n) if (isym(k) or isym(n)) else (0 <= k < n)
        if c is False:
            cur().py_raise("IndexError", "list index out of range")
        if c is not True:
            if not cur().branch(zb(c)):
                cur().py_raise("IndexError", "list index out of range")
        return self._get(k)

    def __iter__(self):
        if isinstance(self.n, int):
            return iter([self._get(i) for i in range(self.n)])
        raise Unsupported("python-level iteration over a sequence of symbolic length")

    def __add__(self, o):
        if isinstance(o, list):
            o = SymSeq(len(o), lambda k, o=o: table_lookup({(i,): v for i, v in enumerate(o)}, (k,)))
        if not isinstance(o, SymSeq):
            return NotImplemented
        n1, g1, g2 = self.n, self._get, o._get
        return SymSeq(n1 + o.n, lambda k: _seq_ite(lift(k) < n1, lambda: g1(k), lambda: g2(k - n1)))

    def __radd__(self, o):
        if isinstance(o, list):
            o2 = SymSeq(len(o), lambda k, o=o: table_lookup({(i,): v for i, v in enumerate(o)}, (k,)))
            return o2 + self
        return NotImplemented

    def __repr__(self):
        return "SymSeq(n=%s)" % (self.n,)


def _seq_ite(c, fa, fb):
    if isinstance(c, bool):
        return fa() if c else fb()
    e = cur()
    a = e.under(zb(c), fa)
    b = e.under(z3.Not(zb(c)), fb)
    if isinstance(a, (list, tuple)) and isinstance(b, (list, tuple)) and len(a) == len(b):
        return type(a)(_seq_ite(c, (lambda x=x: x), (lambda y=y: y)) for x, y in zip(a, b))
    if isinstance(a, SymSeq) and isinstance(b, SymSeq):
        return SymSeq(ite(c, a.n, b.n), lambda k: _seq_ite(c, (lambda: a.get(k)), (lambda: b.get(k))))
    if isinstance(a, Arr) and isinstance(b, Arr) and a.ndim == b.ndim:
        fa2, fb2 = a.snapshot_fn(), b.snapshot_fn()
        r = Arr(a.shape, lambda idx: ite(c, fa2(idx), fb2(idx)), dtype=a.kind)
        return r
    return ite(c, a, b)


def seq_to_array(s, dtype=None):
    g = s._get
    first = None
    # peek at element structure with a throwaway index when concrete, else assume scalar/pair by probing k=0
    probe = g(0) if not isinstance(s.n, int) or s.n > 0 else None
    if isinstance(probe, (list, tuple)):
        w = len(probe)
        return Arr((s.n, w), lambda idx: table_lookup({(i,): v for i, v in enumerate(g(idx[0]))}, (idx[1],)),
                   dtype=dtype or "float")
    if isinstance(probe, Arr):
        return Arr((s.n,) + probe.shape, lambda idx: g(idx[0]).get(*idx[1:]), dtype=dtype or probe.kind)
    if isinstance(probe, SymSeq):
        # a list of equally long lists (NumPy would refuse ragged input for a numeric dtype: rows are taken to have the first row's length)
        inner = probe.get(0) if not isinstance(probe.n, int) or probe.n > 0 else None
        if isinstance(inner, (list, tuple)):
            w = len(inner)
            return Arr((s.n, probe.n, w), lambda idx: table_lookup({(i,): v for i, v in enumerate(g(idx[0]).get(idx[1]))}, (idx[2],)), dtype=dtype or "float")
        if inner is not None and not isinstance(inner, (Arr, SymSeq)):
            return Arr((s.n, probe.n), lambda idx: g(idx[0]).get(idx[1]), dtype=dtype or "float")
    return Arr((s.n,), lambda idx: g(idx[0]), dtype=dtype or "float")
