"""Trusted models of python builtins and of the NumPy / SciPy / stdlib operations that the functions under
contract use (D-register of DESIGN.md section 6).  Every model works on concrete python numbers as well as
on symbolic values, which is what the CPython cross-check (selftest) exercises."""
import ast
import math
from fractions import Fraction

import z3

from . import values as V
from .values import (BoolV, Num, Unsupported, as_float, b_and, b_not, b_or, conc_of, cur, is_conc_num, is_num, ite,
                     lift, mkbool, num_abs, num_ceil, num_eq, num_floor, num_max, num_min, to_int_trunc, to_real,
                     to_z3, zb)
from . import arrays as A
from .arrays import Arr, SymSeq, elementwise, from_nested, full, iconc

MISSING = object()


class NeedsEngine:
    """callable that wants (engine, env, call node, pos, kw)"""

    def __init__(self, fn):
        self.fn = fn


class GenList:
    """a generator expression evaluated eagerly (pure element expressions only)"""

    def __init__(self, items):
        self.items = list(items)
        self.pos = 0

    def __iter__(self):
        return iter(self.items)


class ObjArr:
    """1-d NumPy array of dtype object holding repository objects (np.array([landscape, ...])): arithmetic is elementwise through
    the objects' own operators, np.sum folds with + from the left (np.add.reduce)"""

    def __init__(self, items):
        self.items = list(items)
        self.shape = (len(self.items),)


class FlatSeq:
    """itertools.chain.from_iterable over a sequence (symbolic length) of sequences (symbolic lengths): the concatenation, kept as
    (outer sequence, element map).  Supported consumers: list(), np.abs() (elementwise on the rows), max()/min() with a key."""

    def __init__(self, outer, fmap=None):
        self.outer, self.fmap = outer, fmap

    def elem(self, d, s):
        inner = cur().as_iterable(self.outer.get(d))
        v = inner.get(s) if isinstance(inner, SymSeq) else cur().getitem(inner, s)
        return self.fmap(v) if self.fmap else v

    def inner_len(self, d):
        inner = cur().as_iterable(self.outer.get(d))
        return inner.n if isinstance(inner, SymSeq) else len(inner)

    def mapped(self, f):
        g = self.fmap
        return FlatSeq(self.outer, (lambda v: f(g(v))) if g else f)


def flat_extreme(e, fs, which, key):
    """max/min over a FlatSeq: an element (witness depth wd, position ws) whose key bounds every key (D23: value-level facts only)"""
    nd = fs.outer.n
    wd = e.fresh_int("wd_" + which)
    ws = e.fresh_int("ws_" + which)
    d, s = z3.Int(e.uniq("fd")), z3.Int(e.uniq("fs"))
    some = z3.Exists([d], z3.And(d >= 0, d < to_z3(lift(nd)), to_z3(lift(e.under(z3.And(d >= 0, d < to_z3(lift(nd))), lambda: fs.inner_len(Num(d)), default=0))) > 0))
    if not e.must(some):
        if e.branch(z3.Not(some)):
            e.py_raise("ValueError", "%s() arg is an empty sequence" % which)
    e.axiom(z3.And(wd.t >= 0, wd.t < to_z3(lift(nd))))
    e.axiom(z3.And(ws.t >= 0, ws.t < to_z3(lift(fs.inner_len(wd)))))
    best = fs.elem(wd, ws)
    kb = e.call(key, [best], {}) if key else best
    rng = z3.And(d >= 0, d < to_z3(lift(nd)))

    def body():
        ln = fs.inner_len(Num(d))
        rs = z3.And(s >= 0, s < to_z3(lift(ln)))
        def cmpk():
            x = fs.elem(Num(d), Num(s))
            kx = e.call(key, [x], {}) if key else x
            return zb((lift(kx) <= kb) if which == "max" else (lift(kx) >= kb))
        return z3.Implies(rs, e.under(rs, cmpk))
    e.axiom(z3.ForAll([d, s], z3.Implies(rng, e.under(rng, body))))
    return best


class TriuIdx:
    """np.triu_indices_from(a, k): the index pairs (i, j) with j >= i + k of an n x m array"""

    def __init__(self, n, m, k):
        self.n, self.m, self.k = n, m, k


class PairBag:
    """a[np.triu_indices_from(a, k)]: the bag of entries above the k-th diagonal; comparisons are elementwise, np.any / np.all quantify"""

    def __init__(self, idx, fn):
        self.idx, self.fn = idx, fn

    def _cmp(self, other, op):
        if isinstance(other, (Arr, PairBag, list, tuple)):
            raise Unsupported("comparison of a triangular selection with a non-scalar")
        f = self.fn
        return PairBag(self.idx, lambda i, j: op(lift(f(i, j)), other))

    def __lt__(self, o): return self._cmp(o, lambda a, b: a < b)
    def __le__(self, o): return self._cmp(o, lambda a, b: a <= b)
    def __gt__(self, o): return self._cmp(o, lambda a, b: a > b)
    def __ge__(self, o): return self._cmp(o, lambda a, b: a >= b)

    def exists(self):
        e = cur()
        i, j = z3.Int(e.uniq("ti")), z3.Int(e.uniq("tj"))
        rng = z3.And(i >= 0, i < to_z3(lift(self.idx.n)), j >= i + self.idx.k, j >= 0, j < to_z3(lift(self.idx.m)))
        body = e.under(rng, lambda: zb(self.fn(Num(i), Num(j))))
        return BoolV(z3.Exists([i, j], z3.And(rng, body)))


class MaskedArr:
    def __init__(self, arr, mask):
        self.arr, self.mask = arr, mask

    @property
    def data(self):
        return self.arr


class _MA:
    def masked_less(self, x, v):
        if not isinstance(x, Arr):
            raise Unsupported("masked_less of non-array")
        return MaskedArr(x, x < v)


class AppendList(SymSeq):
    """python list that is only appended to, with a symbolic number of elements"""

    def __init__(self, n, get):
        SymSeq.__init__(self, n, get, kind="list")

    def append(self, v):
        n0, g0 = self.n, self._get
        self.n = n0 + 1
        self._get = lambda k: A._seq_ite(num_eq(lift(k), n0), lambda: v, lambda: g0(k))


class PrefixEnum:
    """order-preserving enumeration of {i in [0,n) : q(i)} with prefix counts (D6-style facts, valid by induction):
       pref(0) = 0,  pref(i+1) = pref(i) + [q(i)],  q(i) -> pos(pref(i)) = i,
       r in [0, pref(n)) -> 0 <= pos(r) < n, q(pos(r)), pref(pos(r)) = r;   pref is monotone, 0 <= pref(i) <= i"""

    def __init__(self, eng, n, q, tag="pe"):
        self.eng, self.n, self.q = eng, n, q
        self.pos = z3.Function(eng.uniq("pos_" + tag), z3.IntSort(), z3.IntSort())
        self.pref = z3.Function(eng.uniq("pref_" + tag), z3.IntSort(), z3.IntSort())
        eng.axiom(self.pref(0) == 0)
        self.total = Num(self.pref(to_z3(n)))
        eng.axiom(z3.And(self.total.t >= 0, self.total.t <= to_z3(n)))

    def count_upto(self, i):
        """pref(i) with the step facts at i"""
        e = self.eng
        it = to_z3(i)
        inb = z3.And(it >= 0, it < to_z3(self.n))
        qi = e.under(inb, lambda: zb(self.q(Num(it) if not isinstance(i, int) else i)))
        e.axiom(z3.Implies(inb, z3.And(self.pref(it + 1) == self.pref(it) + z3.If(qi, 1, 0),
                                       z3.Implies(qi, self.pos(self.pref(it)) == it),
                                       self.pref(it) >= 0, self.pref(it) <= it, self.pref(it + 1) <= self.total.t)))
        return Num(self.pref(it))

    def source(self, r):
        """source index of row r with the enumeration facts at r"""
        e = self.eng
        rt = to_z3(r)
        p = self.pos(rt)
        inb = z3.And(rt >= 0, rt < self.total.t)
        qp = e.under(z3.And(inb, p >= 0, p < to_z3(self.n)), lambda: zb(self.q(Num(p))))
        e.axiom(z3.Implies(inb, z3.And(p >= 0, p < to_z3(self.n), qp, self.pref(p) == rt)))
        return Num(p)

    def row_of(self, i):
        """row index of a selected source i"""
        c = self.count_upto(i)
        return c


class SymGen:
    """generator expression over a sequence of symbolic length: `next()` yields seq[pos] and advances, StopIteration at the end"""

    def __init__(self, seq, pos=0):
        self.seq = seq
        self.pos = pos

    def __vnext__(self):
        e = cur()
        n = self.seq.n
        more = lift(self.pos) < n
        if isinstance(more, bool):
            ok = more
        else:
            ok = e.branch(zb(more))
        if not ok:
            e.py_raise("StopIteration", "")
        v = self.seq.get(self.pos)
        self.pos = self.pos + 1
        return v


class FilteredGen:
    """(elt for x in seq if cond(x)) over a sequence of symbolic length: next() yields the element at the *first* position whose
    filter holds, StopIteration when there is none (one-shot use, as in `next(<genexp>)`)"""

    def __init__(self, seq, cond, elt):
        self.seq, self.cond, self.elt = seq, cond, elt
        self.used = False

    def __vnext__(self):
        e = cur()
        if self.used:
            raise Unsupported("second next() on a filtered symbolic generator")
        self.used = True
        n = self.seq.n
        k = Num(z3.Int(e.uniq("first")))
        ex = z3.Bool(e.uniq("some"))
        rng = z3.And(k.t >= 0, k.t < to_z3(n))
        ck = e.under(rng, lambda: zb(self.cond(self.seq.get(k))))
        q = z3.Int(e.uniq("fq"))
        rq = z3.And(q >= 0, q < to_z3(n))
        cq = e.under(rq, lambda: zb(self.cond(self.seq.get(Num(q)))))
        e.axiom(z3.Implies(ex, z3.And(rng, ck, z3.ForAll([q], z3.Implies(z3.And(rq, q < k.t), z3.Not(cq))))))
        e.axiom(z3.Implies(z3.Not(ex), z3.ForAll([q], z3.Implies(rq, z3.Not(cq)))))
        if e.branch(ex):
            return self.elt(self.seq.get(k))
        e.py_raise("StopIteration", "")


class SymSet:
    def __init__(self, mem):
        self.mem = mem      # value -> truth


class SymDict:
    """dict with FmtKey / integer keys and symbolic contents: has(key), load(key), size()"""

    def __init__(self, has, get, size):
        self._has = has
        self._get = get
        self._size = size

    def has(self, key):
        return self._has(key)

    def load(self, key):
        h = self._has(key)
        if h is False:
            cur().py_raise("KeyError", repr(key))
        if h is not True:
            if not cur().branch(zb(h)):
                cur().py_raise("KeyError", repr(key))
        return self._get(key)

    def store(self, key, val):
        oh, og = self._has, self._get
        self._has = lambda k: b_or(_key_eq(k, key), oh(k))
        self._get = lambda k: _val_ite(_key_eq(k, key), val, lambda: og(k))
        self._size = None

    def size(self):
        if self._size is None:
            raise Unsupported("size of a dict after symbolic stores")
        return self._size


def _key_eq(a, b):
    from .engine import FmtKey
    if isinstance(a, FmtKey) and isinstance(b, FmtKey):
        return num_eq(a.i, b.i)
    if is_num(a) and is_num(b):
        return num_eq(a, b)
    if isinstance(a, FmtKey) or isinstance(b, FmtKey):
        return False
    return a == b


def _val_ite(c, a, fb):
    if isinstance(c, bool):
        return a if c else fb()
    b = fb()
    if isinstance(a, SymSet) and isinstance(b, SymSet):
        return SymSet(lambda v: ite(c, a.mem(v), b.mem(v)))
    return ite(c, a, b)


# ============================================================================= generic operations
def generic_eq(eng, a, b):
    from .engine import FmtKey, Obj
    if a is None or b is None:
        return a is b
    if isinstance(a, Arr) or isinstance(b, Arr):
        return a == b
    if isinstance(a, (Num, BoolV)) or isinstance(b, (Num, BoolV)):
        if isinstance(a, str) or isinstance(b, str):
            return False
        if isinstance(a, (list, tuple, dict)) or isinstance(b, (list, tuple, dict)):
            return False
        return num_eq(a, b)
    if isinstance(a, (list, tuple)) and isinstance(b, (list, tuple)):
        if type(a) != type(b) or len(a) != len(b):
            return False
        return b_and(*[generic_eq(eng, x, y) for x, y in zip(a, b)])
    if isinstance(a, FmtKey) or isinstance(b, FmtKey):
        return _key_eq(a, b)
    if callable(a) and callable(b):
        return a is b or getattr(a, "same_as", None) == getattr(b, "same_as", object())
    return a == b


def contains(eng, container, item):
    if isinstance(container, SymSet):
        return container.mem(item)
    if isinstance(container, SymDict):
        return container.has(item)
    if isinstance(container, (list, tuple, set)):
        if isinstance(item, (Num, BoolV)):
            return b_or(*[generic_eq(eng, item, x) for x in container])
        return any(generic_eq(eng, item, x) is True for x in container)
    if isinstance(container, dict):
        return item in container
    raise Unsupported("`in` on %s" % type(container).__name__)


def py_type_of(v):
    from .engine import Obj
    if isinstance(v, bool) or isinstance(v, BoolV):
        return "bool"
    if isinstance(v, int):
        return "int"
    if isinstance(v, float) or isinstance(v, Fraction):
        return "float"
    if isinstance(v, Num):
        return "int" if v.is_int else "float"
    if isinstance(v, Arr):
        return "ndarray"
    if isinstance(v, (list, SymSeq)):
        return "list"
    if isinstance(v, tuple):
        return "tuple"
    if isinstance(v, str):
        return "str"
    if isinstance(v, dict) or isinstance(v, SymDict):
        return "dict"
    if isinstance(v, Obj):
        return v
    if v is None:
        return "NoneType"
    return type(v).__name__


class TypeObj:
    """python / numpy type objects as seen by isinstance and dtype arguments"""

    def __init__(self, name, conv=None):
        self.name = name
        self.__name__ = name
        self.conv = conv

    def __call__(self, *a, **k):
        if self.conv is None:
            raise Unsupported("call of type %s" % self.name)
        return self.conv(*a, **k)

    def __repr__(self):
        return "<type %s>" % self.name


def m_isinstance(eng, v, t):
    from .engine import Obj, RepoClass
    if isinstance(t, tuple):
        return any(m_isinstance(eng, v, x) for x in t)
    pt = py_type_of(v)
    if isinstance(t, RepoClass):
        if isinstance(pt, Obj):
            c = pt.cls
            seen = [c]
            while seen:
                x = seen.pop()
                if x is t:
                    return True
                seen.extend(b for b in getattr(x, "bases", []) if isinstance(b, RepoClass))
        return False
    name = t.name if isinstance(t, TypeObj) else getattr(t, "__name__", None)
    if name is None:
        raise Unsupported("isinstance against %r" % (t,))
    if name == "Iterable":
        return pt in ("ndarray", "list", "tuple", "str", "dict")
    if name == "int":
        return pt in ("int", "bool")
    if name in ("float",):
        return pt == "float"
    if name == "integer":
        return pt == "int"
    return pt == name


# ============================================================================= builtins
def _len(x):
    if isinstance(x, Arr):
        if not x.shape:
            cur().py_raise("TypeError", "len() of unsized object")
        return x.shape[0]
    if isinstance(x, SymSeq):
        return x.n
    if isinstance(x, SymDict):
        return x.size()
    if isinstance(x, HKResult):
        return x.length()
    if isinstance(x, GenList):
        cur().py_raise("TypeError", "len of generator")
    from .engine import Obj
    if isinstance(x, Obj):
        raise Unsupported("len of object")
    if is_num(x) or isinstance(x, BoolV):
        cur().py_raise("TypeError", "object of type 'float' has no len()")
    return len(x)


def _range(*a):
    if all(isinstance(x, int) for x in a):
        return range(*a)
    if len(a) == 1:
        lo, hi = 0, a[0]
    elif len(a) == 2:
        lo, hi = a
    else:
        raise Unsupported("range with symbolic step")
    n = hi - lo
    n = ite(lift(n) >= 0, n, 0) if not cur().must(to_z3(n) >= 0) else n
    s = SymSeq(n, lambda k: lo + k, kind="range")
    s.lo = lo
    return s


def instantiate_all(eng, truth, k):
    """ground instance at index k of `all(...) -> element k` for the reduction(s) whose truth value is `truth` (np.all result, or the
    negation produced by np.any): the quantified form is already an axiom of the path"""
    t = zb(truth)
    for (b, n, fn) in eng_reg(eng, "__all"):
        if t.eq(b) or (z3.is_not(t) and t.arg(0).eq(b)):
            rng = z3.And(to_z3(lift(k)) >= 0, to_z3(lift(k)) < to_z3(lift(n)))
            fk = eng.under(rng, lambda: zb(fn(k)))
            eng.axiom(z3.Implies(z3.And(b, rng), fk))


def instantiate_extremes(eng, x, idx):
    """instances, at element `idx` (tuple), of the universal bounds that np.min / np.max / .min() / .max() of the array x promised (D23):
    the quantified form is already an axiom of the path; this adds the ground instance so that no quantifier instantiation is needed"""
    if not isinstance(idx, tuple):
        idx = (idx,)
    f = x.snapshot_fn()
    inb = z3.And(*[z3.And(to_z3(lift(i)) >= 0, to_z3(lift(i)) < to_z3(lift(d))) for i, d in zip(idx, x.shape)])
    for (bid, ver, fw, which, m) in eng_reg(eng, "__extreme_same"):
        if bid == x.buf.id and ver == x.buf.writes and fw is x.fwd:
            v = eng.under(inb, lambda: f(idx), default=0.0)
            eng.axiom(z3.Implies(inb, zb((lift(v) <= m) if which == "max" else (lift(v) >= m))))


def buffer_key(eng, arr):
    """small stable number identifying the buffer behind an array on this path"""
    keys = eng.ghost.setdefault("buf_keys", {})
    return keys.setdefault(id(arr.buf), (len(keys), arr.buf))[0]


def row_identity(eng, v):
    """(buffer key, row index) when v is a whole row of a 2-d buffer, else None"""
    if not (isinstance(v, Arr) and v.ndim == 1):
        return None
    try:
        a, b = v.fwd((0,)), v.fwd((1,))
    except Exception:
        return None
    if not (len(a) == 2 and len(b) == 2 and isinstance(a[1], int) and a[1] == 0 and isinstance(b[1], int) and b[1] == 1):
        return None
    if not (a[0] is b[0] or str(to_z3(a[0])) == str(to_z3(b[0]))):
        return None
    return buffer_key(eng, v), a[0]


def interp_pairs_term(eng, tag, x, row):
    """PL_<tag>(x, row): value at x of the piecewise-linear function through the (x, y) pairs of row `row` (np.interp, D26)"""
    ufs = eng.ghost.setdefault("interp_pairs_ufs", {})
    if tag not in ufs:
        ufs[tag] = z3.Function("PL_%s" % tag, z3.RealSort(), z3.IntSort(), z3.RealSort())
    return Num(ufs[tag](V.to_real(to_z3(lift(x))), to_z3(lift(row))))


def interp_term(eng, key, x, a, b, m, row):
    ufs = eng.ghost.setdefault("interp_ufs", {})
    if key not in ufs:
        R = z3.RealSort()
        ufs[key] = z3.Function("INTERP_%d" % key, R, R, R, z3.IntSort(), z3.IntSort(), R)
    return Num(ufs[key](V.to_real(to_z3(lift(x))), V.to_real(to_z3(lift(a))), V.to_real(to_z3(lift(b))), to_z3(lift(m)), to_z3(lift(row))))


def _minmax(which):
    def f(*args, key=None, default=MISSING):
        e = cur()
        if len(args) == 1 and isinstance(args[0], FlatSeq):
            return flat_extreme(e, args[0], which, key)
        if len(args) == 1:
            seq = e.as_iterable(args[0])
            if isinstance(seq, SymSeq) and not isinstance(seq.n, int):
                return agg_extreme(e, seq, which, key)
            items = list(seq) if not isinstance(seq, SymSeq) else [seq.get(i) for i in range(seq.n)]
        else:
            items = list(args)
        if not items:
            if default is not MISSING:
                return default
            e.py_raise("ValueError", "%s() arg is an empty sequence" % which)
        best = items[0]
        kb = e.call(key, [best], {}) if key else best
        for x in items[1:]:
            kx = e.call(key, [x], {}) if key else x
            better = (kx > kb) if which == "max" else (kx < kb)
            if isinstance(better, bool):
                if better:
                    best, kb = x, kx
            elif is_num(x) or isinstance(x, (Arr, list, tuple)):
                best = _struct_ite(better, x, best)
                kb = ite(better, kx, kb)
            else:
                # objects cannot be merged: decide the comparison on this path
                if e.branch(zb(better)):
                    best, kb = x, kx
        return best
    return f


def _struct_ite(c, a, b):
    if isinstance(a, (list, tuple)) and isinstance(b, (list, tuple)) and len(a) == len(b):
        return type(a)(_struct_ite(c, x, y) for x, y in zip(a, b))
    if isinstance(a, Arr) and isinstance(b, Arr):
        fa, fb = a.snapshot_fn(), b.snapshot_fn()
        return Arr(a.shape, lambda idx: ite(c, fa(idx), fb(idx)), dtype=a.kind)
    return ite(c, a, b)


def agg_extreme(e, seq, which, key):
    """min/max over a sequence of symbolic length: result is an element seq[w] (witness w) that bounds all keys.
    Python returns the *first* extreme element; only value-level facts are provided (D23)."""
    w = e.fresh_int("w_" + which)
    n = seq.n
    if not e.must(to_z3(n) > 0):
        if e.branch(to_z3(n) <= 0):
            e.py_raise("ValueError", "%s() arg is an empty sequence" % which)
    e.axiom(z3.Implies(to_z3(n) > 0, z3.And(w.t >= 0, w.t < to_z3(n))))
    best = seq.get(w)
    kb = e.call(key, [best], {}) if key else best

    def bound(k):
        x = seq.get(k)
        kx = e.call(key, [x], {}) if key else x
        return (kx <= kb) if which == "max" else (kx >= kb)
    e.axiom(e.forall(n, bound, name="mm"))
    return best


def _abs(x):
    return abs(x)


def _int(x=0):
    if isinstance(x, Arr):
        if iconc(x.size) == 1:
            return to_int_trunc(x.get(*([0] * x.ndim)))
        cur().py_raise("TypeError", "only size-1 arrays can be converted")
    return to_int_trunc(x)


def _float(x=0.0):
    if isinstance(x, str):
        return float(x)
    return as_float(x)


def _bool(x=False):
    return cur().truth(x)


def _zip(*seqs):
    e = cur()
    its = [e.as_iterable(s) for s in seqs]
    if any(isinstance(s, SymSeq) and not isinstance(s.n, int) for s in its):
        ss = []
        for s in its:
            if isinstance(s, SymSeq):
                ss.append(s)
            else:
                lst = list(s)
                ss.append(SymSeq(len(lst), lambda k, lst=lst: A.table_lookup({(i,): v for i, v in enumerate(lst)}, (k,))))
        n = ss[0].n
        for s in ss[1:]:
            n = A.imin(n, s.n)
        return SymSeq(n, lambda k: tuple(s.get(k) for s in ss), kind="zip")
    lists = [list(s) if not isinstance(s, SymSeq) else [s.get(i) for i in range(s.n)] for s in its]
    return list(zip(*lists))


def _enumerate(seq, start=0):
    e = cur()
    s = e.as_iterable(seq)
    if isinstance(s, SymSeq) and not isinstance(s.n, int):
        return SymSeq(s.n, lambda k: (k + start, s.get(k)), kind="enumerate")
    lst = list(s) if not isinstance(s, SymSeq) else [s.get(i) for i in range(s.n)]
    return list(enumerate(lst, start))


def _list(x=()):
    e = cur()
    if isinstance(x, FlatSeq):
        return x
    if isinstance(x, Arr) and x.ndim == 1 and not isinstance(x.shape[0], int):
        # list(1-d array of symbolic length): a fresh mutable sequence of its elements (modelled as a fresh buffer)
        c = A.fresh_copy(x)
        c.is_list = True
        return c
    s = e.as_iterable(x)
    if isinstance(s, SymSeq) and not isinstance(s.n, int):
        return SymSeq(s.n, s._get)
    return list(s) if not isinstance(s, SymSeq) else [s.get(i) for i in range(s.n)]


def _tuple(x=()):
    s = cur().as_iterable(x)
    if isinstance(s, SymSeq) and not isinstance(s.n, int):
        raise Unsupported("tuple of symbolic length")
    return tuple(s) if not isinstance(s, SymSeq) else tuple(s.get(i) for i in range(s.n))


def _all(x):
    e = cur()
    if isinstance(x, Arr):
        return NP.all(x)
    s = e.as_iterable(x)
    if isinstance(s, SymSeq) and not isinstance(s.n, int):
        return agg_all(e, s.n, lambda k: e.as_bool(s.get(k)))
    items = list(s) if not isinstance(s, SymSeq) else [s.get(i) for i in range(s.n)]
    return b_and(*[e.as_bool(v) for v in items])


def _any(x):
    e = cur()
    if isinstance(x, Arr):
        return NP.any(x)
    s = e.as_iterable(x)
    if isinstance(s, SymSeq) and not isinstance(s.n, int):
        return b_not(agg_all(e, s.n, lambda k: b_not(e.as_bool(s.get(k)))))
    items = list(s) if not isinstance(s, SymSeq) else [s.get(i) for i in range(s.n)]
    return b_or(*[e.as_bool(v) for v in items])


def agg_all(e, n, fn):
    """truth value of (forall k<n. fn(k)) as a fresh Bool with both directions available to the solver"""
    cn = iconc(n) if not isinstance(n, int) else n
    if cn is not None and cn <= 8:
        return b_and(*[fn(i) for i in range(cn)])
    b = z3.Bool(e.uniq("all"))
    w = z3.Int(e.uniq("all_w"))
    eng_reg(e, "__all").append((b, n, fn))
    e.axiom(z3.Implies(b, e.forall(n, fn, name="allq")))
    wr = z3.And(w >= 0, w < to_z3(n))
    fw = e.under(wr, lambda: zb(fn(Num(w))))
    e.axiom(z3.Implies(z3.Not(b), z3.And(wr, z3.Not(fw))))
    return BoolV(b)


def _sum(x, start=0):
    e = cur()
    s = e.as_iterable(x)
    if isinstance(s, SymSeq) and not isinstance(s.n, int):
        return e_sum(e, s.n, s._get) + start
    items = list(s) if not isinstance(s, SymSeq) else [s.get(i) for i in range(s.n)]
    r = start
    for v in items:
        r = r + v
    return r


def _sorted(x, key=None, reverse=False):
    e = cur()
    s = e.as_iterable(x)
    if isinstance(s, SymSeq) and not isinstance(s.n, int):
        return sorted_model(e, s, key, reverse)
    items = list(s) if not isinstance(s, SymSeq) else [s.get(i) for i in range(s.n)]
    if all(is_conc_num(v) for v in items) and key is None:
        return sorted(items, reverse=reverse)
    if V.CONCRETE_EVAL is not None and key is None:
        try:        # concrete mode of the cross-check: closed terms are ordered by their numeric value
            return [v for _k, v in sorted(((V.CONCRETE_EVAL(v), i), v) for i, v in enumerate(items))][::(-1 if reverse else 1)]
        except Exception:
            pass
    if len(items) <= 1:
        return list(items)
    return sorted_model(e, SymSeq(len(items), lambda k: A.table_lookup({(i,): v for i, v in enumerate(items)}, (k,))), key, reverse, n_conc=len(items))


def sorted_model(e, s, key, reverse, n_conc=None):
    """D12: sorted() returns a permutation of the input in non-decreasing key order.
    Represented by an uninterpreted permutation `perm` with the ordering facts instantiated on access."""
    if key is not None:
        raise Unsupported("sorted with key over symbolic values")
    reg = eng_reg(e, "__sorted")
    for (s2, rev2, out2) in reg:
        if rev2 == reverse and n_conc is None:
            if pointwise_equal(e, s.n, s._get, s2.n, s2._get) is True:
                return out2
    perm = z3.Function(e.uniq("sortperm"), z3.IntSort(), z3.IntSort())
    inv = z3.Function(e.uniq("sortinv"), z3.IntSort(), z3.IntSort())
    n = s.n
    seen = []

    def get(k):
        kt = to_z3(k)
        p = perm(kt)
        inb = z3.And(kt >= 0, kt < to_z3(n))
        e.axiom(z3.Implies(inb, z3.And(p >= 0, p < to_z3(n), inv(p) == kt)))
        v = s.get(Num(p))
        for (k2, v2) in seen:
            le = (lift(v) <= v2) if not reverse else (lift(v) >= v2)
            e.axiom(z3.Implies(z3.And(inb, k2 >= 0, k2 < to_z3(n), kt <= k2), zb(le)))
            ge = (lift(v) >= v2) if not reverse else (lift(v) <= v2)
            e.axiom(z3.Implies(z3.And(inb, k2 >= 0, k2 < to_z3(n), kt >= k2), zb(ge)))
        if not any(kt.eq(k2) for k2, _ in seen):
            seen.append((kt, v))
        return v
    out = SymSeq(n, get)
    out.sort_info = (perm, inv, s, reverse)
    if n_conc is not None:
        return [get(i) for i in range(n_conc)]
    reg.append((s, reverse, out))
    return out


def sorted_unique(e, x):
    """contract D7.  Result U (length K):  U strictly increasing;  every U[k] is some x[w(k)];  every x[i] is U[pos(i)]"""
    n = x.shape[0]
    f = x.snapshot_fn()
    K = e.fresh_int("n_uniq", lo=0)
    e.axiom(z3.And(K.t <= to_z3(n), z3.Implies(to_z3(n) >= 1, K.t >= 1)))
    val = z3.Function(e.uniq("uniq"), z3.IntSort(), z3.RealSort())
    kind = z3.Function(e.uniq("uniq_k"), z3.IntSort(), z3.IntSort())
    wit = z3.Function(e.uniq("uniq_w"), z3.IntSort(), z3.IntSort())
    pos = z3.Function(e.uniq("uniq_pos"), z3.IntSort(), z3.IntSort())

    def elem(k):
        return Num(val(to_z3(k)), kind(to_z3(k)))
    a, b = z3.Ints(e.uniq("ua") + " " + e.uniq("ub"))
    ea, eb = elem(Num(a)), elem(Num(b))
    e.axiom(z3.ForAll([a, b], z3.Implies(z3.And(a >= 0, a < b, b < K.t), zb(ea < eb)), patterns=[z3.MultiPattern(val(a), val(b))]))
    e.axiom(z3.ForAll([a], z3.Implies(z3.And(a >= 0, a < K.t), z3.And(kind(a) >= -1, kind(a) <= 1)), patterns=[kind(a)]))

    def fn(idx):
        k = idx[0]
        kt = to_z3(k)
        w = wit(kt)
        inb = z3.And(kt >= 0, kt < K.t)
        v = elem(k)
        xw = e.under(z3.And(inb, w >= 0, w < to_z3(n)), lambda: f((Num(w),)))
        e.axiom(z3.Implies(inb, z3.And(w >= 0, w < to_z3(n), zb(lift(xw) == v))))
        return v
    U = Arr((K,), fn, dtype="float")
    U.strictly_increasing = True

    def position(i):
        """index in U of the value x[i] (adds the D7 fact for this i)"""
        it = to_z3(i)
        p = pos(it)
        inb = z3.And(it >= 0, it < to_z3(n))
        xi = e.under(inb, lambda: f((i,)))
        e.axiom(z3.Implies(inb, z3.And(p >= 0, p < K.t, zb(lift(xi) == elem(Num(p))))))
        return Num(p)
    U.position_of = position
    U.elem = elem
    U.K = K
    return U


def eng_reg(e, name):
    return e.ghost.setdefault(name, [])


def m_cityblock(u, v):
    """D18: scipy.spatial.distance.cityblock(u, v) = sum_k |u_k - v_k| for equal-length vectors"""
    e = cur()
    us, vs = e.as_iterable(u), e.as_iterable(v)
    if not isinstance(us, SymSeq):
        us = list(us)
        us = SymSeq(len(us), lambda k, l=us: A.table_lookup({(i,): x for i, x in enumerate(l)}, (k,)))
    if not isinstance(vs, SymSeq):
        vs = list(vs)
        vs = SymSeq(len(vs), lambda k, l=vs: A.table_lookup({(i,): x for i, x in enumerate(l)}, (k,)))
    if not e.must(to_z3(us.n) == to_z3(vs.n)):
        if e.branch(to_z3(us.n) != to_z3(vs.n)):
            e.py_raise("ValueError", "operands could not be broadcast together")
    return e_sum(e, us.n, lambda k: abs(lift(us.get(k)) - vs.get(k)), name="CityBlock")


def _next(it, default=MISSING):
    if isinstance(it, GenList):
        if it.pos < len(it.items):
            v = it.items[it.pos]
            it.pos += 1
            return v
        if default is not MISSING:
            return default
        cur().py_raise("StopIteration", "")
    if hasattr(it, "__vnext__"):
        return it.__vnext__()
    raise Unsupported("next() on %s" % type(it).__name__)


def _print(*a, **k):
    return None


def _round(x, nd=None):
    if is_conc_num(x):
        return round(x, nd) if nd is not None else round(x)
    raise Unsupported("round of symbolic value")


def _callable(x):
    from .engine import PyFunc, BoundMethod, RepoClass
    return isinstance(x, (PyFunc, BoundMethod, RepoClass)) or callable(x)


def _dict(*a, **k):
    e = cur()
    if a:
        src = a[0]
        if isinstance(src, dict):
            d = dict(src)
        else:
            items = e.as_iterable(src)
            if isinstance(items, SymSeq) and not isinstance(items.n, int):
                raise Unsupported("dict() of symbolic sequence")
            d = {}
            for kv in (items if not isinstance(items, SymSeq) else [items.get(i) for i in range(items.n)]):
                kk, vv = kv
                d[kk] = vv
        d.update(k)
        return d
    return dict(k)


def _set(x=()):
    return set(cur().as_iterable(x))


def _type(x):
    return TypeObj(py_type_of(x) if isinstance(py_type_of(x), str) else "object")


def _getattr(obj, name, *default):
    try:
        return cur().getattr(obj, name)
    except Exception:
        if default:
            return default[0]
        raise


def _reversed(x):
    s = cur().as_iterable(x)
    if isinstance(s, SymSeq) and not isinstance(s.n, int):
        return s[::-1]
    return list(reversed(list(s)))


_EXC = ["Exception", "ValueError", "TypeError", "IndexError", "KeyError", "StopIteration", "NotImplementedError",
        "AttributeError", "RuntimeError", "ZeroDivisionError", "AssertionError"]

_BUILTINS = {
    "len": _len, "range": _range, "min": _minmax("min"), "max": _minmax("max"), "abs": _abs,
    "int": TypeObj("int", _int), "float": TypeObj("float", _float), "bool": TypeObj("bool", _bool),
    "str": TypeObj("str", lambda x="": "<str>" if not isinstance(x, str) else x),
    "list": TypeObj("list", _list), "tuple": TypeObj("tuple", _tuple), "dict": TypeObj("dict", _dict),
    "set": TypeObj("set", _set),
    "map": (lambda f, *its: [cur().call(f, list(args), {}) for args in _zip(*its)] if not any(isinstance(cur().as_iterable(i), SymSeq) and not isinstance(cur().as_iterable(i).n, int) for i in its) else (_ for _ in ()).throw(Unsupported("map over a sequence of symbolic length"))),
    "zip": _zip, "enumerate": _enumerate, "all": _all, "any": _any, "sum": _sum, "sorted": _sorted,
    "next": _next, "print": _print, "round": _round, "callable": _callable, "type": _type,
    "getattr": _getattr, "reversed": _reversed, "iter": lambda x: GenList(cur().as_iterable(x)),
    "True": True, "False": False, "None": None,
}


def builtin(eng, name):
    if name in _BUILTINS:
        return _BUILTINS[name]
    if name in _EXC:
        from .engine import ExcClass
        return ExcClass(name)
    if name == "isinstance":
        return lambda v, t: m_isinstance(eng, v, t)
    if name == "hasattr":
        def _has(o, n):
            try:
                eng.getattr(o, n)
                return True
            except Exception:
                return False
        return _has
    return MISSING


# ============================================================================= aggregates: sums
class SumInfo:
    def __init__(self, eng, n, fn, name="Sigma"):
        self.n = n
        self.fn = fn
        self.uf = z3.Function(eng.uniq(name), z3.IntSort(), z3.RealSort())
        eng.axiom(self.uf(0) == 0)
        self.eng = eng
        self.matched = False

    def upto(self, k):
        return Num(self.uf(to_z3(k)))

    def total(self):
        return self.upto(self.n)

    def unfold(self, k):
        """Sigma(k+1) == Sigma(k) + f(k)   (instance of the defining recursion, valid for k >= 0)"""
        kt = to_z3(k)
        self.eng.axiom(z3.Implies(kt >= 0, self.uf(kt + 1) == self.uf(kt) + to_real(to_z3(lift(self.fn(k))))))


def sum_ext(eng, a, b, label="sum_ext"):
    """meta-rule Sigma-extensionality (trusted, by induction on n):
       n_a == n_b  and  forall k in [0,n). f_a(k) == f_b(k)   ==>   Sigma_a(n) == Sigma_b(n)
    The premises are proved as S-obligations on a fresh k; only then the conclusion is assumed."""
    if not eng.must(to_z3(a.n) == to_z3(b.n)):
        return False
    k = Num(z3.Int(eng.uniq("k_ext")))
    rng = z3.And(k.t >= 0, k.t < to_z3(a.n))
    goal = eng.under(rng, lambda: zb(lift(a.fn(k)) == b.fn(k)))
    ok = eng.oblige("%s.pointwise" % label, z3.Implies(rng, goal), cls="S")
    if ok:
        eng.assume(a.uf(to_z3(a.n)) == b.uf(to_z3(b.n)))
    return ok


def sum_sign(eng, info, label="sum_positive", strict=True):
    """meta-rule Sigma-positivity (trusted, by induction): forall k. f(k) > 0 (>= 0)  ==>  Sigma(n) > 0 if n >= 1 (>= 0)"""
    k = Num(z3.Int(eng.uniq("k_pos")))
    rng = z3.And(k.t >= 0, k.t < to_z3(info.n))
    goal = eng.under(rng, lambda: zb((lift(info.fn(k)) > 0) if strict else (lift(info.fn(k)) >= 0)))
    ok = eng.oblige("%s.pointwise" % label, z3.Implies(rng, goal), cls="S")
    if ok:
        tot = info.uf(to_z3(info.n))
        nz = to_z3(info.n)
        eng.assume(z3.Implies(nz <= 0, tot == 0))
        eng.assume(z3.Implies(nz >= 1, (tot > 0) if strict else (tot >= 0)))
    return ok


def sum_compress(eng, info, f_src, rows_fn, label="sum_compress"):
    """meta-rule Sigma-compress (trusted, by induction on the source length): for the order-preserving selection
    `info` (mask over [0,n), D6) and any f:   Sigma_{r < n'} f(pos(r))  ==  Sigma_{i < n} (f(i) if mask(i) else 0).
    The premise rows_fn(r) == f_src(pos(r)) is proved pointwise (S-obligation); returns (rows_sum, indicator_sum)."""
    r = Num(z3.Int(eng.uniq("r_cmp")))
    rng = z3.And(r.t >= 0, r.t < info.n.t)
    goal = eng.under(rng, lambda: zb(lift(rows_fn(r)) == f_src(info.at(r))))
    ok = eng.oblige("%s.rows_are_selected_sources" % label, z3.Implies(rng, goal), cls="S")
    rows_sum = e_sum(eng, info.n, rows_fn, name="RowSum")
    ind_sum = e_sum(eng, info.n_src, lambda i: ite(info.mask_fn(i), f_src(i), 0.0), name="IndSum")
    if ok:
        eng.assume(to_z3(lift(rows_sum)) == to_z3(lift(ind_sum)))
    return rows_sum, ind_sum


def e_sum(eng, n, fn, name="Sigma"):
    """sum_{k<n} fn(k) as Sigma(n) for a recursively defined Sigma (section 4 of DESIGN.md)"""
    cn = iconc(n) if not isinstance(n, int) else n
    if cn is not None and cn <= 12:
        r = 0
        for i in range(cn):
            r = r + fn(i)
        return r
    # Sigma-extensionality applied eagerly: a sum whose length and terms are provably equal to those of an earlier
    # sum on this path *is* that sum (same symbol).  "unknown" is remembered: refutations on such a path are not
    # trusted (aggregate matching incomplete).
    for old in eng.sums:
        r = pointwise_equal(eng, n, fn, old.n, old.fn)
        if r is True:
            return old.total()
    info = SumInfo(eng, n, fn, name)
    eng.sums.append(info)
    return info.total()


def pointwise_equal(eng, n1, f1, n2, f2):
    """True / False / None(unknown): n1 == n2 and forall k in [0,n1). f1(k) == f2(k)"""
    try:
        if not eng.must(to_z3(n1) == to_z3(n2)):
            return False
        k = Num(z3.Int(eng.uniq("k_pw")))
        rng = z3.And(k.t >= 0, k.t < to_z3(n1))

        def chk():
            a, b = f1(k), f2(k)
            if isinstance(a, (list, tuple)) or isinstance(b, (list, tuple)):
                return False
            goal = zb(lift(a) == b)
            r = eng.check(z3.Not(goal))
            if r == z3.unsat:
                return True
            if r == z3.sat:
                return False
            return None
        r = eng.under(rng, chk)
        if r is None:
            eng.ext_unknown = True
        return r
    except Unsupported:
        return False


# ============================================================================= numpy
class _NP:
    """the `np` namespace seen by interpreted code"""
    inf = math.inf
    pi = None          # set below: symbolic constant with bounds (A6)
    newaxis = None
    float64 = TypeObj("float64", _float)
    float32 = TypeObj("float32", _float)
    int64 = TypeObj("int64", _int)
    int32 = TypeObj("int32", _int)
    int16 = TypeObj("int16", _int)
    int8 = TypeObj("int8", _int)
    uint = TypeObj("uint")
    integer = TypeObj("integer")
    ndarray = TypeObj("ndarray")
    bool_ = TypeObj("bool", _bool)

    # -- constructors
    def array(self, x, dtype=None, copy=True):
        kind = A.dtype_kind(dtype)
        if isinstance(x, Arr):
            r = A.fresh_copy(x)
            return A.astype(r, kind) if kind and kind != r.kind else r
        if is_num(x) or isinstance(x, BoolV):
            return x
        if isinstance(x, (GenList,)):
            x = x.items
        if isinstance(x, SymSeq):
            return A.seq_to_array(x, dtype=kind)
        if isinstance(x, (list, tuple)):
            if len(x) == 0:
                return Arr((0,), lambda idx: 0.0, dtype=kind or "float")
            from .engine import Obj
            if all(isinstance(v, Obj) for v in x):
                return ObjArr(x)
            return from_nested(list(x), dtype=kind)
        raise Unsupported("np.array(%s)" % type(x).__name__)

    def asarray(self, x, dtype=None):
        if isinstance(x, Arr):
            return x
        return self.array(x, dtype=dtype)

    def copy(self, x):
        if isinstance(x, Arr):
            return A.fresh_copy(x)
        return self.array(x)

    def zeros(self, shape, dtype=None):
        kind = A.dtype_kind(dtype) or "float"
        shape = self._shape(shape)
        return full(shape, 0.0 if kind == "float" else 0, dtype=kind)

    def ones(self, shape, dtype=None):
        kind = A.dtype_kind(dtype) or "float"
        shape = self._shape(shape)
        return full(shape, 1.0 if kind == "float" else 1, dtype=kind)

    def _shape(self, shape):
        if isinstance(shape, Arr):
            shape = shape.tolist()
        if isinstance(shape, (list, tuple)):
            return tuple(shape)
        return (shape,)

    def zeros_like(self, a):
        return full(a.shape, 0.0 if a.kind == "float" else 0, dtype=a.kind)

    def full_like(self, a, fill_value, dtype=None):
        """np.full_like keeps the element type of `a` unless dtype is given: a real fill value stored into an integer array is truncated,
        which the element-type ledger reports (dtype_store obligation)"""
        kind = A.dtype_kind(dtype) or a.kind
        e = cur()
        if kind == "int" and not (isinstance(fill_value, int) or (isinstance(fill_value, Num) and fill_value.is_int)):
            e.oblige("dtype_store.full_like_keeps_integer_type_but_fill_value_is_real", z3.BoolVal(False), cls="P")
        return full(a.shape, fill_value, dtype=kind)

    def empty_like(self, a, dtype=None):
        kind = A.dtype_kind(dtype) or a.kind
        return A.fresh_symbolic("empty_like", a.shape, dtype=kind, eng=cur())

    def piecewise(self, x, condlist, funclist, *args, **kw):
        """np.piecewise: out has the element type of x; pieces are assigned in order (later conditions override earlier ones), an extra
        last entry of funclist is the default where no condition holds (else 0); callables are applied to the selected elements"""
        e = cur()
        if not isinstance(x, Arr) or args or kw:
            raise Unsupported("np.piecewise form")
        conds = list(condlist) if isinstance(condlist, (list, tuple)) else [condlist]
        funcs = list(funclist)
        if len(funcs) not in (len(conds), len(conds) + 1):
            e.py_raise("ValueError", "piecewise: function list length")
        default = funcs[len(conds)] if len(funcs) == len(conds) + 1 else 0
        fx = x.snapshot_fn()
        cfs = [c.snapshot_fn() if isinstance(c, Arr) else (lambda idx, c=c: c) for c in conds]

        def apply(f, v):
            if callable(f) or hasattr(f, "node"):
                return e.call(f, [v], {})
            return f
        if x.kind == "int":
            # the result keeps the integer type of x: any non-integer piece would be truncated
            probe = [apply(f, fx(tuple(e.fresh_int("pw_i") for _ in x.shape))) for f in funcs]
            if any(not (isinstance(v, int) or (isinstance(v, Num) and v.is_int)) for v in probe):
                e.oblige("dtype_store.piecewise_keeps_integer_type_but_a_piece_is_real", z3.BoolVal(False), cls="P")

        def value(idx):
            v = apply(default, fx(idx))
            for c, f in zip(cfs, funcs):
                v = ite(c(idx), apply(f, fx(idx)), v)
            return v
        return Arr(x.shape, value, dtype=x.kind)

    def atleast_1d(self, x):
        if isinstance(x, Arr):
            return x if x.ndim >= 1 else Arr((1,), lambda idx: x.get(), dtype=x.kind)
        if isinstance(x, (list, tuple)):
            return from_nested(list(x))
        return Arr((1,), lambda idx: x, dtype="int" if (isinstance(x, int) or (isinstance(x, Num) and x.is_int)) else "float")

    def arange(self, *a, dtype=None):
        """arange(n) / arange(start, stop) / arange(start, stop, step) over integers (step a positive concrete integer)"""
        if len(a) == 1:
            n = a[0]
            if A.dtype_kind(dtype) == "float":
                return Arr((n,), lambda idx: as_float(idx[0]), dtype="float")
            return Arr((n,), lambda idx: idx[0], dtype="int")
        if any(not (isinstance(v, int) or (isinstance(v, Num) and v.is_int)) for v in a):
            raise Unsupported("np.arange with non-integer arguments")
        start, stop = a[0], a[1]
        step = a[2] if len(a) > 2 else 1
        if not (isinstance(step, int) and step > 0):
            raise Unsupported("np.arange with a symbolic or non-positive step")
        span = stop - start
        n = ite(lift(span) > 0, (span + (step - 1)) // step, 0) if not (isinstance(span, int)) else max(0, (span + step - 1) // step)
        return Arr((n,), lambda idx: start + idx[0] * step, dtype="int")

    def linspace(self, start, stop, num=50, endpoint=True, retstep=False, dtype=None):
        """D14: num evenly spaced samples; element i = start + i*step, step = (stop-start)/(num-1) (endpoint) or /num"""
        div = (num - 1) if endpoint else num
        e = cur()
        if isinstance(div, Num):
            e.definedness(div.t > 0, "linspace needs a positive number of intervals")
        elif div <= 0:
            raise Unsupported("linspace with num<=1")
        step = V.num_div(stop - start, as_float(div))
        arr = Arr((num,), lambda idx: start + idx[0] * step, dtype="float")
        if endpoint:
            arr.lin = (start, stop, num)      # descriptor used by the modular contract of np.interp
        if retstep:
            return (arr, step)
        return arr

    # -- elementwise
    def abs(self, x):
        if isinstance(x, FlatSeq):
            # np.abs(list of [x, y] rows) is the 2-d array of absolute values; its rows are what iteration yields
            return x.mapped(lambda row: [num_abs(v) for v in row] if isinstance(row, (list, tuple)) else num_abs(row))
        if isinstance(x, Arr):
            return elementwise(num_abs, x)
        if isinstance(x, (list, tuple)):
            return elementwise(num_abs, from_nested(list(x)))
        return num_abs(x)

    absolute = abs

    def maximum(self, a, b):
        if isinstance(a, Arr) or isinstance(b, Arr):
            return elementwise(num_max, a, b)
        return num_max(a, b)

    def minimum(self, a, b):
        if isinstance(a, Arr) or isinstance(b, Arr):
            return elementwise(num_min, a, b)
        return num_min(a, b)

    def multiply(self, a, b):
        return a * b

    def divide(self, a, b):
        if isinstance(a, Arr) or isinstance(b, Arr):
            return a / b if isinstance(a, Arr) else b.__rtruediv__(a)
        return V.num_div(a, b)

    def isfinite(self, x):
        f = lambda v: (lift(v).finite() if isinstance(v, (Num, float)) else True)
        if isinstance(x, Arr):
            return elementwise(f, x, dtype="bool")
        return f(x)

    def isclose(self, a, b, rtol=1e-05, atol=1e-08, equal_nan=False):
        """|a - b| <= atol + rtol * |b| on finite reals (NumPy's definition), elementwise with broadcasting"""
        f = lambda x, y: (abs(lift(x) - y) <= lift(atol) + lift(rtol) * abs(lift(y)))
        if isinstance(a, Arr) or isinstance(b, Arr):
            return elementwise(f, a, b, dtype="bool")
        return f(a, b)

    def allclose(self, a, b, rtol=1e-05, atol=1e-08, equal_nan=False):
        a = from_nested(list(a)) if isinstance(a, (list, tuple)) else a
        b = from_nested(list(b)) if isinstance(b, (list, tuple)) else b
        return self.all(self.isclose(a, b, rtol=rtol, atol=atol))

    def array_equal(self, a, b):
        a = from_nested(list(a)) if isinstance(a, (list, tuple)) else a
        b = from_nested(list(b)) if isinstance(b, (list, tuple)) else b
        if not (isinstance(a, Arr) and isinstance(b, Arr)):
            return V.num_eq(a, b)
        if a.ndim != b.ndim:
            return False
        same_shape = b_and(*[lift(x) == y for x, y in zip(a.shape, b.shape)])
        e = cur()
        if not e.truth(same_shape):          # decided on this path
            return False
        return self.all(elementwise(lambda x, y: V.num_eq(x, y), a, b, dtype="bool"))

    def square(self, x):
        return x * x

    def flatnonzero(self, x):
        """indices of the non-zero (true) entries of a 1-d array, in order: mask selection from arange (D6)"""
        if not (isinstance(x, Arr) and x.ndim == 1):
            raise Unsupported("np.flatnonzero of a non 1-d array")
        mask = x if x.kind == "bool" else elementwise(lambda v: b_not(V.num_eq(v, 0)), x, dtype="bool")
        return A.index_array(self.arange(x.shape[0]), mask)

    def round(self, x, decimals=0):
        """rounding to `decimals` places as a real function: floor(x * 10^d + 1/2) / 10^d (ties upward; NumPy rounds ties to even -
        the two differ only on exact ties, which the callers under contract do not depend on)"""
        if not isinstance(decimals, int):
            raise Unsupported("np.round with symbolic decimals")
        sc = 10 ** decimals
        f = lambda v: V.num_div(num_floor(lift(v) * sc + Fraction(1, 2)), sc) if decimals else num_floor(lift(v) + Fraction(1, 2))
        return elementwise(f, x, dtype="float") if isinstance(x, Arr) else f(x)

    around = round

    def ascontiguousarray(self, x, dtype=None):
        """returns the array itself when it already is an ndarray of that type (no copy): writes through the result reach the argument"""
        if isinstance(x, Arr) and (dtype is None or A.dtype_kind(dtype) in (None, x.kind)):
            return x
        return self.array(x, dtype=dtype)

    asfortranarray = ascontiguousarray          # may or may not copy, depending on the memory layout: the no-copy case is the one that matters

    def empty(self, shape, dtype=None):
        kind = A.dtype_kind(dtype) or "float"
        return A.fresh_symbolic("empty", self._shape(shape), dtype=kind, eng=cur())

    def eye(self, n, dtype=None):
        return Arr((n, n), lambda idx: ite(V.num_eq(idx[0], idx[1]), 1.0, 0.0), dtype=A.dtype_kind(dtype) or "float")

    def reciprocal(self, x):
        """1/x; for integer input NumPy computes the INTEGER reciprocal (0 unless x is +-1)"""
        def f(v):
            if isinstance(v, int) or (isinstance(v, Num) and v.is_int):
                return ite(V.num_eq(v, 1), 1, ite(V.num_eq(v, -1), -1, 0))
            return V.num_div(1.0, v)
        return elementwise(f, x, dtype=x.kind) if isinstance(x, Arr) else f(x)

    def ptp(self, x, axis=None):
        return self._extreme(x, "max", axis) - self._extreme(x, "min", axis)

    def isinf(self, x):
        f = lambda v: (b_not(lift(v).finite()) if isinstance(v, (Num, float)) else False)
        if isinstance(x, Arr):
            return elementwise(f, x, dtype="bool")
        return f(x)

    def _uf1(self, name, x, conc, axioms=None, domain=None):
        def f(v):
            if is_conc_num(v):
                try:
                    return conc(v)
                except (ValueError, OverflowError):
                    raise Unsupported("%s(%r)" % (name, v))
            v = lift(v)
            e = cur()
            if not (isinstance(v.k, int) and v.k == 0):
                e.definedness(V._kterm(v.k) == 0, "%s of infinity not modelled" % name)
            if domain is not None:
                e.definedness(domain(v.t), "%s outside its domain (NaN)" % name)
            uf = UF(name)
            t = uf(to_real(v.t))
            if axioms:
                axioms(e, v.t, t)
            return Num(t)
        if isinstance(x, Arr):
            return elementwise(f, x, dtype="float")
        return f(x)

    def sqrt(self, x):
        def ax(e, v, t):
            vr = to_real(v)
            e.axiom(z3.Implies(vr >= 0, z3.And(t >= 0, t * t == vr)))

        def conc(v):
            # exact for perfect squares; otherwise keep the irrational symbolic (sqrt(v) >= 0, sqrt(v)^2 == v)
            f = Fraction(repr(v)) if isinstance(v, float) else Fraction(v)
            if f < 0:
                raise ValueError("sqrt of negative")
            rn, rd = math.isqrt(f.numerator), math.isqrt(f.denominator)
            if rn * rn == f.numerator and rd * rd == f.denominator:
                return float(Fraction(rn, rd))
            if V.ENGINE is None:
                return math.sqrt(v)
            t = UF("sqrt")(to_z3(f))
            ax(cur(), to_z3(f), t)
            if f == 2:
                # sqrt(2) = 2 * cos(pi/4): both are the positive roots of their defining equations
                cur().axiom(z3.And(_H > 0, _H * _H == z3.Q(1, 2), t == 2 * _H, t * _H == 1))
            return Num(t)
        return self._uf1("sqrt", x, conc, ax, domain=lambda v: v >= 0)

    def exp(self, x):
        def ax(e, v, t):
            e.axiom(t > 0)
        return self._uf1("exp", x, math.exp, ax)

    def log(self, x):
        def ax(e, v, t):
            vr = to_real(v)
            e.axiom(z3.And(z3.Implies(vr > 1, t > 0), z3.Implies(vr == 1, t == 0), z3.Implies(z3.And(vr > 0, vr < 1), t < 0)))
        return self._uf1("log", x, math.log, ax, domain=lambda v: v > 0)

    def log1p(self, x):
        """D27: log1p(t) = log(1 + t), expm1(x) = exp(x) - 1 as real functions (their point is floating-point accuracy near 0)"""
        return self.log(1.0 + x if not isinstance(x, Arr) else x + 1.0)

    def expm1(self, x):
        return self.exp(x) - 1.0

    def sin(self, x):
        if is_quarter_pi(x):
            return HALF_SQRT2()
        return self._uf1("sin", x, math.sin)

    def cos(self, x):
        if is_quarter_pi(x):
            return HALF_SQRT2()
        return self._uf1("cos", x, math.cos)

    def arcsin(self, x):
        return self._uf1("arcsin", x, math.asin, None, domain=lambda v: z3.And(v >= -1, v <= 1))

    def ceil(self, x):
        if isinstance(x, Arr):
            return elementwise(num_ceil, x, dtype="float")
        return num_ceil(x)

    def floor(self, x):
        if isinstance(x, Arr):
            return elementwise(num_floor, x, dtype="float")
        return num_floor(x)

    def where(self, c, a, b):
        return elementwise(lambda cc, x, y: ite(cc, x, y), c, a, b)

    def logical_and(self, a, b):
        return elementwise(lambda x, y: b_and(x, y), a, b, dtype="bool")

    def logical_or(self, a, b):
        return elementwise(lambda x, y: b_or(x, y), a, b, dtype="bool")

    def logical_not(self, a):
        return elementwise(lambda x: b_not(x), a, dtype="bool") if isinstance(a, Arr) else b_not(a)

    # -- plain elementwise aliases of the operators (same semantics as the operator forms)
    def add(self, a, b):
        return a + b

    def subtract(self, a, b):
        return a - b

    def negative(self, a):
        return -a

    def power(self, a, b):
        return a ** b

    def sign(self, x):
        """-1 / 0 / +1 with the element type of the argument"""
        def f(v):
            fl = not (isinstance(v, int) or (isinstance(v, Num) and v.is_int))
            one, zero = (1.0, 0.0) if fl else (1, 0)
            return ite(lift(v) > 0, one, ite(lift(v) < 0, -one, zero))
        return elementwise(f, x, dtype=x.kind) if isinstance(x, Arr) else f(x)

    def clip(self, x, lo, hi):
        """np.clip(x, lo, hi) == minimum(maximum(x, lo), hi)  (None = no bound)"""
        r = x
        if lo is not None:
            r = self.maximum(r, lo)
        if hi is not None:
            r = self.minimum(r, hi)
        return r

    def isnan(self, x):
        """floats are reals or tagged infinities here: an operation whose IEEE result would be NaN carries its own definedness obligation
        where it is evaluated, so no value that reaches this point is NaN"""
        return elementwise(lambda v: False, x, dtype="bool") if isinstance(x, Arr) else False

    def hypot(self, a, b):
        return self.sqrt(a * a + b * b)

    def full(self, shape, fill_value, dtype=None):
        kind = A.dtype_kind(dtype) or ("int" if isinstance(fill_value, int) or (isinstance(fill_value, Num) and fill_value.is_int) else "float")
        return full(self._shape(shape), fill_value, dtype=kind)

    def ones_like(self, a):
        return full(a.shape, 1.0 if a.kind == "float" else 1, dtype=a.kind)

    def identity(self, n, dtype=None):
        return self.eye(n, dtype=dtype)

    def transpose(self, a):
        return a.T

    def ravel(self, a):
        return a.ravel()

    def ndim(self, a):
        return a.ndim if isinstance(a, Arr) else 0

    def shape(self, a):
        return tuple(a.shape) if isinstance(a, Arr) else ()

    def size(self, a):
        return a.size if isinstance(a, Arr) else 1

    def mean(self, x, axis=None):
        if axis is not None or not isinstance(x, Arr):
            raise Unsupported("np.mean with axis / of a non-array")
        return V.num_div(as_float(self.sum(x)), x.size)

    def diagonal(self, a):
        """main diagonal of a square 2-d array (NumPy returns a read-only view: modelled as a fresh array)"""
        if not (isinstance(a, Arr) and a.ndim == 2):
            raise Unsupported("np.diagonal of a non 2-d array")
        f = a.snapshot_fn()
        return Arr((A.imin(a.shape[0], a.shape[1]),), lambda idx: f((idx[0], idx[0])), dtype=a.kind)

    def diag(self, a):
        if isinstance(a, Arr) and a.ndim == 2:
            return self.diagonal(a)
        if isinstance(a, Arr) and a.ndim == 1:
            f = a.snapshot_fn()
            zero = 0.0 if a.kind == "float" else 0
            return Arr((a.shape[0], a.shape[0]), lambda idx: ite(V.num_eq(idx[0], idx[1]), f((idx[0],)), zero), dtype=a.kind)
        raise Unsupported("np.diag of %r" % (type(a).__name__,))

    def outer(self, a, b):
        fa, fb = a.snapshot_fn(), b.snapshot_fn()
        return Arr((a.shape[0], b.shape[0]), lambda idx: fa((idx[0],)) * fb((idx[1],)), dtype="float")

    def dot(self, a, b):
        return A.dot(a, b)

    # -- reductions
    def sum(self, x, axis=None):
        e = cur()
        if isinstance(x, MaskedArr):
            # sums over the unmasked entries; only the shape matters to the callers under contract (values left unconstrained: sound)
            if axis == 0 and x.arr.ndim == 2:
                r = MaskedArr(A.fresh_symbolic("masked_colsum", (x.arr.shape[1],), dtype=x.arr.kind, eng=e), None)
                return r
            raise Unsupported("np.sum of a masked array with axis=%r" % (axis,))
        if isinstance(x, ObjArr):
            if axis is not None or not x.items:
                raise Unsupported("np.sum of an object array with axis / empty")
            r = x.items[0]
            for it in x.items[1:]:
                r = e.binop(ast.Add(), r, it)
            return r
        if isinstance(x, (list, tuple)):
            x = from_nested(list(x))
        if not isinstance(x, Arr):
            return x
        f = x.snapshot_fn()
        if axis is None:
            if x.ndim == 1:
                return e_sum(e, x.shape[0], lambda k: f((k,)))
            if x.ndim == 2 and isinstance(x.shape[1], int):
                w = x.shape[1]
                return e_sum(e, x.shape[0], lambda k: _csum([f((k, c)) for c in range(w)]))
            if x.ndim == 2 and isinstance(x.shape[0], int):
                h = x.shape[0]
                return e_sum(e, x.shape[1], lambda k: _csum([f((r, k)) for r in range(h)]))
            raise Unsupported("np.sum over %d-d symbolic array" % x.ndim)
        if x.ndim == 2 and axis in (1, -1):
            n = x.shape[1]
            if isinstance(n, int):
                return Arr((x.shape[0],), lambda idx: _csum([f((idx[0], c)) for c in range(n)]), dtype=x.kind)
            raise Unsupported("row sums of symbolic width")
        if x.ndim == 2 and axis == 0:
            n = x.shape[0]
            if isinstance(n, int):
                return Arr((x.shape[1],), lambda idx: _csum([f((r, idx[0])) for r in range(n)]), dtype=x.kind)
            num = (lambda v: ite(v, 1, 0)) if x.kind == "bool" else (lambda v: v)
            return Arr((x.shape[1],), lambda idx: e_sum(e, n, lambda k: num(f((k, idx[0])))), dtype="int" if x.kind in ("bool", "int") else "float")
        if x.ndim == 3 and axis in (2, -1):
            n = x.shape[2]
            if isinstance(n, int):
                return Arr(x.shape[:2], lambda idx: _csum([f((idx[0], idx[1], c)) for c in range(n)]), dtype=x.kind)
            raise Unsupported("sum over a symbolic last axis")
        raise Unsupported("np.sum axis=%r ndim=%d" % (axis, x.ndim))

    def prod(self, x):
        if isinstance(x, Arr) and all(isinstance(d, int) for d in x.shape):
            r = 1
            import itertools as it
            for idx in it.product(*[range(d) for d in x.shape]):
                r = r * x.get(*idx)
            return r
        raise Unsupported("np.prod of symbolic shape")

    def _extreme(self, x, which, axis=None):
        e = cur()
        if isinstance(x, (list, tuple)):
            if all(is_num(v) for v in x):
                r = x[0]
                for v in x[1:]:
                    r = num_max(r, v) if which == "max" else num_min(r, v)
                return r
            x = from_nested(list(x))
        if not isinstance(x, Arr):
            return x
        f = x.snapshot_fn()
        if axis is None:
            if all(isinstance(d, int) for d in x.shape):
                import itertools as it
                r = None
                for idx in it.product(*[range(d) for d in x.shape]):
                    v = f(idx)
                    r = v if r is None else (num_max(r, v) if which == "max" else num_min(r, v))
                if r is None:
                    e.py_raise("ValueError", "zero-size array to reduction operation")
                return r
            # symbolic: witness + universal bound (D23); the extreme of pointwise-equal arrays is the same value
            reg_same = eng_reg(e, "__extreme_same")
            for (bid, ver, fw, w2, m2) in reg_same:
                if bid == x.buf.id and ver == x.buf.writes and fw is x.fwd and w2 == which:
                    return m2
            if x.ndim == 1:
                reg = eng_reg(e, "__extreme")
                for (n2, f2, w2, m2) in reg:
                    if w2 == which and pointwise_equal(e, x.shape[0], lambda k: f((k,)), n2, f2) is True:
                        return m2
            size_pos = b_and(*[lift(d) > 0 for d in x.shape])
            if not e.must(zb(size_pos)):
                if not e.branch(zb(size_pos)):
                    e.py_raise("ValueError", "zero-size array to reduction operation")
            ws = tuple(e.fresh_int("w_%s%d" % (which, a), lo=0, hi=d) for a, d in enumerate(x.shape))
            m = f(ws)
            qs = [z3.Int(e.uniq("mq%d" % a)) for a in range(x.ndim)]
            body = zb((lift(f(tuple(Num(q) for q in qs))) <= m) if which == "max" else (lift(f(tuple(Num(q) for q in qs))) >= m))
            rng = z3.And(*[z3.And(q >= 0, q < to_z3(d)) for q, d in zip(qs, x.shape)])
            e.axiom(z3.ForAll(qs, z3.Implies(rng, body)))
            if x.ndim == 1:
                eng_reg(e, "__extreme").append((x.shape[0], (lambda k: f((k,))), which, m))
            eng_reg(e, "__extreme_same").append((x.buf.id, x.buf.writes, x.fwd, which, m))
            return m
        if x.ndim == 2:
            ax = axis if axis >= 0 else axis + 2
            other = 1 - ax
            n = x.shape[ax]

            def one(j):
                col = Arr((n,), (lambda idx, j=j: f((idx[0], j) if ax == 0 else (j, idx[0]))), dtype=x.kind)
                return self._extreme(col, which)
            m = x.shape[other]
            if isinstance(m, int):
                vals = [one(j) for j in range(m)]
                return from_nested(vals)
            # symbolic number of rows (columns): one witness per row, facts instantiated when the element is read (D23)
            wit = z3.Function(e.uniq("w_row" + which), z3.IntSort(), z3.IntSort())

            def elem(idx):
                j = idx[0]
                jt = to_z3(j)
                w = Num(wit(jt))
                inb = z3.And(jt >= 0, jt < to_z3(m), to_z3(n) > 0)
                at = (lambda c: f((c, j))) if ax == 0 else (lambda c: f((j, c)))
                val = e.under(z3.And(inb, w.t >= 0, w.t < to_z3(n)), lambda: at(w), default=0)
                e.axiom(z3.Implies(inb, z3.And(w.t >= 0, w.t < to_z3(n))))
                q = z3.Int(e.uniq("rq"))
                rng = z3.And(inb, q >= 0, q < to_z3(n))
                body = e.under(rng, lambda: zb((lift(at(Num(q))) <= val) if which == "max" else (lift(at(Num(q))) >= val)))
                e.axiom(z3.ForAll([q], z3.Implies(rng, body)))
                return val
            return Arr((m,), elem, dtype=x.kind)
        raise Unsupported("np.%s axis=%r" % (which, axis))

    def max(self, x, axis=None):
        return self._extreme(x, "max", axis)

    def min(self, x, axis=None):
        return self._extreme(x, "min", axis)

    amax = max
    amin = min

    def all(self, x, axis=None):
        e = cur()
        if not isinstance(x, Arr):
            return e.as_bool(x)
        f = x.snapshot_fn()
        if axis is None:
            if x.ndim == 1:
                return agg_all(e, x.shape[0], lambda k: e.as_bool(f((k,))))
            if all(isinstance(d, int) for d in x.shape):
                import itertools as it
                return b_and(*[e.as_bool(f(idx)) for idx in it.product(*[range(d) for d in x.shape])])
            if x.ndim == 2 and isinstance(x.shape[1], int):
                w = x.shape[1]
                return agg_all(e, x.shape[0], lambda k: b_and(*[e.as_bool(f((k, c))) for c in range(w)]))
            # general n-d: fresh Bool with both directions (witness index tuple for the negative case)
            b = z3.Bool(e.uniq("all"))
            qs = [z3.Int(e.uniq("aq%d" % a_)) for a_ in range(x.ndim)]
            ws = [z3.Int(e.uniq("aw%d" % a_)) for a_ in range(x.ndim)]
            rq = z3.And(*[z3.And(q >= 0, q < to_z3(d)) for q, d in zip(qs, x.shape)])
            rw = z3.And(*[z3.And(w >= 0, w < to_z3(d)) for w, d in zip(ws, x.shape)])
            body = e.under(rq, lambda: zb(e.as_bool(f(tuple(Num(q) for q in qs)))))
            fw = e.under(rw, lambda: zb(e.as_bool(f(tuple(Num(w) for w in ws)))))
            e.axiom(z3.Implies(b, z3.ForAll(qs, z3.Implies(rq, body))))
            e.axiom(z3.Implies(z3.Not(b), z3.And(rw, z3.Not(fw))))
            return BoolV(b)
        if x.ndim == 2 and axis in (1, -1) and isinstance(x.shape[1], int):
            w = x.shape[1]
            return Arr((x.shape[0],), lambda idx: b_and(*[e.as_bool(f((idx[0], c))) for c in range(w)]), dtype="bool")
        raise Unsupported("np.all axis")

    def any(self, x, axis=None):
        e = cur()
        if isinstance(x, PairBag):
            return x.exists()
        if not isinstance(x, Arr):
            return e.as_bool(x)
        inv = elementwise(lambda v: b_not(e.as_bool(v)), x, dtype="bool")
        r = self.all(inv, axis=axis)
        if isinstance(r, Arr):
            return elementwise(b_not, r, dtype="bool")
        return b_not(r)

    def argmax(self, x, axis=None):
        return self._arg(x, "max")

    def argmin(self, x, axis=None):
        return self._arg(x, "min")

    def _arg(self, x, which):
        """D23: index of the first extreme element"""
        e = cur()
        if not isinstance(x, Arr) or x.ndim != 1:
            raise Unsupported("argmin/argmax of non 1-d")
        f = x.snapshot_fn()
        n = x.shape[0]
        if isinstance(n, int):
            if n == 0:
                e.py_raise("ValueError", "attempt to get argmin of an empty sequence")
            bi, bv = 0, f((0,))
            for i in range(1, n):
                v = f((i,))
                better = (lift(v) > bv) if which == "max" else (lift(v) < bv)
                bi = ite(better, i, bi)
                bv = ite(better, v, bv)
            return bi
        w = e.fresh_int("arg" + which, lo=0, hi=n)
        m = f((w,))
        e.axiom(e.forall(n, lambda k: (lift(f((k,))) <= m) if which == "max" else (lift(f((k,))) >= m), name="aq"))
        e.axiom(e.forall(w, lambda k: (lift(f((k,))) < m) if which == "max" else (lift(f((k,))) > m), name="afq"))
        return w

    def concatenate(self, arrs, axis=0):
        """np.concatenate along axis 0 of a python list of arrays of equal trailing shape (lengths may be symbolic): a fresh array"""
        e = cur()
        arrs = [from_nested(list(x)) if isinstance(x, (list, tuple)) else x for x in list(arrs)]
        if axis != 0 or not arrs or not all(isinstance(x, Arr) for x in arrs):
            raise Unsupported("np.concatenate form")
        nd = arrs[0].ndim
        if any(x.ndim != nd for x in arrs):
            e.py_raise("ValueError", "all the input array dimensions must match")
        fs = [x.snapshot_fn() for x in arrs]
        offs = [0]
        for x in arrs:
            offs.append(offs[-1] + x.shape[0])
        kind = "float" if any(x.kind == "float" for x in arrs) else arrs[0].kind

        def value(idx):
            v = None
            for t in range(len(arrs) - 1, -1, -1):
                loc = (idx[0] - offs[t],) + tuple(idx[1:])
                inside = b_and(lift(idx[0]) >= offs[t], lift(idx[0]) < offs[t + 1])
                vt = e.under(zb(inside), (lambda t=t, loc=loc: fs[t](loc)), default=0.0)
                v = vt if v is None else ite(lift(idx[0]) >= offs[t], vt, v) if False else (vt if t == len(arrs) - 1 else ite(lift(idx[0]) < offs[t + 1], vt, v))
            return v
        return Arr((offs[-1],) + tuple(arrs[0].shape[1:]), value, dtype=kind)

    def triu_indices_from(self, a, k=0):
        if not (isinstance(a, Arr) and a.ndim == 2) or not isinstance(k, int):
            raise Unsupported("triu_indices_from")
        return TriuIdx(a.shape[0], a.shape[1], k)

    def delete(self, a, obj, axis=None):
        """np.delete(a, i, axis) for one integer index on a 2-d array: a fresh array without row / column i"""
        e = cur()
        if not (isinstance(a, Arr) and a.ndim == 2 and axis in (0, 1)) or isinstance(obj, (Arr, list, tuple, slice)):
            raise Unsupported("np.delete form")
        n = a.shape[axis]
        e.definedness(z3.And(to_z3(lift(obj)) >= -to_z3(lift(n)), to_z3(lift(obj)) < to_z3(lift(n))), "np.delete: index out of bounds", force=True)
        r = ite(lift(obj) >= 0, obj, lift(obj) + n)
        f = a.snapshot_fn()
        shape = (n - 1, a.shape[1]) if axis == 0 else (a.shape[0], n - 1)
        sh = lambda i: lift(i) + ite(lift(i) >= r, 1, 0)
        return Arr(shape, (lambda idx: f((sh(idx[0]), idx[1]))) if axis == 0 else (lambda idx: f((idx[0], sh(idx[1])))), dtype=a.kind)

    @property
    def ma(self):
        return _MA()

    # -- mutation helpers
    def fill_diagonal(self, a, val):
        e = cur()
        e.on_store(a)
        if a.ndim != 2:
            raise Unsupported("fill_diagonal ndim")
        buf, old, inv = a.buf, a.buf.fn, a.inv
        if isinstance(val, Arr):
            vf, vn = val.snapshot_fn(), val.shape[0]

            def value(i):
                return vf((i,))
            # numpy repeats a too-short value; demand equal length instead
            e.definedness(to_z3(vn) == to_z3(A.imin(a.shape[0], a.shape[1])), "fill_diagonal value length equals diagonal length")
        else:
            def value(i):
                return val
        shp = a.shape

        def fn(b):
            c, v = inv(b)
            c = b_and(c, num_eq(v[0], v[1]))
            return ite(c, A._coerce(a, value(v[0])), old(b))
        buf.fn = fn
        buf.writes += 1

    def unique(self, x, return_counts=False, axis=None):
        """D7: np.unique(x) for a 1-d array x = strictly increasing array of the distinct values of x"""
        if return_counts or axis is not None:
            hooks = cur().contracts.get("__hooks", {})
            if "unique_counts" in hooks:
                return hooks["unique_counts"](x, return_counts=return_counts, axis=axis)
            raise Unsupported("np.unique with return_counts / axis: modular contract only")
        if not isinstance(x, Arr) or x.ndim != 1:
            raise Unsupported("np.unique of non 1-d")
        return sorted_unique(cur(), x)

    def sort(self, x, axis=-1, kind=None):
        """D7: np.sort of an array already known strictly increasing is that array; a 1-d array is sorted through the sorted() contract
        (D12); a 2-d array along axis 0 has every column sorted on its own"""
        e = cur()
        if getattr(x, "strictly_increasing", False):
            return x
        if isinstance(x, Arr) and x.ndim == 1:
            f = x.snapshot_fn()
            sm = sorted_model(e, SymSeq(x.shape[0], lambda k: f((k,))), None, False)
            return Arr(x.shape, lambda idx: sm.get(idx[0]), dtype=x.kind)
        if isinstance(x, Arr) and x.ndim == 2 and axis == 0 and isinstance(x.shape[1], int):
            f = x.snapshot_fn()
            cols = [sorted_model(e, SymSeq(x.shape[0], (lambda k, c=c: f((k, c)))), None, False) for c in range(x.shape[1])]
            return Arr(x.shape, lambda idx: A.table_lookup({(c,): cols[c].get(idx[0]) for c in range(len(cols))}, (idx[1],)), dtype=x.kind)
        raise Unsupported("np.sort of an arbitrary array (axis=%r, ndim=%s)" % (axis, getattr(x, "ndim", "?")))

    def iinfo(self, t):
        name = getattr(t, "name", getattr(t, "__name__", str(t)))
        bits = {"int8": 7, "int16": 15, "int32": 31, "int64": 63}.get(name)
        if bits is None:
            raise Unsupported("np.iinfo(%s)" % name)

        class _I:
            max = 2 ** bits - 1
            min = -2 ** bits
        return _I()

    def tril_indices(self, n, k=0):
        if not isinstance(n, int):
            raise Unsupported("tril_indices of symbolic size")
        rows = [i for i in range(n) for j in range(n) if j <= i + k]
        cols = [j for i in range(n) for j in range(n) if j <= i + k]
        return (from_nested(rows, dtype="int") if rows else Arr((0,), lambda idx: 0, dtype="int"),
                from_nested(cols, dtype="int") if cols else Arr((0,), lambda idx: 0, dtype="int"))

    def pad(self, a, pad_width=None, **kw):
        """D15: zero padding (default mode 'constant')"""
        if a.ndim != 2:
            raise Unsupported("np.pad ndim")
        (b0, a0), (b1, a1) = pad_width
        f = a.snapshot_fn()
        shp = (b0 + a.shape[0] + a0, b1 + a.shape[1] + a1)
        s0, s1 = a.shape

        def fn(idx):
            i, j = idx[0] - b0, idx[1] - b1
            inside = b_and(lift(i) >= 0, lift(i) < s0, lift(j) >= 0, lift(j) < s1) if not all(isinstance(t, int) for t in (i, j, s0, s1)) \
                else (0 <= i < s0 and 0 <= j < s1)
            zero = 0.0 if a.kind == "float" else 0
            if isinstance(inside, bool):
                return f((i, j)) if inside else zero
            return ite(inside, cur().under(zb(inside), lambda: f((i, j)), default=zero), zero)
        return Arr(shp, fn, dtype=a.kind)

    def meshgrid(self, x, y, indexing="xy"):
        fx, fy = x.snapshot_fn(), y.snapshot_fn()
        nx, ny = x.shape[0], y.shape[0]
        if indexing == "ij":
            return (Arr((nx, ny), lambda idx: fx((idx[0],)), dtype=x.kind), Arr((nx, ny), lambda idx: fy((idx[1],)), dtype=y.kind))
        return (Arr((ny, nx), lambda idx: fx((idx[1],)), dtype=x.kind), Arr((ny, nx), lambda idx: fy((idx[0],)), dtype=y.kind))

    def reshape(self, a, shape, order="C"):
        if order != "C":
            raise Unsupported("reshape order")
        return A.reshape_copy(a, tuple(shape))

    def issubdtype(self, dt, t):
        k = A.dtype_kind(dt)
        name = getattr(t, "name", getattr(t, "__name__", ""))
        if name == "integer":
            return k == "int"
        if name == "uint":
            return False
        if name.startswith("float") or name == "floating":
            return k == "float"
        raise Unsupported("issubdtype(%s)" % name)

    def interp(self, x, xp, fp, left=None, right=None, period=None):
        if left is not None or right is not None or period is not None:
            raise Unsupported("np.interp with left / right / period: outside the modular contract (D26 covers the default continuation)")
        return self._interp_default(x, xp, fp)

    def _interp_default(self, x, xp, fp):
        # abscissae / ordinates that are the two columns of one list of (x, y) pairs carrying a row identity (critical points of one
        # depth of an exact landscape): the piecewise-linear function through those pairs, as an abstract function of (x, depth)
        cx, cy = getattr(xp, "column_of", None), getattr(fp, "column_of", None)
        if cx is not None and cy is not None and cx[0] is not None and cx[0] == cy[0] and (cx[1], cy[1]) == (0, 1) and isinstance(x, Arr) and x.ndim == 1:
            e = cur()
            tag, row = cx[0]
            fx = x.snapshot_fn()
            return Arr(x.shape, lambda idx: interp_pairs_term(e, tag, fx(idx), row), dtype="float")
        return self._interp_linspace(x, xp, fp)

    def _interp_linspace(self, x, xp, fp):
        """D26 (assumed contract of the dependency): np.interp(x, xp, fp)[i] is a function of x[i], xp and fp only - the piecewise-linear
        interpolant through (xp, fp), constant beyond the ends.  Modular encoding: for xp = np.linspace(a, b, m) and fp = row r of a
        2-d buffer B the element is INTERP_B(x[i], a, b, m, r) with INTERP_B uninterpreted; other argument forms are not supported."""
        e = cur()
        lin = getattr(xp, "lin", None)
        rid = row_identity(e, fp)
        if lin is None or rid is None or not isinstance(x, Arr) or x.ndim != 1:
            raise Unsupported("np.interp: the modular contract needs xp from np.linspace and fp a whole row of a 2-d array")
        e.definedness(to_z3(lift(xp.shape[0])) == to_z3(lift(fp.shape[0])), "np.interp: fp and xp must have the same length")
        fx = x.snapshot_fn()
        key, row = rid
        a, b, m = lin
        return Arr(x.shape, lambda idx: interp_term(e, key, fx(idx), a, b, m, row), dtype="float")

    class _Random:
        def permutation(self, n):
            """D11: a permutation of range(n) chosen by the global generator: entries in range, pairwise distinct"""
            e = cur()
            e.rng_calls.append("permutation")
            uf = z3.Function(e.uniq("rng_perm"), z3.IntSort(), z3.IntSort())
            inv = z3.Function(e.uniq("rng_perm_inv"), z3.IntSort(), z3.IntSort())

            def fn(idx):
                k = to_z3(idx[0])
                e.axiom(z3.Implies(z3.And(k >= 0, k < to_z3(n)), z3.And(uf(k) >= 0, uf(k) < to_z3(n), inv(uf(k)) == k)))
                return Num(uf(k))
            a = Arr((n,), fn, dtype="int")
            a.is_permutation = True
            return a

        def choice(self, n):
            e = cur()
            e.rng_calls.append("choice")
            return e.fresh_int("rng_choice", lo=0, hi=n)

        def seed(self, s):
            return None
    random = _Random()


def _csum(vals):
    r = 0
    for v in vals:
        r = r + v
    return r


_UFS = {}


def UF(name):
    if name not in _UFS:
        _UFS[name] = z3.Function("uf_" + name, z3.RealSort(), z3.RealSort())      # prefix: cvc5 reserves sqrt, exp, sin, ...
    return _UFS[name]


_PI = z3.Real("pi")
_H = z3.Real("half_sqrt2")


class PiNum(Num):
    """the constant pi: 3.1415926 < pi < 3.1415927 (A6)"""


def pi_value():
    cur().axiom(z3.And(_PI > z3.Q(31415926, 10000000), _PI < z3.Q(31415927, 10000000)))
    return Num(_PI)


def is_quarter_pi(x):
    """syntactic: x is pi/4 or 0.25*pi"""
    if isinstance(x, Num):
        t = z3.simplify(x.t)
        a = z3.simplify(_PI / 4)
        b = z3.simplify(z3.Q(1, 4) * _PI)
        return t.eq(a) or t.eq(b)
    return False


def HALF_SQRT2():
    """cos(pi/4) = sin(pi/4) = h with h > 0 and h*h = 1/2 (A6)"""
    cur().axiom(z3.And(_H > 0, _H * _H == z3.Q(1, 2)))
    return Num(_H)


class _NPWrap(_NP):
    @property
    def pi(self):
        return pi_value()


NP = _NPWrap()


# ============================================================================= attribute models
def getattr_model(eng, obj, name):
    """attributes / methods of python builtin values that need symbolic-aware behaviour"""
    if isinstance(obj, list):
        if name == "append":
            return lambda v: obj.append(v)
        if name == "extend":
            return lambda v: obj.extend(list(eng.as_iterable(v)))
        if name == "pop":
            def pop(i=-1):
                i = conc_of(i) if isinstance(i, Num) else i
                if i is None:
                    raise Unsupported("list.pop at symbolic index")
                try:
                    return obj.pop(i)
                except IndexError:
                    eng.py_raise("IndexError", "pop from empty list")
            return pop
        if name == "insert":
            def insert(i, v):
                i = conc_of(i) if isinstance(i, Num) else i
                if i is None:
                    raise Unsupported("list.insert at symbolic index")
                obj.insert(i, v)
            return insert
        if name == "copy":
            return lambda: list(obj)
        if name == "index":
            raise Unsupported("list.index")
    if isinstance(obj, AppendList):
        if name == "append":
            return obj.append
    if isinstance(obj, dict):
        if name == "get":
            return lambda k, d=None: obj.get(k, d)
        if name == "keys":
            return lambda: list(obj.keys())
        if name == "values":
            return lambda: list(obj.values())
        if name == "items":
            return lambda: list(obj.items())
    if isinstance(obj, Num) or is_conc_num(obj):
        if name == "dtype":
            return A.DType("int" if V.is_int_sorted(obj) else "float")
        if name == "real":
            return obj
        if name == "astype":
            return lambda dt, copy=True: (to_int_trunc(obj) if A.dtype_kind(dt) == "int" else as_float(obj))
        if name == "item":
            return lambda: obj
    return MISSING


# ============================================================================= imports
class _Warnings:
    def warn(self, msg, *a, **k):
        cur().warnings.append(msg if isinstance(msg, str) else "<warning>")

    def simplefilter(self, *a, **k):
        return None


class _Itertools:
    def zip_longest(self, a, b, fillvalue=None):
        e = cur()
        la, lb = _list(a), _list(b)
        if isinstance(la, SymSeq) or isinstance(lb, SymSeq):
            raise Unsupported("zip_longest over symbolic sequences")
        import itertools
        return list(itertools.zip_longest(la, lb, fillvalue=fillvalue))

    class chain:
        @staticmethod
        def from_iterable(x):
            e = cur()
            out = []
            for s in e.as_iterable(x):
                t = e.as_iterable(s)
                if isinstance(t, SymSeq) and not isinstance(t.n, int):
                    raise Unsupported("chain over symbolic sequence")
                out.extend(list(t))
            return out
    _concrete_from_iterable = chain.from_iterable

    @staticmethod
    def _from_iterable(x):
        e = cur()
        outer = e.as_iterable(x)
        if isinstance(outer, SymSeq) and not isinstance(outer.n, int):
            return FlatSeq(outer)
        return _Itertools._concrete_from_iterable(x)
    chain.from_iterable = _from_iterable

    def product(self, *a):
        import itertools
        return list(itertools.product(*[list(cur().as_iterable(x)) for x in a]))


class _Operator:
    def itemgetter(self, i):
        def g(x):
            return cur().getitem(x, i)
        g.item = i
        return g

    def attrgetter(self, name):
        def g(x):
            return cur().getattr(x, name)
        g.attr = name
        return g


class _Copy:
    def deepcopy(self, x):
        return deep_copy(x)

    def copy(self, x):
        if isinstance(x, Arr):
            return A.fresh_copy(x)
        if isinstance(x, list):
            return list(x)
        return x


def deep_copy(x):
    """D24"""
    if isinstance(x, Arr):
        return A.fresh_copy(x)
    if isinstance(x, list):
        return [deep_copy(v) for v in x]
    if isinstance(x, tuple):
        return tuple(deep_copy(v) for v in x)
    if isinstance(x, dict):
        return {k: deep_copy(v) for k, v in x.items()}
    if isinstance(x, SymSeq):
        g = x._get
        return SymSeq(x.n, lambda k: deep_copy(g(k)))
    return x


class _Math:
    pi = property(lambda self: pi_value())
    inf = math.inf

    def sqrt(self, x):
        return NP.sqrt(x)

    def log(self, x):
        return NP.log(x)

    def ceil(self, x):
        return to_int_trunc(num_ceil(x))

    def floor(self, x):
        return to_int_trunc(num_floor(x))


def m_erfc(x):
    """D8: erfc uninterpreted; range (0,2), erfc(0)=1, strictly decreasing facts are added only by C13's lemmas"""
    return NP._uf1("erfc", x, math.erfc)


def m_bisect_left(seq, x):
    """D2: bisect_left(range(n), x) == x for 0 <= x <= n"""
    if isinstance(seq, (range,)):
        import bisect
        if isinstance(x, int):
            return bisect.bisect_left(seq, x)
    if isinstance(seq, SymSeq) and getattr(seq, "kind", "") == "range" or isinstance(seq, range):
        n = seq.n if isinstance(seq, SymSeq) else len(seq)
        lo = getattr(seq, "lo", 0) if isinstance(seq, SymSeq) else seq.start
        if not (isinstance(lo, int) and lo == 0):
            raise Unsupported("bisect_left on shifted range")
        # position of x in [0..n): clamp
        return ite(lift(x) <= 0, 0, ite(lift(x) >= n, n, x))
    raise Unsupported("bisect_left on %s" % type(seq).__name__)


class HKResult:
    """contract D3 for HopcroftKarp(graph).maximum_matching() on the bipartite graph  left "i" (string keys) - right j (ints):
    a maximum matching as a two-way dict (len == 2 * size).  size == n  iff  a perfect matching exists.
    When perfect: mate(i) in graph["i"], mate injective (hence bijective on [0,n))."""

    def __init__(self, eng, graph, n):
        self.eng = eng
        self.n = n
        self.graph = graph
        self.size = eng.fresh_int("hk_size", lo=0)
        eng.axiom(self.size.t <= to_z3(n))
        self.mate = z3.Function(eng.uniq("hk_mate"), z3.IntSort(), z3.IntSort())
        self.inv = z3.Function(eng.uniq("hk_inv"), z3.IntSort(), z3.IntSort())
        self.perfect = mkbool(self.size.t == to_z3(n))

    def length(self):
        return 2 * self.size

    def load(self, key):
        from .engine import FmtKey
        e = self.eng
        if not isinstance(key, FmtKey):
            raise Unsupported("matching lookup by non-string key")
        i = key.i
        it = to_z3(i)
        # only used when the matching is perfect (every left vertex matched)
        if not e.must(zb(self.perfect)):
            if not e.branch(zb(self.perfect)):
                e.py_raise("KeyError", "unmatched vertex")
        j = self.mate(it)
        inb = z3.And(it >= 0, it < to_z3(self.n))
        e.axiom(z3.Implies(inb, z3.And(j >= 0, j < to_z3(self.n), self.inv(j) == it)))
        mem = e.under(inb, lambda: zb(self.graph.load(key).mem(Num(j))))
        e.axiom(z3.Implies(inb, mem))
        return Num(j)

    def preimage(self, j):
        """left vertex matched to right vertex j (perfect matching: bijection)"""
        jt = to_z3(j)
        i = self.inv(jt)
        inb = z3.And(jt >= 0, jt < to_z3(self.n))
        self.eng.axiom(z3.Implies(z3.And(inb, zb(self.perfect)), z3.And(i >= 0, i < to_z3(self.n), self.mate(i) == jt)))
        return Num(i)


class HopcroftKarpModel:
    def __init__(self, graph):
        self.graph = graph

    def maximum_matching(self):
        e = cur()
        hook = e.ghost.get("hk_hook")
        if hook is None:
            raise Unsupported("HopcroftKarp outside a contract that states which graph it is given")
        return hook(e, self.graph)


def m_pairwise_distances(X, Y=None, metric="euclidean", **kw):
    """D5: sklearn.metrics.pairwise.pairwise_distances(X, Y) = Euclidean distances over *all* columns"""
    if metric != "euclidean":
        raise Unsupported("pairwise_distances metric")
    if Y is None:
        Y = X
    w = X.shape[1]
    if not isinstance(w, int) or not A.same_dim(w, Y.shape[1]):
        raise Unsupported("pairwise_distances with symbolic / unequal number of columns")
    fx, fy = X.snapshot_fn(), Y.snapshot_fn()

    def fn(idx):
        s2 = 0
        for c in range(w):
            dlt = fx((idx[0], c)) - fy((idx[1], c))
            s2 = s2 + dlt * dlt
        return NP.sqrt(s2)
    return Arr((X.shape[0], Y.shape[0]), fn, dtype="float")


class _Pairwise:
    pairwise_distances = staticmethod(m_pairwise_distances)


class _Metrics:
    pairwise = _Pairwise()
    pairwise_distances = staticmethod(m_pairwise_distances)


def m_linear_sum_assignment(C):
    """D4: scipy.optimize.linear_sum_assignment on a square cost matrix with a finite perfect matching:
    returns (arange(n), col) with col a permutation of [0,n) minimising sum_i C[i, col[i]].
    The minimum itself is the opaque constant MINSUM(C) (min over all permutations - L-level meaning)."""
    e = cur()
    n = C.shape[0]
    if not A.same_dim(n, C.shape[1]):
        raise Unsupported("linear_sum_assignment on a non-square matrix")
    perm = z3.Function(e.uniq("lsa_col"), z3.IntSort(), z3.IntSort())
    inv = z3.Function(e.uniq("lsa_inv"), z3.IntSort(), z3.IntSort())
    f = C.snapshot_fn()

    def col(idx):
        k = to_z3(idx[0])
        j = perm(k)
        e.axiom(z3.Implies(z3.And(k >= 0, k < to_z3(n)), z3.And(j >= 0, j < to_z3(n), inv(j) == k)))
        return Num(j)
    rows = Arr((n,), lambda idx: idx[0], dtype="int")
    cols = Arr((n,), col, dtype="int")
    cols.perm, cols.inv_perm = perm, inv
    # the assignment's total cost is the optimum and every chosen entry is finite
    tot = e_sum(e, n, lambda k: f((k, col((k,)))), name="LSAcost")
    minsum = e.fresh_real("MINSUM")
    e.axiom(to_z3(lift(tot)) == minsum.t)
    e.ghost["lsa"] = {"perm": perm, "inv": inv, "minsum": minsum, "n": n, "C": C}
    return (rows, cols)


class _Optimize:
    linear_sum_assignment = staticmethod(m_linear_sum_assignment)


class _Delayed:
    def __init__(self, f):
        self.f = f

    def __call__(self, *a, **k):
        return ("delayed", self.f, a, k)


class _Parallel:
    """D17: joblib.Parallel(n_jobs)(delayed(f)(*a, **k) for ...) == [f(*a, **k) for ...], in order"""

    def __init__(self, n_jobs=None, **kw):
        self.n_jobs = n_jobs

    def __call__(self, tasks):
        e = cur()
        out = []
        for t in e.as_iterable(tasks):
            if not (isinstance(t, tuple) and len(t) == 4 and t[0] == "delayed"):
                raise Unsupported("Parallel over non-delayed items")
            out.append(e.call(t[1], list(t[2]), dict(t[3])))
        return out


class Recorder:
    """abstract matplotlib Axes / pyplot: an ordered log of drawing calls (ghost state for C20).
    `plot([x0, x1], [y0, y1], ...)` is logged as [x0, x1, y0, y1, style] with style = 1 for the emphasised style
    (solid / width 2 / 'C3'), 0 otherwise; every other method is logged by name in `other`."""

    def __init__(self, name):
        self.name = name
        self.plots = AppendList(0, lambda k: [0, 0, 0, 0, 0])
        self.other = []

    def __getattr__(self, m):
        if m.startswith("__"):
            raise AttributeError(m)

        def call(*a, **k):
            if m == "plot" and len(a) >= 2 and isinstance(a[0], (list, tuple)) and len(a[0]) == 2:
                strong = k.get("linestyle") == "-" or k.get("linewidth") == 2 or "C3" in [x for x in a[2:] if isinstance(x, str)] or k.get("c") == "C3"
                self.plots.append([a[0][0], a[0][1], a[1][0], a[1][1], 1 if strong else 0])
                return None
            if m == "gca":
                return cur().ghost.setdefault("gca_axes", Recorder("gca"))
            self.other.append((m, a, k))
            return None
        return call


class PltProxy:
    """`matplotlib.pyplot` as seen by interpreted code: one Recorder per path"""

    def __getattr__(self, m):
        if m.startswith("__"):
            raise AttributeError(m)
        return getattr(cur().ghost.setdefault("plt_rec", Recorder("plt")), m)


class NeedsGhost:
    """a library routine whose dependency contract is supplied by the contract module through the ghost state / hooks table"""

    def __init__(self, name):
        self.name = name

    def __call__(self, *a, **k):
        hooks = cur().contracts.get("__hooks", {})
        if self.name not in hooks:
            raise Unsupported("%s: no dependency contract installed" % self.name)
        return hooks[self.name](*a, **k)


class Opaque:
    """stand-in for a library object we never call into during interpretation"""

    def __init__(self, name):
        self.name = name

    def __getattr__(self, n):
        if n.startswith("__"):
            raise AttributeError(n)
        return Opaque(self.name + "." + n)

    def __call__(self, *a, **k):
        raise Unsupported("call into unmodelled library object %s" % self.name)

    def __repr__(self):
        return "<opaque %s>" % self.name


def resolve_import(eng, module, st):
    """-> [(alias, value)] for an Import / ImportFrom statement of a repo module"""
    out = []
    if isinstance(st, ast.Import):
        for a in st.names:
            alias = a.asname or a.name.split(".")[0]
            out.append((alias, _module_model(eng, a.name, module)))
        return out
    modname = st.module or ""
    if st.level:
        # relative import inside persim
        base = module.relpath.rsplit("/", 1)[0]
        for _ in range(st.level - 1):
            base = base.rsplit("/", 1)[0]
        target = base + ("/" + modname.replace(".", "/") if modname else "")
        for a in st.names:
            out.append((a.asname or a.name, LazyRepoName(eng, target, a.name)))
        return out
    for a in st.names:
        alias = a.asname or a.name
        if modname == "persim" or modname.startswith("persim."):
            out.append((alias, LazyRepoName(eng, modname.replace(".", "/"), a.name)))
        else:
            out.append((alias, _from_model(eng, modname, a.name)))
    return out


class LazyRepoName:
    """`from .x import y` - resolved on first use"""

    def __init__(self, eng, target, name):
        self.eng, self.target, self.name = eng, target, name
        self._v = MISSING

    def resolve(self):
        if self._v is MISSING:
            import os
            from .engine import REPO
            p = self.target + ".py"
            if os.path.exists(os.path.join(REPO, p)):
                # name inside module file
                self._v = self.eng.module(p).lookup(self.name)
            elif os.path.exists(os.path.join(REPO, self.target, self.name + ".py")):
                self._v = RepoModuleProxy(self.eng, self.target + "/" + self.name + ".py")
            elif os.path.exists(os.path.join(REPO, self.target, "__init__.py")):
                init = self.eng.module(self.target + "/__init__.py")
                self._v = init.lookup(self.name)
            else:
                raise Unsupported("cannot resolve %s from %s" % (self.name, self.target))
        return self._v


class RepoModuleProxy:
    def __init__(self, eng, relpath):
        self.eng = eng
        self.relpath = relpath

    def __getattr__(self, name):
        if name.startswith("__"):
            raise AttributeError(name)
        return self.eng.module(self.relpath).lookup(name)


def _module_model(eng, name, module):
    if name == "numpy":
        return NP
    if name == "sklearn.metrics" or name == "sklearn":
        return _Metrics()
    if name == "matplotlib.pyplot":
        return PltProxy()
    if name == "scipy.sparse":
        class _Sps:
            def issparse(self, x):
                return False
        return _Sps()
    if name == "warnings":
        return _Warnings()
    if name == "itertools":
        return _Itertools()
    if name == "copy":
        return _Copy()
    if name == "math":
        return _Math()
    if name == "operator":
        return _Operator()
    return Opaque(name)


def _from_model(eng, modname, name):
    full = modname + "." + name
    table = {
        "scipy.special.erfc": m_erfc,
        "scipy.spatial.distance.cityblock": m_cityblock,
        "bisect.bisect_left": m_bisect_left,
        "hopcroftkarp.HopcroftKarp": HopcroftKarpModel,
        "sklearn.metrics": _Metrics(),
        "joblib.Parallel": _Parallel,
        "scipy.sparse.csgraph.shortest_path": NeedsGhost("shortest_path"),
        "scipy.sparse.csgraph.connected_components": NeedsGhost("connected_components"),
        "joblib.delayed": _Delayed,
        "scipy.optimize": _Optimize(),
        "operator.itemgetter": _Operator().itemgetter,
        "operator.attrgetter": _Operator().attrgetter,
        "typing.Iterable": TypeObj("Iterable"),
        "itertools.product": _Itertools().product,
        "abc.ABC": None,
        "abc.abstractmethod": (lambda f: f),
        "__future__.division": None,
    }
    if full in table:
        return table[full]
    return Opaque(full)
