"""Evidence, violation and known-finding plumbing shared by all property checks.

A check builds one Report, feeds it
  * deductive results   (rep.add_obligations(...))   -> coverage.obligations / discharged
  * bounded stand-ins   (rep.bounded(...))            -> coverage.bounded[...]  (never counted as proved)
  * violations          (rep.violation(...))          -> VIOLATION / KNOWN-FINDING lines + replay file
and calls rep.finish() which writes evidence/<id>.json and returns the exit code:
  0  property held on everything explored (KNOWN-FINDING lines allowed)
  1  at least one violation that known_findings.json does not list
  3  checker crash / vacuous run (never printed as a violation)
"""
import hashlib
import json
import os
import sys
import time
import traceback

ROOT = os.path.dirname(os.path.dirname(os.path.abspath(__file__)))
KNOWN = os.path.join(ROOT, "known_findings.json")
# where evidence/ and replay/ are written: /verif itself, unless a regression harness redirects a scratch run elsewhere
OUT = os.environ.get("VERIF_OUT") or ROOT


def _jsonable(x):
    try:
        json.dumps(x)
        return x
    except TypeError:
        pass
    if isinstance(x, dict):
        return {str(k): _jsonable(v) for k, v in x.items()}
    if isinstance(x, (list, tuple, set)):
        return [_jsonable(v) for v in x]
    try:
        import numpy as np
        if isinstance(x, np.ndarray):
            return _jsonable(x.tolist())
        if isinstance(x, np.generic):
            return _jsonable(x.item())
    except Exception:
        pass
    if isinstance(x, float):
        return repr(x)
    return repr(x)


def load_known():
    if not os.path.exists(KNOWN):
        return []
    with open(KNOWN) as f:
        return json.load(f).get("findings", [])


class Report:
    def __init__(self, pid, tier, seed, level, checker_cmd):
        self.pid = pid
        self.tier = tier
        self.seed = seed
        self.level = level              # level claimed when every obligation is discharged
        self.t0 = time.time()
        self.checker_cmd = checker_cmd
        self.obligations = []           # dicts: name,status,backend,time_s,cls,tags,func
        self.functions = {}             # qualname -> {"file":..., "obligations":n, "discharged":n, "paths":n}
        self.bounded_items = []
        self.assumptions = []
        self.trusted = []
        self.dropped = []
        self.undecided = []
        self.samples = []
        self.violations = []            # unlisted
        self.known_seen = []
        self.notes = []
        self.known = [k for k in load_known() if k.get("property") == pid]
        self._printed = set()

    # ------------------------------------------------------------------ deductive
    def add_function(self, qualname, file, paths, dropped=()):
        self.functions.setdefault(qualname, {"file": file, "paths": 0, "obligations": 0, "discharged": 0})
        self.functions[qualname]["paths"] += paths
        for d in dropped:
            if d not in self.dropped:
                self.dropped.append(d)

    def add_obligation(self, name, status, backend="z3", time_s=0.0, cls="P", func=None, detail=None):
        """status: discharged | refuted | undecided"""
        rec = {"name": name, "status": status, "backend": backend, "time_s": round(time_s, 4), "cls": cls}
        if func:
            rec["func"] = func
            f = self.functions.setdefault(func, {"file": "?", "paths": 0, "obligations": 0, "discharged": 0})
            f["obligations"] += 1
            if status == "discharged":
                f["discharged"] += 1
        if detail:
            rec["detail"] = detail
        self.obligations.append(rec)
        if status == "undecided":
            self.undecided.append({"name": name, "reason": detail or ""})

    def sample(self, s):
        if len(self.samples) < 8:
            self.samples.append(_jsonable(s))

    # ------------------------------------------------------------------ bounded stand-ins
    def bounded(self, name, bound, evaluations, distinct_nontrivial, rule, samples=(), exhaustive=False, extra=None):
        item = {
            "name": name, "label": "bounded", "bound": bound, "evaluations": int(evaluations),
            "distinct_nontrivial": int(distinct_nontrivial), "rule": rule,
            "samples": _jsonable(list(samples)[:3]), "exhaustive": bool(exhaustive),
        }
        if extra:
            item.update(_jsonable(extra))
        self.bounded_items.append(item)

    def assume(self, *texts):
        for t in texts:
            if t not in self.assumptions:
                self.assumptions.append(t)

    def trust(self, *texts):
        for t in texts:
            if t not in self.trusted:
                self.trusted.append(t)

    def note(self, t):
        self.notes.append(t)

    # ------------------------------------------------------------------ violations
    def violation(self, what, signature, payload, obligation=None, failing_input_found=True):
        """Report one violation.  `signature` identifies *which* failure this is (stable across
        runs); a known finding suppresses only violations whose signature it lists."""
        for k in self.known:
            if k.get("status") == "known" and signature in k.get("signatures", []):
                key = ("K", k["id"])
                if key not in self._printed:
                    self._printed.add(key)
                    print("KNOWN-FINDING: property=%s %s" % (self.pid, k["what"]), file=sys.__stdout__)
                    self.known_seen.append({"id": k["id"], "signature": signature})
                return False
        key = ("V", signature)
        path = self._write_replay(what, signature, payload, obligation, failing_input_found)
        if key not in self._printed:
            self._printed.add(key)
            tail = "" if failing_input_found else " no-failing-input-found"
            out = sys.__stdout__       # checks may silence the library's own prints; verdict lines always reach the real stdout
            print("VIOLATION property=%s replay=%s%s" % (self.pid, path, tail), file=out)
            print("  what: %s" % what, file=out)
            if obligation:
                print("  obligation: %s" % obligation, file=out)
        self.violations.append({"what": what, "signature": signature, "obligation": obligation,
                                "replay": path, "failing_input_found": failing_input_found})
        sys.__stdout__.flush()
        return True

    def _write_replay(self, what, signature, payload, obligation, found):
        os.makedirs(os.path.join(OUT, "replay"), exist_ok=True)
        h = hashlib.sha1((self.pid + signature).encode()).hexdigest()[:10]
        path = os.path.join(OUT, "replay", "%s_%s.json" % (self.pid, h))
        doc = {"property": self.pid, "what": what, "signature": signature, "obligation": obligation,
               "failing_input_found": found, "payload": _jsonable(payload),
               "replay_cmd": "./check %s --replay %s" % (self.pid, os.path.relpath(path, OUT))}
        with open(path, "w") as f:
            json.dump(doc, f, indent=1)
        return os.path.relpath(path, OUT)

    # ------------------------------------------------------------------ finish
    def finish(self, crash=None):
        n_ob = len(self.obligations)
        n_dis = sum(1 for o in self.obligations if o["status"] == "discharged")
        by_backend = {}
        solver_time = 0.0
        for o in self.obligations:
            by_backend[o["backend"]] = by_backend.get(o["backend"], 0) + 1
            solver_time += o["time_s"]
        level = self.level
        if level == "proof" and (n_ob == 0 or n_dis != n_ob):
            level = "other"        # drift / undecided: downgrade for this run (DESIGN 2.2)
        ev_total = sum(b["evaluations"] for b in self.bounded_items)
        dn_total = sum(b["distinct_nontrivial"] for b in self.bounded_items)
        expl = []
        if n_ob:
            expl.append("%d/%d deductive obligations discharged over %d functions under contract (re-read from /repo on this run)"
                        % (n_dis, n_ob, len(self.functions)))
        if self.bounded_items:
            expl.append("bounded stand-ins (never counted as proved): " +
                        "; ".join("%s [%s] %d evals" % (b["name"], b["bound"], b["evaluations"]) for b in self.bounded_items))
        if self.undecided:
            expl.append("%d obligations undecided (see undecided)" % len(self.undecided))
        if crash:
            expl.append("CHECKER CRASH: " + crash.splitlines()[-1])
        coverage = {
            "obligations": n_ob,
            "discharged": n_dis,
            "checker_cmd": self.checker_cmd,
            "trusted_base": self.trusted,
            "explanation": " | ".join(expl) if expl else "nothing explored",
            "evaluations": max(ev_total, n_ob),
            "distinct_nontrivial": max(dn_total, n_dis),
            "rule": "obligations: one per (function, contract clause, path); bounded items carry their own rule",
            "samples": (self.samples or [o["name"] for o in self.obligations[:5]] or ["none"]),
            "functions_under_contract": self.functions,
            "by_backend": by_backend,
            "solver_time_s": round(solver_time, 3),
            "undecided": self.undecided[:50],
            "refuted": [o for o in self.obligations if o["status"] == "refuted"][:50],
            "dropped_statements": self.dropped,
            "bounded": self.bounded_items,
            "known_findings_seen": self.known_seen,
            "violations": self.violations,
            "notes": self.notes,
            "obligation_names": [o["name"] + ":" + o["status"] for o in self.obligations][:400],
        }
        doc = {
            "property_id": self.pid, "tier": self.tier, "seed": int(self.seed), "level": level,
            "coverage": coverage, "assumptions": self.assumptions,
            "wall_s": round(time.time() - self.t0, 2), "violations": len(self.violations),
        }
        os.makedirs(os.path.join(OUT, "evidence"), exist_ok=True)
        with open(os.path.join(OUT, "evidence", "%s.json" % self.pid), "w") as f:
            json.dump(_jsonable(doc), f, indent=1)
        if self.violations:
            return 1          # violation lines already printed are valid even if a later stage of the check crashed
        if crash:
            return 3
        if n_ob == 0 and not self.bounded_items:
            print("VACUOUS: property %s generated no obligations and no bounded evaluations" % self.pid)
            return 3
        print("OK property=%s tier=%s level=%s obligations=%d discharged=%d undecided=%d bounded_evals=%d known=%d wall=%.1fs"
              % (self.pid, self.tier, level, n_ob, n_dis, len(self.undecided), ev_total, len(self.known_seen), doc["wall_s"]))
        return 0
