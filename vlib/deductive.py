"""glue between the VC engine and the Report: run contracts, aggregate, turn refuted obligations into
violations according to DESIGN 2.4 (P-obligations: reported, with or without a replayed failing input;
S-obligations: proof scaffolding - undecided unless a failing input replays)."""
import re
from fractions import Fraction

from pyvc.run import feed_report, verify_all

GEN_ASSUMPTIONS = [
    "A1 floats are mathematical reals (+ tagged infinities); NaN-producing operations are definedness obligations",
    "A2 python int is Z and NumPy integer ARITHMETIC is taken in Z as well (int8..int64 wrap-around of +,-,* is not modelled); only casts to a sized integer type (astype(np.int8..int64)) carry a no-wrap obligation; A3 int()/ceil/floordiv semantics; A4 evaluation order / effects as modelled; A5 NumPy view/copy classification",
    "A6 transcendental functions uninterpreted except the axioms named in the contract",
    "A7 the VC generator (/verif/pyvc), its library models (pyvc/models.py) and the sidecar contracts are trusted as written",
]


def parse_num(s):
    """z3 model value string -> Fraction (None if not a plain numeral)"""
    if s is None:
        return None
    s = s.strip()
    m = re.fullmatch(r"\(?\s*(-)?\s*\(?\s*(-?\d+(?:\.\d+)?)\s*(?:/\s*(\d+(?:\.\d+)?))?\s*\)?\s*\)?\??", s)
    try:
        if s.endswith("?"):
            s = s[:-1]
        if "/" in s:
            a, b = s.split("/")
            return Fraction(a.strip().strip("()")) / Fraction(b.strip().strip("()"))
        return Fraction(s)
    except Exception:
        m2 = re.fullmatch(r"\(- (.+)\)", s)
        if m2:
            v = parse_num(m2.group(1))
            return None if v is None else -v
        return None


def probes_of(model):
    out = {}
    for k, v in (model or {}).items():
        if k.startswith("probe!"):
            if v in ("True", "False"):
                out[k[6:]] = (v == "True")
            else:
                out[k[6:]] = parse_num(v)
    return out


def run_contracts(rep, contracts, table=None, tier="quick", replayers=None, pid=None, budget_s=None, solve_budget_s=None,
                  max_paths=400, only=None):
    """replayers: list of (regex on obligation label, fn(agg_entry) -> (found, payload, signature or None, what))
    only: regex; obligations whose label does not match belong to another property's ledger - a refutation of one of them is
    neither a violation nor an undecided item of THIS property (the caller drops them from the ledger as well)"""
    opts = dict(timeout_ms=10000, budget_s=budget_s or (240 if tier == "quick" else 1800),
                solve_budget_s=solve_budget_s or (20 if tier == "quick" else 90), max_paths=max_paths)
    results = verify_all(contracts, table or {}, **opts)
    agg = feed_report(rep, results, pid=pid)
    rep.assume(*GEN_ASSUMPTIONS)
    rep.trust("z3 5.1 (python API + nlsat), cvc5 1.0.3 CLI as second back end", "pyvc VC generator + pyvc/models.py library models",
              "sidecar contracts under /verif/contracts")
    for a in agg:
        if a["status"] != "refuted":
            continue
        label = a["label"]
        if only and not re.search(only, label):
            continue
        found, payload, sig, what = False, {"models": a["models"][:2]}, None, None
        for rx, fn in (replayers or []):
            if re.search(rx, label):
                try:
                    found, payload2, sig, what = fn(a)
                    payload = dict(payload, **(payload2 or {}))
                except Exception as ex:     # a replay helper must never turn into an alarm by itself
                    rep.note("replay helper failed for %s: %r" % (label, ex))
                break
        if a["cls"] == "P" or found:
            rep.violation(what or ("obligation refuted: %s" % label), sig or ("ob:" + label), payload, obligation=label,
                          failing_input_found=found)
        else:
            # scaffolding broke, no reproducible failing input: undecided, not a violation
            for o in rep.obligations:
                if o["name"] == label and o["status"] == "refuted":
                    o["status"] = "undecided"
                    o["detail"] = "S-class obligation refuted without a replayable input: proof broke, property undecided"
            rep.undecided.append({"name": label, "reason": "S-class refuted (proof scaffolding)"})
    return results, agg


def purity_probe(rep, name, calls, signature):
    """run-time companion of the frame obligations: `calls` is a list of (description, thunk, arrays); each thunk calls the real
    function on the given float64 arrays, which must be byte-identical afterwards.  Returns the number of evaluations."""
    import numpy as np
    n = 0
    for desc, thunk, arrays in calls:
        before = [a.tobytes() for a in arrays]
        shapes = [(a.shape, a.dtype.str) for a in arrays]
        try:
            thunk()
        except Exception as ex:      # the call itself failing is reported by the value checks of the property, not here
            continue
        n += 1
        if any(a.tobytes() != b or (a.shape, a.dtype.str) != s for a, b, s in zip(arrays, before, shapes)):
            rep.violation("%s wrote into an array passed to it (%s): the caller's data differ after the call" % (name, desc), signature,
                          {"input": {"call": desc, "arrays_before": [np.frombuffer(b, dtype=a.dtype).reshape(s[0]).tolist() for a, b, s in zip(arrays, before, shapes)],
                                     "arrays_after": [a.tolist() for a in arrays]}})
            break
    return n
