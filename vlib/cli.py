import argparse
import importlib
import json
import os
import sys
import traceback

ROOT = os.path.dirname(os.path.dirname(os.path.abspath(__file__)))
sys.path.insert(0, ROOT)


class Watchdog(BaseException):
    """raised by the wall-clock watchdog; `lib_frame` is the innermost frame of the library under test that was executing (None when
    the checker's own code was running)"""

    def __init__(self, seconds, lib_frame, caller):
        BaseException.__init__(self, "no result within %d s" % seconds)
        self.seconds, self.lib_frame, self.caller = seconds, lib_frame, caller


def _arm_watchdog(tier):
    """a changed library may loop forever inside a call made by a stand-in: the check must still terminate with a verdict"""
    import signal
    secs = _watchdog_seconds(tier)
    repo = os.path.realpath(os.environ.get("VERIF_REPO", "/repo"))

    def handler(signum, frame):
        st = traceback.extract_stack(frame)
        last_checker = max([i for i, f in enumerate(st) if os.path.realpath(f.filename).startswith(ROOT + os.sep)] or [-1])
        lib = [f for f in st[last_checker + 1:] if os.path.realpath(f.filename).startswith(repo + os.sep)]
        signal.alarm(15)        # fire again should a bare `except:` on the way up swallow this one
        raise Watchdog(secs, lib[-1] if lib else None, st[last_checker] if last_checker >= 0 else None)
    try:
        signal.signal(signal.SIGALRM, handler)
        signal.alarm(secs)
    except (ValueError, OSError):
        pass


def _hang_verdict(a, tier, hangfile, secs):
    """the inner run was ended by faulthandler's watchdog thread (it fires even while the main thread sits in a C call that never
    returns and holds the GIL): read the dumped stack of the main thread and decide whose code was running"""
    import re
    text = open(hangfile).read()
    os.unlink(hangfile)
    if os.environ.get("VERIF_DEBUG_HANG"):
        sys.stderr.write(text)
    blocks = re.split(r"\n(?=(?:Current thread|Thread) 0x)", "\n" + text)
    repo = os.path.realpath(os.environ.get("VERIF_REPO", "/repo"))
    lib, frames, first_checker, block = [], [], 0, text
    for b in blocks:
        if "vlib/cli.py" not in b:
            continue                                                              # another thread, or a snapshot cut short
        fr = re.findall(r'File "([^"]+)", line (\d+) in (\S+)', b)                # most recent call first
        fc = next((i for i, f in enumerate(fr) if os.path.realpath(f[0]).startswith(ROOT + os.sep) and "/.venv/" not in f[0]), len(fr))
        lb = [f for f in fr[:fc] if os.path.realpath(f[0]).startswith(repo + os.sep)]
        if lb or not frames:
            lib, frames, first_checker, block = lb, fr, fc, b
        if lb:
            break
    mod = importlib.import_module("props." + a.pid)
    from vlib.report import Report
    rep = Report(a.pid, tier, a.seed, mod.LEVEL, "./check %s --tier %s" % (a.pid, tier))
    if lib:
        lf = lib[0]
        cf = frames[first_checker] if first_checker < len(frames) else None
        rep.violation("the library had not returned after %d s: executing %s:%s (%s), called from the check at %s" % (
            secs, os.path.relpath(lf[0], repo), lf[1], lf[2], ("%s:%s" % (os.path.relpath(cf[0], ROOT), cf[1])) if cf else "?"),
            "hang:%s" % lf[2], {"stack": block[-3000:]}, failing_input_found=False)
        return rep.finish(crash=None)
    print("CHECKER-CRASH property=%s (watchdog: the checker's own code exceeded %d s; not a violation)" % (a.pid, secs))
    return rep.finish(crash="watchdog after %d s in checker code\n%s" % (secs, block[-1500:]))


def _supervise(a, tier):
    """run the check proper in a child process; if it has not finished `watchdog + 60` s later (the in-process SIGALRM watchdog cannot
    fire while the main thread sits in a C call that never returns), ask it for stack dumps through faulthandler's C-level signal
    handler, end it together with its workers, and turn the dumps into a verdict"""
    import signal
    import subprocess
    import time
    hang = os.path.join(ROOT, ".work", "hang_%d.txt" % os.getpid())
    env = dict(os.environ, VERIF_INNER="1", VERIF_HANGFILE=hang)
    def _child_setup():
        os.setsid()
        try:                                    # Linux: the child is killed when this supervisor dies (e.g. an outer `timeout -s KILL`)
            import ctypes
            ctypes.CDLL("libc.so.6", use_errno=True).prctl(1, 9)
        except Exception:
            pass
    p = subprocess.Popen([sys.executable, "-m", "vlib.cli"] + sys.argv[1:], env=env, cwd=ROOT, preexec_fn=_child_setup)

    def _forward(signum, frame):                # an outer SIGTERM / SIGINT ends the child and its workers as well
        try:
            os.killpg(p.pid, signal.SIGKILL)
        except OSError:
            pass
        sys.exit(128 + signum)
    for sg in (signal.SIGTERM, signal.SIGINT, signal.SIGHUP):
        try:
            signal.signal(sg, _forward)
        except (ValueError, OSError):
            pass
    secs = _watchdog_seconds(tier) + 60
    try:
        rc = p.wait(timeout=secs)
    except subprocess.TimeoutExpired:
        for _ in range(4):                      # several snapshots: a dump taken while frames change may be cut short
            try:
                os.kill(p.pid, signal.SIGUSR1)
            except OSError:
                break
            time.sleep(0.7)
        try:
            os.killpg(p.pid, signal.SIGKILL)
        except OSError:
            pass
        p.wait()
        if os.path.exists(hang) and os.path.getsize(hang) > 0:
            return _hang_verdict(a, tier, hang, secs)
        print("CHECKER-CRASH property=%s (watchdog: no result within %d s and no stack dump; not a violation)" % (a.pid, secs))
        return 3
    if os.path.exists(hang):
        os.unlink(hang)
    return rc


def _watchdog_seconds(tier):
    return int(os.environ.get("VERIF_WATCHDOG_S", "0") or 0) or (1500 if tier == "quick" else 6 * 3600)


def main():
    ap = argparse.ArgumentParser()
    ap.add_argument("pid")
    ap.add_argument("--tier", default=os.environ.get("VERIF_TIER", "quick"))
    ap.add_argument("--replay", default=None)
    ap.add_argument("--seed", type=int, default=int(os.environ.get("VERIF_SEED", "0") or 0))
    a = ap.parse_args()
    os.chdir(ROOT)
    os.makedirs(".work", exist_ok=True)
    mod = importlib.import_module("props." + a.pid)
    if a.replay:
        with open(a.replay) as f:
            doc = json.load(f)
        sys.exit(mod.replay(doc))
    tier = a.tier if a.tier in ("quick", "thorough") else "quick"
    if os.environ.get("VERIF_INNER") != "1":
        sys.exit(_supervise(a, tier))
    hangfile = os.environ.get("VERIF_HANGFILE")
    if hangfile:
        import faulthandler
        import signal as _signal
        _hf = open(hangfile, "w")
        faulthandler.register(_signal.SIGUSR1, file=_hf, all_threads=True)
    from vlib.report import Report
    rep = Report(a.pid, tier, a.seed, mod.LEVEL, "./check %s --tier %s" % (a.pid, tier))
    _arm_watchdog(tier)
    try:
        mod.run(rep, tier, a.seed)
        code = rep.finish()
    except Watchdog as ex:
        import signal
        signal.alarm(0)
        if ex.lib_frame is not None:
            # the library under test was executing a call made by a stand-in and had not returned: it must return a value there
            lf, cf = ex.lib_frame, ex.caller
            repo = os.path.realpath(os.environ.get("VERIF_REPO", "/repo"))
            rep.violation("the library had not returned after %d s: executing %s:%d (%s), called from the check at %s" % (
                ex.seconds, os.path.relpath(lf.filename, repo), lf.lineno, lf.name, ("%s:%d" % (os.path.relpath(cf.filename, ROOT), cf.lineno)) if cf else "?"),
                "hang:%s" % lf.name, {"stack": "".join(traceback.format_tb(ex.__traceback__))[-3000:]}, failing_input_found=False)
            code = rep.finish(crash=None)
        else:
            print("CHECKER-CRASH property=%s (watchdog: the checker's own code exceeded %d s; not a violation)" % (a.pid, ex.seconds))
            code = rep.finish(crash="watchdog after %d s in checker code" % ex.seconds)
    except Exception as ex:
        tb = traceback.format_exc()
        sys.stderr.write(tb)
        # an exception raised INSIDE the library under test while a stand-in was calling it with inputs on which the unchanged tree
        # answers: the library now fails where it must return a value - a violation (the input is in the traceback's frame, not recorded);
        # an exception raised by the checker's own code is a checker crash and decides nothing
        frames = traceback.extract_tb(ex.__traceback__)
        repo = os.path.realpath(os.environ.get("VERIF_REPO", "/repo"))
        if frames and os.path.realpath(frames[-1].filename).startswith(repo + os.sep):
            last = frames[-1]
            caller = next((f for f in reversed(frames) if os.path.realpath(f.filename).startswith(ROOT + os.sep)), None)
            rep.violation("the library raised %r at %s:%d (%s) while the check %s was exercising it" % (ex, os.path.relpath(last.filename, repo), last.lineno, last.name,
                                                                                                       ("at %s:%d" % (os.path.relpath(caller.filename, ROOT), caller.lineno)) if caller else ""),
                          "exception:%s:%s" % (type(ex).__name__, last.name), {"traceback": tb[-3000:]}, failing_input_found=False)
            code = rep.finish(crash=None)
        else:
            print("CHECKER-CRASH property=%s (not a violation)" % a.pid)
            code = rep.finish(crash=tb)
    sys.exit(code)


if __name__ == "__main__":
    main()
