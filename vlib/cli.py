import argparse
import importlib
import json
import os
import sys
import traceback

ROOT = os.path.dirname(os.path.dirname(os.path.abspath(__file__)))
sys.path.insert(0, ROOT)


def main():
    ap = argparse.ArgumentParser()
    ap.add_argument("pid")
    ap.add_argument("--tier", default=os.environ.get("VERIF_TIER", "quick"))
    ap.add_argument("--replay", default=None)
    ap.add_argument("--seed", type=int, default=int(os.environ.get("VERIF_SEED", "0") or 0))
    a = ap.parse_args()
    os.chdir(ROOT)
    os.makedirs(".work", exist_ok=True)
    mod = importlib.import_module("props." + a.pid)
    if a.replay:
        with open(a.replay) as f:
            doc = json.load(f)
        sys.exit(mod.replay(doc))
    from vlib.report import Report
    tier = a.tier if a.tier in ("quick", "thorough") else "quick"
    rep = Report(a.pid, tier, a.seed, mod.LEVEL, "./check %s --tier %s" % (a.pid, tier))
    try:
        mod.run(rep, tier, a.seed)
        code = rep.finish()
    except Exception:
        tb = traceback.format_exc()
        sys.stderr.write(tb)
        print("CHECKER-CRASH property=%s (not a violation)" % a.pid)
        code = rep.finish(crash=tb)
    sys.exit(code)


if __name__ == "__main__":
    main()
