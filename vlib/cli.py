import argparse
import importlib
import json
import os
import sys
import traceback

ROOT = os.path.dirname(os.path.dirname(os.path.abspath(__file__)))
sys.path.insert(0, ROOT)


def main():
    ap = argparse.ArgumentParser()
    ap.add_argument("pid")
    ap.add_argument("--tier", default=os.environ.get("VERIF_TIER", "quick"))
    ap.add_argument("--replay", default=None)
    ap.add_argument("--seed", type=int, default=int(os.environ.get("VERIF_SEED", "0") or 0))
    a = ap.parse_args()
    os.chdir(ROOT)
    os.makedirs(".work", exist_ok=True)
    mod = importlib.import_module("props." + a.pid)
    if a.replay:
        with open(a.replay) as f:
            doc = json.load(f)
        sys.exit(mod.replay(doc))
    from vlib.report import Report
    tier = a.tier if a.tier in ("quick", "thorough") else "quick"
    rep = Report(a.pid, tier, a.seed, mod.LEVEL, "./check %s --tier %s" % (a.pid, tier))
    try:
        mod.run(rep, tier, a.seed)
        code = rep.finish()
    except Exception as ex:
        tb = traceback.format_exc()
        sys.stderr.write(tb)
        # an exception raised INSIDE the library under test while a stand-in was calling it with inputs on which the unchanged tree
        # answers: the library now fails where it must return a value - a violation (the input is in the traceback's frame, not recorded);
        # an exception raised by the checker's own code is a checker crash and decides nothing
        frames = traceback.extract_tb(ex.__traceback__)
        repo = os.path.realpath(os.environ.get("VERIF_REPO", "/repo"))
        if frames and os.path.realpath(frames[-1].filename).startswith(repo + os.sep):
            last = frames[-1]
            caller = next((f for f in reversed(frames) if os.path.realpath(f.filename).startswith(ROOT + os.sep)), None)
            rep.violation("the library raised %r at %s:%d (%s) while the check %s was exercising it" % (ex, os.path.relpath(last.filename, repo), last.lineno, last.name,
                                                                                                       ("at %s:%d" % (os.path.relpath(caller.filename, ROOT), caller.lineno)) if caller else ""),
                          "exception:%s:%s" % (type(ex).__name__, last.name), {"traceback": tb[-3000:]}, failing_input_found=False)
            code = rep.finish(crash=None)
        else:
            print("CHECKER-CRASH property=%s (not a violation)" % a.pid)
            code = rep.finish(crash=tb)
    sys.exit(code)


if __name__ == "__main__":
    main()
