"""run-time oracle for C10: integral of |f|^p for a piecewise-linear f given by critical pairs"""
import math


def seg_integral(p, x0, y0, x1, y1):
    w = x1 - x0
    if y0 == y1:
        return abs(y0) ** p * w
    if y0 * y1 >= 0 and abs(y1 - y0) <= 1e-6 * max(abs(y0), abs(y1)):
        # nearly flat one-signed segment: the closed form cancels catastrophically; 3-point Gauss-Legendre is
        # exact to O(delta^6) here
        import math as _m
        m, h = (y0 + y1) / 2, (y1 - y0) / 2
        r = _m.sqrt(3.0 / 5.0)
        return w * (5 * abs(m - r * h) ** p + 8 * abs(m) ** p + 5 * abs(m + r * h) ** p) / 18
    G = lambda y: math.copysign(abs(y) ** (p + 1), y) / (p + 1)
    return w / (y1 - y0) * (G(y1) - G(y0))


def seg_float_slack(p, x0, y0, x1, y1):
    """DESIGN 2.6 float rule: 64 ulp of the largest intermediate the closed form handles, i.e. of
    |y|^(p+1) / (|slope| (p+1)); this is what makes nearly flat segments (tiny slope) ill-conditioned"""
    import sys
    if y0 == y1:
        return 64 * sys.float_info.epsilon * abs(y0) ** p * abs(x1 - x0)
    slope = abs((y1 - y0) / (x1 - x0))
    big = max(abs(y0), abs(y1)) ** (p + 1) / (slope * (p + 1))
    return 64 * sys.float_info.epsilon * big * 4


def norm_slack(p, critical_pairs):
    tot = integral_abs_p(p, critical_pairs)
    dT = sum(seg_float_slack(p, float(x0), float(y0), float(x1), float(y1))
             for d in critical_pairs for (x0, y0), (x1, y1) in zip(d, d[1:]))
    if tot <= 0:
        return dT ** (1.0 / p) if dT > 0 else 0.0
    lo = max(tot - dT, 0.0) ** (1.0 / p)
    hi = (tot + dT) ** (1.0 / p)
    return max(hi - tot ** (1.0 / p), tot ** (1.0 / p) - lo)


def integral_abs_p(p, critical_pairs):
    tot = 0.0
    for depth in critical_pairs:
        for (x0, y0), (x1, y1) in zip(depth, depth[1:]):
            tot += seg_integral(p, float(x0), float(y0), float(x1), float(y1))
    return tot


def p_norm(p, critical_pairs):
    return integral_abs_p(p, critical_pairs) ** (1.0 / p)


def quad_norm(p, critical_pairs):
    """independent numeric cross-check of the closed form (scipy quad with breakpoints at zero crossings)"""
    from scipy.integrate import quad
    tot = 0.0
    for depth in critical_pairs:
        for (x0, y0), (x1, y1) in zip(depth, depth[1:]):
            x0, y0, x1, y1 = map(float, (x0, y0, x1, y1))
            f = lambda x: abs(y0 + (y1 - y0) * (x - x0) / (x1 - x0)) ** p
            pts = None
            if y0 * y1 < 0:
                pts = [x0 + (x1 - x0) * (-y0) / (y1 - y0)]
            v, _ = quad(f, x0, x1, points=pts, limit=200)
            tot += v
    return tot ** (1.0 / p)


def sup_norm(critical_pairs):
    return max((abs(float(y)) for d in critical_pairs for _x, y in d), default=0.0)
