"""spec functions for landscapes (DESIGN section 4), symbolic (z3) and numeric"""
import z3


def zmax(a, b):
    return z3.If(a >= b, a, b)


def zmin(a, b):
    return z3.If(a <= b, a, b)


def tent(b, d, t):
    return zmax(z3.RealVal(0), zmin(t - b, d - t))


def sorted_desc(vals):
    """symbolic sorting network (insertion): list of z3 reals -> non-increasing list"""
    out = []
    for v in vals:
        out.append(v)
        i = len(out) - 1
        while i > 0:
            hi, lo = zmax(out[i - 1], out[i]), zmin(out[i - 1], out[i])
            out[i - 1], out[i] = hi, lo
            i -= 1
    return out


def kmax_all(bars, t):
    """[lambda_1(t), ..., lambda_n(t)] for bars = [(b, d)] of z3 reals"""
    return sorted_desc([tent(b, d, t) for b, d in bars])


def pl_matches(cp, F, t):
    """z3 Bool:  the piecewise-linear function through the critical pairs cp = [(x, y)] (0 outside them) agrees with F at t.
    Landscape functions only have slopes -1, 0, +1, so each segment must have one of these slopes (linear encoding)."""
    cl = []
    if not cp:
        return F == 0
    xs = [p[0] for p in cp]
    ys = [p[1] for p in cp]
    cl.append(z3.Implies(z3.Or(t <= xs[0], t >= xs[-1]), F == z3.If(t == xs[0], ys[0], z3.If(t == xs[-1], ys[-1], 0))))
    cl.append(z3.And(ys[0] == 0, ys[-1] == 0))
    for i in range(len(cp) - 1):
        cl.append(xs[i] <= xs[i + 1])
        seg = z3.Or(*[z3.And(ys[i + 1] - ys[i] == s * (xs[i + 1] - xs[i]), F == ys[i] + s * (t - xs[i])) for s in (-1, 0, 1)])
        cl.append(z3.Implies(z3.And(xs[i] <= t, t <= xs[i + 1], xs[i] < xs[i + 1]), seg))
        cl.append(z3.Implies(xs[i] == xs[i + 1], ys[i] == ys[i + 1]))
    return z3.And(*cl)


# ---- numeric
def tent_f(b, d, t):
    return max(0.0, min(t - b, d - t))


def landscape_f(bars, k, t):
    vals = sorted((tent_f(b, d, t) for b, d in bars), reverse=True)
    return vals[k] if k < len(vals) else 0.0


def pl_f(cp, t):
    if not cp or t < cp[0][0] or t > cp[-1][0]:
        return 0.0
    for (x0, y0), (x1, y1) in zip(cp, cp[1:]):
        if x0 <= t <= x1:
            if x1 == x0:
                return float(y1)
            return float(y0) + (float(y1) - float(y0)) * (t - float(x0)) / (float(x1) - float(x0))
    return 0.0


def breakpoints(bars):
    pts = set()
    for b, d in bars:
        pts.update([b, d, (b + d) / 2])
    for b1, d1 in bars:
        for b2, d2 in bars:
            pts.add((b1 + d2) / 2)
    return sorted(pts)
