"""Sigma: finite sums as a recursively defined function (DESIGN section 4).

S(params, 0) = 0 ;  S(params, k+1) = S(params, k) + term(params, k)   for k >= 0
Only *instances* of the defining equations are given to the solver (sound: they are consequences of the
definition); the postcondition speaks about S(params, n), i.e. the mathematical sum of term over [0, n).
"""
import z3

from pyvc.values import Num, lift, to_real, to_z3


class Sigma:
    def __init__(self, eng, name, nparams, term):
        self.eng = eng
        self.term = term
        self.nparams = nparams
        self.uf = z3.Function(name, *([z3.IntSort()] * (nparams + 1) + [z3.RealSort()]))

    def upto(self, *args):
        ps, k = args[:-1], args[-1]
        zs = [to_z3(p) for p in ps]
        self.eng.axiom(self.uf(*(zs + [z3.IntVal(0)])) == 0)
        return Num(self.uf(*(zs + [to_z3(k)])))

    def unfold(self, *args):
        ps, k = args[:-1], args[-1]
        zs = [to_z3(p) for p in ps]
        kt = to_z3(k)
        t = self.term(*args)
        self.eng.axiom(z3.Implies(kt >= 0, self.uf(*(zs + [kt + 1])) == self.uf(*(zs + [kt])) + to_real(to_z3(lift(t)))))
