"""Sigma: finite sums as a recursively defined function (DESIGN section 4).

S(params, 0) = 0 ;  S(params, k+1) = S(params, k) + term(params, k)   for k >= 0
Only *instances* of the defining equations are given to the solver (sound: they are consequences of the
definition); the postcondition speaks about S(params, n), i.e. the mathematical sum of term over [0, n).
"""
import z3

from pyvc.values import Num, lift, to_real, to_z3


class Sigma:
    def __init__(self, eng, name, nparams, term, zero_rule=False):
        self.zero_rule = zero_rule      # opt-in: costs one disjunctive axiom per queried sum (slow with nonlinear terms)
        self.eng = eng
        self.term = term
        self.nparams = nparams
        self.uf = z3.Function(name, *([z3.IntSort()] * (nparams + 1) + [z3.RealSort()]))

    def upto(self, *args):
        ps, k = args[:-1], args[-1]
        zs = [to_z3(p) for p in ps]
        self.eng.axiom(self.uf(*(zs + [z3.IntVal(0)])) == 0)
        s = self.uf(*(zs + [to_z3(k)]))
        if self.zero_rule:
            self._zero_rule(ps, k, zs, s)
        return Num(s)

    def _zero_rule(self, ps, k, zs, s):
        """a sum that is not zero has a non-zero term (by induction on the definition; Skolem witness w per queried sum):
               S(ps, k) != 0  ->  0 <= w < k  and  term(ps, w) != 0
        This is what lets `sum over an empty range / of zeros == 0` be concluded without induction in the solver."""
        e = self.eng
        seen = e.ghost.setdefault("sigma_zero_rule", set())
        key = str(s)
        if key in seen or getattr(self, "_in_zero_rule", False):
            return
        seen.add(key)
        kt = to_z3(k)
        w = z3.Int(e.uniq("sw"))
        rng = z3.And(w >= 0, w < kt)
        self._in_zero_rule = False
        try:
            t = e.under(rng, lambda: self.term(*(list(ps) + [Num(w)])), default=None)
        except Exception:
            t = None
        if t is None:
            return
        e.axiom(z3.Or(s == 0, z3.And(rng, to_real(to_z3(lift(t))) != 0)))

    def unfold(self, *args):
        ps, k = args[:-1], args[-1]
        zs = [to_z3(p) for p in ps]
        kt = to_z3(k)
        t = self.term(*args)
        self.eng.axiom(z3.Implies(kt >= 0, self.uf(*(zs + [kt + 1])) == self.uf(*(zs + [kt])) + to_real(to_z3(lift(t)))))
