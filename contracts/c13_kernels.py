"""C13 - kernel CDFs.

uniform            == CDF of the uniform law on the box centred at mu
norm_cdf(x)        == Phi(x) := erfc(-x / sqrt 2) / 2
sbvn_cdf           == Phi((x-mx)/sqrt(sx)) * Phi((y-my)/sqrt(sy))            (product of marginals)
gaussian           dispatches on sigma[0][1] == 0: product form, else bvn_cdf(sxx, syy, sxy)
gauss_legendre_quad thresholds 0.3 / 0.75 and tables == positive nodes/weights of the 6/12/20-point rules
bvn_cdf            control skeleton of Genz's BVND: standardisation, regime test |r| < 0.925, the three
                   guards (> -100), sign flip for r < 0 and the final combinations.  The quadrature arithmetic
                   itself is decided numerically (bounded stand-in), see DESIGN C13.
"""
import z3

from pyvc.arrays import Arr, from_nested
from pyvc.engine import Contract, LemmaSet
from pyvc.models import NP, m_erfc
from pyvc.values import Num, b_and, ite, lift, num_div, num_max, num_min, to_z3, zb
from .common import sym_vector

MOD = "persim/images_kernels.py"


def Phi(x):
    return m_erfc(-x / NP.sqrt(2.0)) / 2.0


def uniform_contract():
    def make_args(eng):
        x, n = sym_vector(eng, "x")
        y, _ = sym_vector(eng, "y", n=n)
        mu, _ = sym_vector(eng, "mu", n=2)
        w, h = eng.fresh_real("width"), eng.fresh_real("height")
        eng.assume(z3.And(w.t > 0, h.t > 0))
        return {"x": x, "y": y, "mu": mu, "width": w, "height": h}, {"n": n}

    def ensures(a, res):
        e = a.eng
        k = e.fresh_int("kq", lo=0, hi=a.g["n"])
        fx = num_min(num_max((a.x.get(k) - (a.mu.get(0) - a.width / 2)) / a.width, 0), 1)
        fy = num_min(num_max((a.y.get(k) - (a.mu.get(1) - a.height / 2)) / a.height, 0), 1)
        return [("is_box_cdf", lift(res.get(k)) == fx * fy, "P"),
                ("in_unit_interval", b_and(lift(res.get(k)) >= 0, lift(res.get(k)) <= 1), "P")]
    return Contract(MOD, "uniform", make_args, ensures=ensures, definedness="P")


def norm_cdf_contract():
    def make_args(eng):
        return {"x": eng.fresh_real("x")}, {}
    return Contract(MOD, "norm_cdf", make_args, ensures=lambda a, res: [("is_Phi", lift(res) == Phi(a.x), "P")], definedness="P")


def sbvn_contract():
    def make_args(eng):
        x, n = sym_vector(eng, "x")
        y, _ = sym_vector(eng, "y", n=n)
        vs = {k: eng.fresh_real(k) for k in ("mu_x", "mu_y", "sigma_x", "sigma_y")}
        eng.assume(z3.And(vs["sigma_x"].t > 0, vs["sigma_y"].t > 0))
        return dict(x=x, y=y, **vs), {"n": n}

    def ensures(a, res):
        k = a.eng.fresh_int("kq", lo=0, hi=a.g["n"])
        want = Phi((a.x.get(k) - a.mu_x) / NP.sqrt(a.sigma_x)) * Phi((a.y.get(k) - a.mu_y) / NP.sqrt(a.sigma_y))
        return [("is_product_of_marginals", lift(res.get(k)) == want, "P")]
    return Contract(MOD, "sbvn_cdf", make_args, ensures=ensures, definedness="P", summary=sbvn_summary)


def _bind(names, pos, kw, defaults=None):
    d = dict(defaults or {})
    d.update(dict(zip(names, pos)))
    d.update(kw)
    return d


def sbvn_summary(eng, pos, kw):
    a = _bind(["x", "y", "mu_x", "mu_y", "sigma_x", "sigma_y"], pos, kw, {"mu_x": 0.0, "mu_y": 0.0, "sigma_x": 1.0, "sigma_y": 1.0})
    from pyvc.arrays import elementwise
    return elementwise(lambda xv, yv: Phi((xv - a["mu_x"]) / NP.sqrt(a["sigma_x"])) * Phi((yv - a["mu_y"]) / NP.sqrt(a["sigma_y"])),
                       a["x"], a["y"], dtype="float")


_BVN = z3.Function("BVN", *([z3.RealSort()] * 8))


def bvn_spec(x, y, mx, my, sxx, syy, sxy):
    """the bivariate normal CDF as an opaque function of its seven arguments"""
    return Num(_BVN(*[z3.ToReal(to_z3(v)) if to_z3(v).sort().kind() == z3.Z3_INT_SORT else to_z3(v) for v in (x, y, mx, my, sxx, syy, sxy)]))


def bvn_summary(eng, pos, kw):
    a = _bind(["x", "y", "mu_x", "mu_y", "sigma_xx", "sigma_yy", "sigma_xy"], pos, kw,
              {"mu_x": 0.0, "mu_y": 0.0, "sigma_xx": 1.0, "sigma_yy": 1.0, "sigma_xy": 0.0})
    from pyvc.arrays import elementwise
    return elementwise(lambda xv, yv: bvn_spec(xv, yv, a["mu_x"], a["mu_y"], a["sigma_xx"], a["sigma_yy"], a["sigma_xy"]),
                       a["x"], a["y"], dtype="float")


def gaussian_contract(mode):
    """mode: 'diag' (sigma[0][1] == 0), 'corr' (!= 0), 'defaults' (mu=None, sigma=None)"""
    def make_args(eng):
        x, n = sym_vector(eng, "birth")
        y, _ = sym_vector(eng, "pers", n=n)
        if mode == "defaults":
            return {"birth": x, "pers": y, "mu": None, "sigma": None}, {"n": n}
        mu, _ = sym_vector(eng, "mu", n=2)
        sxx, syy, sxy = eng.fresh_real("sxx"), eng.fresh_real("syy"), eng.fresh_real("sxy")
        eng.assume(z3.And(sxx.t > 0, syy.t > 0))
        if mode == "diag":
            sxy = 0.0
        else:
            eng.assume(sxy.t != 0)
            eng.assume(sxy.t * sxy.t < sxx.t * syy.t)
        sigma = [[sxx, sxy], [sxy, syy]]
        return {"birth": x, "pers": y, "mu": mu, "sigma": sigma}, {"n": n, "sxx": sxx, "syy": syy, "sxy": sxy}

    def ensures(a, res):
        k = a.eng.fresh_int("kq", lo=0, hi=a.g["n"])
        x, y = a.birth.get(k), a.pers.get(k)
        if mode == "defaults":
            want = Phi(lift(x) / NP.sqrt(1.0)) * Phi(lift(y) / NP.sqrt(1.0))
        elif mode == "diag":
            want = Phi((x - a.mu.get(0)) / NP.sqrt(a.g["sxx"])) * Phi((y - a.mu.get(1)) / NP.sqrt(a.g["syy"]))
        else:
            want = bvn_spec(x, y, a.mu.get(0), a.mu.get(1), a.g["sxx"], a.g["syy"], a.g["sxy"])
        return [("dispatch_%s" % mode, lift(res.get(k)) == want, "P")]
    return Contract(MOD, "gaussian", make_args, ensures=ensures, definedness="P", variant=mode)


def _leggauss_positive(npts):
    import numpy as np
    xs, ws = np.polynomial.legendre.leggauss(npts)
    pairs = sorted([(float(x), float(w)) for x, w in zip(xs, ws) if x > 0], reverse=True)
    return [p[0] for p in pairs], [p[1] for p in pairs]


def glq_contract():
    def make_args(eng):
        r = eng.fresh_real("r")
        eng.assume(z3.And(r.t > -1, r.t < 1))
        return {"r": r}, {}

    def ensures(a, res):
        lg, w, x = res
        e = a.eng
        ar = abs(a.r)
        want_lg = ite(ar < 0.3, 3, ite(ar < 0.75, 6, 10))
        out = [("rule_size_by_correlation_thresholds_0.3_0.75", lift(lg) == want_lg, "P")]
        if isinstance(lg, int):
            xs, ws = _leggauss_positive(2 * lg)
            okx = all(abs(float(x.get(i)) - xs[i]) <= 1e-14 for i in range(lg)) and x.shape[0] == lg
            okw = all(abs(float(w.get(i)) - ws[i]) <= 1e-14 for i in range(lg)) and w.shape[0] == lg
            out.append(("nodes_are_gauss_legendre_%dpt" % (2 * lg), okx, "P"))
            out.append(("weights_are_gauss_legendre_%dpt" % (2 * lg), okw, "P"))
        else:
            out.append(("rule_size_concrete", False, "S"))
        return out
    return Contract(MOD, "gauss_legendre_quad", make_args, ensures=ensures, definedness="P")


def bvn_contract(regime):
    """regime in 'low' (|r| < 0.925), 'high+' (0.925 <= r < 1), 'high-' (-1 < r <= -0.925)"""
    def make_args(eng):
        x, n = sym_vector(eng, "x")
        y, _ = sym_vector(eng, "y", n=n)
        vs = {k: eng.fresh_real(k) for k in ("mu_x", "mu_y", "sigma_xx", "sigma_yy", "sigma_xy")}
        eng.assume(z3.And(vs["sigma_xx"].t > 0, vs["sigma_yy"].t > 0, n.t >= 1))
        # r = sxy / sqrt(sxx*syy) given through a ghost so that the regime can be fixed per contract variant
        r = eng.fresh_real("r_ghost")
        s = NP.sqrt(vs["sigma_xx"] * vs["sigma_yy"])
        eng.assume(r.t * s.t == vs["sigma_xy"].t)
        eng.assume(z3.And(r.t > -1, r.t < 1))
        lim = z3.Q(925, 1000)
        if regime == "low":
            eng.assume(z3.And(r.t < lim, r.t > -lim))
        elif regime == "high+":
            eng.assume(r.t >= lim)
        else:
            eng.assume(r.t <= -lim)
        return dict(x=x, y=y, **vs), {"n": n, "r": r}

    def std(a, k):
        dh = -(a.x.get(k) - a.mu_x) / NP.sqrt(a.sigma_xx)
        dk = -(a.y.get(k) - a.mu_y) / NP.sqrt(a.sigma_yy)
        return dh, dk

    def hint_r(st):
        return [("correlation", lift(st.r) == st.g["r"], "P")]

    def hint_std(st):
        e = st.eng
        k = e.fresh_int("ks", lo=0, hi=st.g["n"])
        a = st
        return [("standardised_h", lift(st.dh.get(k)) == -(st.x.get(k) - st.mu_x) / NP.sqrt(st.sigma_xx), "P"),
                ("standardised_k", lift(st.dk.get(k)) == -(st.y.get(k) - st.mu_y) / NP.sqrt(st.sigma_yy), "P")]

    def hint_low(st):
        return [("low_regime_only_for_abs_r_below_0.925", abs(lift(st.g["r"])) < 0.925, "P")]

    def hint_high(st):
        return [("high_regime_only_for_abs_r_at_least_0.925", abs(lift(st.g["r"])) >= 0.925, "P")]

    def guard(name, arr_name, rank):
        def h(st):
            e = st.eng
            ind = st.env.lookup(name)
            src = st.env.lookup(arr_name)
            if rank == 1:
                k = e.fresh_int("kg", lo=0, hi=st.g["n"])
                return [("guard_%s_is_greater_than_minus_100" % arr_name, zb(ind.get(k)) == zb(lift(src.get(k)) > -100), "P")]
            k = e.fresh_int("kg", lo=0, hi=st.g["n"])
            j = e.fresh_int("jg", lo=0, hi=src.shape[1])
            return [("guard_%s_is_greater_than_minus_100" % arr_name, zb(ind.get(k, j)) == zb(lift(src.get(k, j)) > -100), "P")]
        return h

    def hint_final_capture(st):
        st.g["bvn_mid"] = st.bvn.snapshot_fn()
        st.g["dh_f"], st.g["dk_f"] = st.dh.snapshot_fn(), st.dk.snapshot_fn()
        return []

    def ensures(a, res):
        e = a.eng
        g = a.g
        out = [("one_value_per_point", lift(res.shape[0]) == g["n"], "P")]
        k = e.fresh_int("kq", lo=0, hi=g["n"])
        if regime == "low":
            return out
        if "bvn_mid" not in g:
            return out + [("final_combination_reached", False, "S")]
        mid = g["bvn_mid"]((k,))
        dh, dk = g["dh_f"]((k,)), g["dk_f"]((k,))
        h0, k0 = std(a, k)
        if regime == "high+":
            out.append(("final_combination_positive_r", lift(res.get(k)) == mid + Phi(-num_max(h0, k0)), "P"))
        else:
            # for r < 0 the code works with k' = -k
            out.append(("sign_flip_for_negative_r", lift(dk) == -k0, "P"))
            out.append(("final_combination_negative_r", lift(res.get(k)) == -mid + num_max(0, Phi(-h0) - Phi(k0)), "P"))
        return out

    return Contract(MOD, "bvn_cdf", make_args, ensures=ensures, definedness="assume", variant=regime,
                    hints=[("r = sigma_xy", hint_r), ("hk = np.multiply(dh, dk)", hint_std), ("hs = ", hint_low), ("opmr = ", hint_high),
                           ("ind = asr >", guard("ind", "asr", 1)), ("ind = hk >", guard("ind", "hk", 1)),
                           ("ind1 = asr1 >", guard("ind1", "asr1", 2)), ("bvn = -bvn / (2.0 * np.pi)", hint_final_capture)])


def lemmas():
    def fn(eng):
        x, y, m0, m1, w, h = [eng.fresh_real(n) for n in ("x", "y", "m0", "m1", "w", "h")]
        eng.assume(z3.And(w.t > 0, h.t > 0))
        box = lambda xx, yy: num_min(num_max((xx - (m0 - w / 2)) / w, 0), 1) * num_min(num_max((yy - (m1 - h / 2)) / h, 0), 1)
        x2 = eng.fresh_real("x2")
        return [("box_cdf_zero_left_of_box", box(m0 - w / 2, y) == 0),
                ("box_cdf_one_beyond_box", box(m0 + w / 2, m1 + h / 2) == 1),
                ("box_cdf_monotone_in_x", box(x, y) <= box(x2, y), [x.t <= x2.t])]
    return LemmaSet("C13.uniform_cdf_shape", fn)


def all_contracts(tier):
    cs = [uniform_contract(), norm_cdf_contract(), sbvn_contract(), gaussian_contract("diag"), gaussian_contract("corr"),
          gaussian_contract("defaults"), glq_contract(), bvn_contract("low"), bvn_contract("high+"), bvn_contract("high-"), lemmas()]
    table = {(MOD, "sbvn_cdf"): cs[2], (MOD, "bvn_cdf"): Contract(MOD, "bvn_cdf", None, summary=bvn_summary)}
    return cs, table
