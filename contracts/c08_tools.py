"""C08 (deductive part): death_vector and the landscape transformer.

death_vector(dgms, hom_deg) == sorted(deaths of dgms[0], reverse=True)   and raises NotImplementedError for hom_deg != 0
PersistenceLandscaper.transform(X) == PersLandscapeApprox(dgms=X, start, stop, num_steps, hom_deg).values  (flattened on request)
"""
import z3

from pyvc.arrays import Arr, SymSeq, fresh_symbolic
from pyvc.engine import Contract, Obj
from pyvc.models import pointwise_equal, sorted_model
from pyvc.values import Num, b_and, lift, to_z3, zb
from .common import sym_diagram

TMOD = "persim/landscapes/tools.py"
XMOD = "persim/landscapes/transformer.py"
AMOD = "persim/landscapes/approximate.py"


def death_vector_contract(hom):
    def make_args(eng):
        D, n = sym_diagram(eng, "dgm0")
        return {"dgms": [D], "hom_deg": hom}, {"D": D, "n": n}

    def ensures(a, res):
        e, g = a.eng, a.g
        D = g["D"]
        want = sorted_model(e, SymSeq(g["n"], lambda k: D.get(k, 1)), None, True)
        ok = isinstance(res, SymSeq) and (res is want or pointwise_equal(e, res.n, res._get, want.n, want._get) is True)
        k = e.fresh_int("kq", lo=0, hi=g["n"] - 1)
        return [("is_deaths_sorted_in_non_increasing_order_with_multiplicity", ok, "P"),
                ("non_increasing", lift(res.get(k)) >= res.get(k + 1), "P")]

    def raises(a):
        return [("death_vector_only_in_degree_zero", "NotImplementedError", hom != 0)]
    return Contract(TMOD, "death_vector", make_args, ensures=ensures, raises=raises, definedness="P", variant="hom_deg=%d" % hom)


class ApproxResult:
    def __init__(self, kw):
        self.kw = kw
        self.values = Arr((2, 3), lambda idx: 0.0, dtype="float")
        self.values.tag = "values-of-approx"


def approx_summary(eng, pos, kw):
    if pos:
        raise Exception("positional call of PersLandscapeApprox not expected")
    r = ApproxResult(dict(kw))
    eng.ghost.setdefault("approx_calls", []).append(r)
    return r


def transformer_contract(flatten):
    def make_args(eng):
        cls = eng.module(XMOD).lookup("PersistenceLandscaper")
        o = Obj(cls=cls)
        hd = 0
        start, stop = eng.fresh_real("start"), eng.fresh_real("stop")
        ns = eng.fresh_int("num_steps", lo=2)
        o.fields.update({"hom_deg": hd, "start": start, "stop": stop, "num_steps": ns, "flatten": flatten})
        D, n = sym_diagram(eng, "X0")
        return {"self": o, "X": [D]}, {"o": o, "X": [D], "old": dict(o.fields)}

    def ensures(a, res):
        g = a.g
        calls = a.eng.ghost.get("approx_calls", [])
        o = g["o"]
        out = [("fitted_state_untouched", all(o.fields[k] is g["old"][k] for k in g["old"]) and set(o.fields) == set(g["old"]), "P"),
               ("one_approximate_landscape_built", len(calls) == 1, "P")]
        if len(calls) == 1:
            kw = calls[0].kw
            exp = {"dgms": a.X, "start": o.fields["start"], "stop": o.fields["stop"], "num_steps": o.fields["num_steps"], "hom_deg": o.fields["hom_deg"]}
            out.append(("built_from_the_input_and_the_transformer_grid", set(kw) == set(exp) and all(kw[k] is exp[k] or kw[k] == exp[k] for k in exp), "P"))
            if flatten:
                out.append(("returns_flattened_values", isinstance(res, Arr) and res.ndim == 1 and res.shape[0] == 6, "P"))
            else:
                out.append(("returns_the_values", res is calls[0].values, "P"))
        return out
    return Contract(XMOD, "PersistenceLandscaper.transform", make_args, ensures=ensures, definedness="P", variant="flatten=%s" % flatten)


def all_contracts(tier):
    cs = [death_vector_contract(0), death_vector_contract(1), transformer_contract(False), transformer_contract(True)]
    table = {(AMOD, "PersLandscapeApprox"): None}
    return cs, {"__class_summaries": {"PersLandscapeApprox": approx_summary}}
