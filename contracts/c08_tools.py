"""C08 (deductive part): death_vector and the landscape transformer.

death_vector(dgms, hom_deg) == sorted(deaths of dgms[0], reverse=True)   and raises NotImplementedError for hom_deg != 0
PersistenceLandscaper.transform(X) == PersLandscapeApprox(dgms=X, start, stop, num_steps, hom_deg).values  (flattened on request)
"""
import z3

from pyvc.arrays import Arr, SymSeq, fresh_symbolic
from pyvc.engine import Contract, Obj
from pyvc.models import pointwise_equal, sorted_model
from pyvc.values import Num, b_and, lift, to_z3, zb
from .common import sym_diagram

TMOD = "persim/landscapes/tools.py"
XMOD = "persim/landscapes/transformer.py"
AMOD = "persim/landscapes/approximate.py"


def death_vector_contract(hom):
    def make_args(eng):
        D, n = sym_diagram(eng, "dgm0")
        return {"dgms": [D], "hom_deg": hom}, {"D": D, "n": n}

    def ensures(a, res):
        e, g = a.eng, a.g
        D = g["D"]
        want = sorted_model(e, SymSeq(g["n"], lambda k: D.get(k, 1)), None, True)
        ok = isinstance(res, SymSeq) and (res is want or pointwise_equal(e, res.n, res._get, want.n, want._get) is True)
        k = e.fresh_int("kq", lo=0, hi=g["n"] - 1)
        return [("is_deaths_sorted_in_non_increasing_order_with_multiplicity", ok, "P"),
                ("non_increasing", lift(res.get(k)) >= res.get(k + 1), "P")]

    def raises(a):
        return [("death_vector_only_in_degree_zero", "NotImplementedError", hom != 0)]
    return Contract(TMOD, "death_vector", make_args, ensures=ensures, raises=raises, definedness="P", variant="hom_deg=%d" % hom)


class ApproxResult:
    def __init__(self, kw):
        self.kw = kw
        self.values = Arr((2, 3), lambda idx: 0.0, dtype="float")
        self.values.tag = "values-of-approx"


def approx_summary(eng, pos, kw):
    if pos:
        raise Exception("positional call of PersLandscapeApprox not expected")
    r = ApproxResult(dict(kw))
    eng.ghost.setdefault("approx_calls", []).append(r)
    return r


def transformer_contract(flatten):
    def make_args(eng):
        cls = eng.module(XMOD).lookup("PersistenceLandscaper")
        o = Obj(cls=cls)
        hd = 0
        start, stop = eng.fresh_real("start"), eng.fresh_real("stop")
        ns = eng.fresh_int("num_steps", lo=2)
        o.fields.update({"hom_deg": hd, "start": start, "stop": stop, "num_steps": ns, "flatten": flatten})
        D, n = sym_diagram(eng, "X0")
        return {"self": o, "X": [D]}, {"o": o, "X": [D], "old": dict(o.fields)}

    def ensures(a, res):
        g = a.g
        calls = a.eng.ghost.get("approx_calls", [])
        o = g["o"]
        out = [("fitted_state_untouched", all(o.fields[k] is g["old"][k] for k in g["old"]) and set(o.fields) == set(g["old"]), "P"),
               ("one_approximate_landscape_built", len(calls) == 1, "P")]
        if len(calls) == 1:
            kw = calls[0].kw
            exp = {"dgms": a.X, "start": o.fields["start"], "stop": o.fields["stop"], "num_steps": o.fields["num_steps"], "hom_deg": o.fields["hom_deg"]}
            out.append(("built_from_the_input_and_the_transformer_grid", set(kw) == set(exp) and all(kw[k] is exp[k] or kw[k] == exp[k] for k in exp), "P"))
            if flatten:
                out.append(("returns_flattened_values", isinstance(res, Arr) and res.ndim == 1 and res.shape[0] == 6, "P"))
            else:
                out.append(("returns_the_values", res is calls[0].values, "P"))
        return out
    return Contract(XMOD, "PersistenceLandscaper.transform", make_args, ensures=ensures, definedness="P", variant="flatten=%s" % flatten)


def all_contracts(tier):
    cs = [death_vector_contract(0), death_vector_contract(1), transformer_contract(False), transformer_contract(True)]
    table = {(AMOD, "PersLandscapeApprox"): None}
    return cs, {"__class_summaries": {"PersLandscapeApprox": approx_summary}}


# ----------------------------------------------------------------------------- vectorize: exact landscape sampled onto a grid
# vectorize(l, start, stop, num_steps).values[d][i] == lambda_d(grid_i), lambda_d being the piecewise-linear function through the
# critical points of depth d (np.interp through its contract D26: PL(x, d)); grid ends as given, else smallest / largest abscissa of
# the first depth; every depth sampled; degree kept; the exact landscape is not modified.
def vectorize_contract(given):
    from pyvc.engine import LoopContract
    from pyvc.models import AppendList, interp_pairs_term
    from pyvc.values import Num, ite, to_z3
    given = tuple(given)
    EMOD = "persim/landscapes/exact.py"

    def make_args(eng):
        cls = eng.module(EMOD).lookup("PersLandscapeExact")
        o = Obj(cls=cls)
        X = z3.Function("X_cp", z3.IntSort(), z3.IntSort(), z3.RealSort())
        Y = z3.Function("Y_cp", z3.IntSort(), z3.IntSort(), z3.RealSort())
        L = z3.Function("L_cp", z3.IntSort(), z3.IntSort())
        nd = eng.fresh_int("ndepths", lo=1)

        def depth(d):
            dl = Num(L(to_z3(d)))
            eng.axiom(dl.t >= 1)
            r = SymSeq(dl, lambda s: [Num(X(to_z3(d), to_z3(s))), Num(Y(to_z3(d), to_z3(s)))])
            r.rowid = ("cp", d)
            return r
        cps = SymSeq(nd, depth)
        hd = eng.fresh_int("hd", lo=0)
        o.fields.update({"critical_pairs": cps, "hom_deg": hd, "dgms": [], "max_depth": nd})
        args = {"l": o, "num_steps": eng.fresh_int("num_steps", lo=2)}
        for nm in ("start", "stop"):
            args[nm] = eng.fresh_real(nm + "_arg") if nm in given else None
        return args, {"o": o, "cps": cps, "X": X, "Y": Y, "L": L, "nd": nd, "hd": hd, "old": dict(o.fields)}

    def grid_ends(a):
        e, g = a.eng, a.g
        return a.start, a.stop

    def inv(st):
        e, g = st.eng, st.g
        r, G = st.result, st.grid
        if isinstance(r, list):
            return [("one_sample_row_per_depth_so_far", lift(len(r)) == st.k, "S")]
        return [("one_sample_row_per_depth_so_far", lift(r.n) == st.k, "S"),
                ("rows_live_on_the_grid", st.each([(0, st.k)], lambda d: lift(r.get(d).shape[0]) == G.shape[0], name="vd"), "S"),
                ("row_d_samples_the_function_of_depth_d", st.each([(0, st.k), (0, G.shape[0])], lambda d, i: lift(r.get(d).get(i)) == interp_pairs_term(e, "cp", G.get(i), d), name="vi"), "S")]

    def havoc_result(st):
        e = st.eng
        k = st.env.lookup("__k_loop0")
        G = st.env.lookup("grid")
        uf = z3.Function(e.uniq("VR"), z3.IntSort(), z3.IntSort(), z3.RealSort())
        return AppendList(k, lambda d: Arr((G.shape[0],), lambda idx: Num(uf(to_z3(d), to_z3(idx[0]))), dtype="float"))

    def ensures(a, res):
        e, g = a.eng, a.g
        kw = getattr(getattr(res, "built", None), "kw", None) if not isinstance(res, ApproxResult) else res.kw
        out = [("exact_landscape_untouched", all(g["o"].fields[k] is g["old"][k] for k in g["old"]) and set(g["o"].fields) == set(g["old"]), "P")]
        if kw is None:
            return out + [("returns_a_grid_landscape", False, "S")]
        X, L = g["X"], g["L"]
        out.append(("degree_kept", kw.get("hom_deg") is g["hd"], "P"))
        out.append(("grid_size_as_requested", kw.get("num_steps") is a.num_steps, "P"))
        s0 = z3.Int(e.uniq("q0"))
        r0 = z3.And(s0 >= 0, s0 < L(0))
        if "start" in given:
            out.append(("grid_start_as_given", kw.get("start") is a.start, "P"))
        else:
            out.append(("grid_start_is_the_smallest_abscissa_of_the_first_depth", BoolV_(z3.And(z3.ForAll([s0], z3.Implies(r0, to_z3(lift(kw.get("start"))) <= X(0, s0))),
                                                                                        z3.Exists([s0], z3.And(r0, to_z3(lift(kw.get("start"))) == X(0, s0))))), "P"))
        if "stop" in given:
            out.append(("grid_stop_as_given", kw.get("stop") is a.stop, "P"))
        else:
            out.append(("grid_stop_is_the_largest_abscissa_of_the_first_depth", BoolV_(z3.And(z3.ForAll([s0], z3.Implies(r0, to_z3(lift(kw.get("stop"))) >= X(0, s0))),
                                                                                      z3.Exists([s0], z3.And(r0, to_z3(lift(kw.get("stop"))) == X(0, s0))))), "P"))
        V = kw.get("values")
        if not (isinstance(V, Arr) and V.ndim == 2):
            return out + [("values_is_a_matrix", False, "S")]
        out.append(("every_depth_sampled_on_the_grid", b_and(lift(V.shape[0]) == g["nd"], lift(V.shape[1]) == a.num_steps), "P"))
        d = e.fresh_int("qd", lo=0, hi=g["nd"])
        i = e.fresh_int("qi", lo=0, hi=a.num_steps)
        start, stop = kw.get("start"), kw.get("stop")
        node = lift(start) + lift(i) * ((lift(stop) - start) / (lift(a.num_steps) - 1))
        out.append(("value_is_the_landscape_function_of_that_depth_at_the_grid_node", lift(V.get(d, i)) == interp_pairs_term(e, "cp", node, d), "S"))
        return out
    return Contract(TMOD, "vectorize", make_args, ensures=ensures, definedness="P", variant="given=%s" % ",".join(given),
                    loops={0: LoopContract("for depth in l.critical_pairs", inv, cls="P", havoc={"result": havoc_result})})


def BoolV_(t):
    from pyvc.values import BoolV
    return BoolV(t)


def vectorize_contracts(tier):
    EMOD = "persim/landscapes/exact.py"
    table = {"__class_summaries": {"PersLandscapeApprox": approx_summary},
             (EMOD, "PersLandscapeExact.compute_landscape"): Contract(EMOD, "PersLandscapeExact.compute_landscape", None, summary=lambda eng, pos, kw: None)}
    return [vectorize_contract(()), vectorize_contract(("start", "stop"))] + ([vectorize_contract(("start",)), vectorize_contract(("stop",))] if tier != "quick" else []), table
