"""C09 (deductive part) - grid-landscape arithmetic and the map-style operators of exact landscapes.

PersLandscapeApprox:  a + b, -a, a - b, s*a, a*s, a/s  ->  a new landscape on the same grid whose values are the pointwise
   operation on the values with the shallower operand padded by zero rows; operands' buffers are never written;
   ValueError on different hom_deg / start / stop / num_steps, TypeError for a non-number factor, ValueError for divisor 0.
PersLandscapeExact:   -a, s*a, a/s  map over depths and critical pairs.
"""
import z3

from pyvc.arrays import Arr, SymSeq, fresh_symbolic
from pyvc.engine import Contract, Obj
from pyvc.values import Num, b_and, b_or, ite, lift, num_eq, to_z3, zb

AMOD = "persim/landscapes/approximate.py"
EMOD = "persim/landscapes/exact.py"


class Built:
    """result of a modular constructor call: remembers the keyword arguments"""

    def __init__(self, cls, kw):
        self.cls_name = cls
        self.kw = kw


def ctor_summary(name):
    def f(eng, pos, kw):
        if pos:
            raise Exception("positional constructor call not expected")
        b = Built(name, dict(kw))
        eng.ghost.setdefault("built", []).append(b)
        return b
    return f


def approx_obj(eng, tag, grid=None):
    cls = eng.module(AMOD).lookup("PersLandscapeApprox")
    o = Obj(cls=cls)
    if grid is None:
        grid = {"start": eng.fresh_real("start_" + tag), "stop": eng.fresh_real("stop_" + tag), "num_steps": eng.fresh_int("ns_" + tag, lo=2),
                "hom_deg": eng.fresh_int("hd_" + tag, lo=0)}
    k = eng.fresh_int("depth_" + tag, lo=1)
    vals = fresh_symbolic("values_" + tag, (k, grid["num_steps"]), dtype="float", origin="param:%s.values" % tag, eng=eng)
    o.fields.update(dict(grid, values=vals, max_depth=k, dgms=[]))
    return o, grid, k, vals


def fields_of(x):
    """keyword view of a resulting landscape however it was produced: through the constructor (summary object) or as a copy of an
    operand with attributes replaced; None if it is no landscape object at all.  How the object is built is not part of C09."""
    if getattr(x, "built", None) is not None:
        return x.built.kw
    if isinstance(x, Obj):
        return x.fields
    return None


def padded(vals, k, i, j):
    return ite(lift(i) < k, cur_under(lift(i) < k, lambda: vals.get(i, j)), 0.0)


def cur_under(cond, thunk):
    from pyvc.values import cur
    return cur().under(zb(cond), thunk, default=0.0)


def last_built(a):
    bs = a.eng.ghost.get("built", [])
    return bs[-1] if bs else None


def grid_clauses(o, kw, T=()):
    f = o.fields
    return [("result_keeps_the_grid", all(k in kw for k in ("start", "stop", "num_steps", "hom_deg")) and
             all(kw.get(k) is f[k] for k in ("start", "stop", "num_steps", "hom_deg")), "P")]


def add_contract(same_grid):
    def make_args(eng):
        A, grid, ka, va = approx_obj(eng, "self")
        B, gridb, kb, vb = approx_obj(eng, "other", grid if same_grid else None)
        return {"self": A, "other": B}, {"A": A, "B": B, "ka": ka, "kb": kb, "va": va, "vb": vb, "ns": grid["num_steps"], "ga": grid, "gb": gridb}

    def raises(a):
        g = a.g
        ga, gb = g["ga"], g["gb"]
        differ = b_or(*[b_or(lift(ga[k]) != gb[k]) for k in ("hom_deg", "start", "stop", "num_steps")]) if not same_grid else False
        return [("grids_or_degrees_differ", "ValueError", differ)]

    def ensures(a, res):
        e, g = a.eng, a.g
        out = []
        kw = fields_of(res)
        if kw is None:
            return [("returns_a_landscape", False, "S")]
        out += grid_clauses(g["A"], kw)
        V = kw.get("values")
        if not isinstance(V, Arr) or V.ndim != 2:
            return out + [("values_is_matrix", False, "S")]
        kmax = ite(lift(g["ka"]) >= g["kb"], g["ka"], g["kb"])
        out.append(("depth_is_max_of_operand_depths", b_and(lift(V.shape[0]) == kmax, lift(V.shape[1]) == g["ns"]), "P"))
        i = e.fresh_int("qi", lo=0, hi=kmax)
        j = e.fresh_int("qj", lo=0, hi=g["ns"])
        out.append(("values_are_pointwise_sum_with_zero_padding", lift(V.get(i, j)) == padded(g["va"], g["ka"], i, j) + padded(g["vb"], g["kb"], i, j), "P"))
        return out
    return Contract(AMOD, "PersLandscapeApprox.__add__", make_args, ensures=ensures, raises=raises, definedness="P",
                    variant="same_grid=%s" % same_grid)


def unary_contract(which):
    """which: neg | mul | rmul | div | mul_bad | div_zero"""
    qual = {"neg": "__neg__", "mul": "__mul__", "rmul": "__rmul__", "div": "__truediv__", "mul_bad": "__mul__", "div_zero": "__truediv__"}[which]

    def make_args(eng):
        A, grid, ka, va = approx_obj(eng, "self")
        args = {"self": A}
        s = None
        if which in ("mul", "rmul", "div"):
            s = eng.fresh_real("s")
            if which == "div":
                eng.assume(s.t != 0)
            args["other"] = s
        elif which == "mul_bad":
            args["other"] = "two"
        elif which == "div_zero":
            args["other"] = 0.0
        return args, {"A": A, "ka": ka, "va": va, "ns": grid["num_steps"], "s": s}

    def raises(a):
        return [("non_number_factor_rejected", "TypeError", which == "mul_bad"), ("zero_divisor_rejected", "ValueError", which == "div_zero")]

    def ensures(a, res):
        e, g = a.eng, a.g
        kw = fields_of(res)
        if kw is None:
            return [("returns_a_landscape", False, "S")]
        out = grid_clauses(g["A"], kw)
        V = kw.get("values")
        if not isinstance(V, Arr) or V.ndim != 2:
            return out + [("values_is_matrix", False, "S")]
        out.append(("same_shape", b_and(lift(V.shape[0]) == g["ka"], lift(V.shape[1]) == g["ns"]), "P"))
        i = e.fresh_int("qi", lo=0, hi=g["ka"])
        j = e.fresh_int("qj", lo=0, hi=g["ns"])
        x = g["va"].get(i, j)
        want = {"neg": lambda: -x, "mul": lambda: g["s"] * x, "rmul": lambda: g["s"] * x, "div": lambda: x / g["s"]}[which]()
        out.append(("values_are_pointwise_%s" % which, lift(V.get(i, j)) == want, "P"))
        return out
    return Contract(AMOD, "PersLandscapeApprox." + qual, make_args, ensures=ensures, raises=raises, definedness="P", variant=which)


def sub_contract():
    def make_args(eng):
        A, grid, ka, va = approx_obj(eng, "self")
        B, _g, kb, vb = approx_obj(eng, "other", grid)
        return {"self": A, "other": B}, {"A": A, "ka": ka, "kb": kb, "va": va, "vb": vb, "ns": grid["num_steps"]}

    def ensures(a, res):
        e, g = a.eng, a.g
        kw = fields_of(res)
        if kw is None:
            return [("returns_a_landscape", False, "S")]
        V = kw.get("values")
        if not isinstance(V, Arr) or V.ndim != 2:
            return [("values_is_matrix", False, "S")]
        kmax = ite(lift(g["ka"]) >= g["kb"], g["ka"], g["kb"])
        i = e.fresh_int("qi", lo=0, hi=kmax)
        j = e.fresh_int("qj", lo=0, hi=g["ns"])
        return grid_clauses(g["A"], kw) + [
            ("depth_is_max_of_operand_depths", lift(V.shape[0]) == kmax, "P"),
            ("values_are_pointwise_difference_with_zero_padding", lift(V.get(i, j)) == padded(g["va"], g["ka"], i, j) - padded(g["vb"], g["kb"], i, j), "P")]
    return Contract(AMOD, "PersLandscapeApprox.__sub__", make_args, ensures=ensures, definedness="P")


class BuiltApprox(Obj):
    pass


def approx_ctor_as_object(eng, pos, kw):
    """constructor summary that yields a usable landscape object (needed by a - b = a + (-b))"""
    cls = eng.module(AMOD).lookup("PersLandscapeApprox")
    o = Obj(cls=cls)
    o.fields.update(dict(kw))
    o.fields.setdefault("dgms", [])
    b = Built("PersLandscapeApprox", dict(kw))
    eng.ghost.setdefault("built", []).append(b)
    o.fields["__built"] = b
    o.__dict__["built"] = b
    return o


# ----------------------------------------------------------------------------- exact: map-style operators
def exact_obj(eng):
    cls = eng.module(EMOD).lookup("PersLandscapeExact")
    o = Obj(cls=cls)
    X = z3.Function("cpX", z3.IntSort(), z3.IntSort(), z3.RealSort())
    Y = z3.Function("cpY", z3.IntSort(), z3.IntSort(), z3.RealSort())
    L = z3.Function("cpL", z3.IntSort(), z3.IntSort())
    nd = eng.fresh_int("ndepths", lo=1)

    def depth(d):
        dl = Num(L(to_z3(d)))
        eng.axiom(dl.t >= 0)
        return SymSeq(dl, lambda s: [Num(X(to_z3(d), to_z3(s))), Num(Y(to_z3(d), to_z3(s)))])
    cps = SymSeq(nd, depth)
    o.fields.update({"critical_pairs": cps, "hom_deg": eng.fresh_int("hd", lo=0), "dgms": [], "max_depth": nd})
    return o, dict(X=X, Y=Y, L=L, nd=nd, cps=cps)


def exact_map_contract(which):
    qual = {"neg": "__neg__", "mul": "__mul__", "div": "__truediv__", "div_zero": "__truediv__"}[which]

    def make_args(eng):
        o, g = exact_obj(eng)
        args = {"self": o}
        if which in ("mul", "div"):
            s = eng.fresh_real("s")
            if which == "div":
                eng.assume(s.t != 0)
            args["other"] = s
            g["s"] = s
        if which == "div_zero":
            args["other"] = 0.0
        g["o"] = o
        return args, g

    def raises(a):
        return [("zero_divisor_rejected", "ValueError", which == "div_zero")]

    def ensures(a, res):
        e, g = a.eng, a.g
        kw = fields_of(res)
        if kw is None:
            return [("returns_a_landscape", False, "S")]
        cp = kw.get("critical_pairs")
        out = [("keeps_degree", kw.get("hom_deg") is g["o"].fields["hom_deg"], "P"),
               ("operand_untouched", g["o"].fields["critical_pairs"] is g["cps"], "P")]
        if not isinstance(cp, SymSeq):
            return out + [("critical_pairs_is_list", False, "S")]
        out.append(("same_number_of_depths", lift(cp.n) == g["nd"], "P"))
        d = e.fresh_int("qd", lo=0, hi=g["nd"])
        dl = Num(g["L"](to_z3(d)))
        sidx = e.fresh_int("qs", lo=0, hi=dl)
        row = cur_under(b_and(lift(d) >= 0, lift(d) < g["nd"]), lambda: cp.get(d))
        if not isinstance(row, SymSeq):
            return out + [("depth_is_list", False, "S")]
        out.append(("same_number_of_critical_points", lift(row.n) == dl, "P"))
        pair = row.get(sidx)
        x, y = Num(g["X"](to_z3(d), to_z3(sidx))), Num(g["Y"](to_z3(d), to_z3(sidx)))
        want = {"neg": lambda: -y, "mul": lambda: g["s"] * y, "div": lambda: y / g["s"]}[which]()
        out.append(("abscissa_kept", lift(pair[0]) == x, "P"))
        out.append(("ordinate_is_%s" % which, lift(pair[1]) == want, "P"))
        return out
    return Contract(EMOD, "PersLandscapeExact." + qual, make_args, ensures=ensures, raises=raises, definedness="P", variant=which)


def exact_ctor_as_object(eng, pos, kw):
    cls = eng.module(EMOD).lookup("PersLandscapeExact")
    o = Obj(cls=cls)
    o.fields.update(dict(kw))
    o.fields.setdefault("dgms", [])
    b = Built("PersLandscapeExact", dict(kw))
    eng.ghost.setdefault("built", []).append(b)
    o.__dict__["built"] = b
    return o


def all_contracts(tier):
    cs = [add_contract(True), add_contract(False), sub_contract()] + [unary_contract(w) for w in ("neg", "mul", "rmul", "div", "mul_bad", "div_zero")] + \
         [exact_map_contract(w) for w in ("neg", "mul", "div", "div_zero")]
    table = {"__class_summaries": {"PersLandscapeApprox": approx_ctor_as_object, "PersLandscapeExact": exact_ctor_as_object}}
    return cs, table
