"""helpers shared by the sidecar contracts: symbolic inputs"""
import z3

from pyvc.arrays import Arr, fresh_symbolic
from pyvc.values import Num, to_z3


def sym_diagram(eng, name, width=2, finite=True, lo=0, param=True, dtype="float"):
    """(n, width) array of uninterpreted contents (float by default; dtype='int' for integer-typed diagrams) with symbolic n >= lo;
    buffer origin 'param:<name>'"""
    n = eng.fresh_int("n_" + name, lo=lo)
    a = fresh_symbolic(name, (n, width), dtype=dtype, origin=("param:" + name) if param else None, finite=finite, eng=eng)
    return a, n


def sym_vector(eng, name, n=None, dtype="float", lo=0, param=True):
    if n is None:
        n = eng.fresh_int("n_" + name, lo=lo)
    a = fresh_symbolic(name, (n,), dtype=dtype, origin=("param:" + name) if param else None, eng=eng)
    return a, n


def memo(eng, key, make):
    d = eng.ghost.setdefault("__memo", {})
    if key not in d:
        d[key] = make()
    return d[key]
