"""C14 - heat-kernel distance.

evalHeatKernel(F, G, s) == (8 pi s)^-1 * Sum_i Sum_j [ exp(-|p_i - q_j|^2 / 8s) - exp(-|p_i - mirror(q_j)|^2 / 8s) ]
heat(F, G, s)           == sqrt( k(F,F) + k(G,G) - 2 k(F,G) )          (radicand >= 0: kernel positive definite, assumed)
"""
import z3

from pyvc.engine import Contract, LemmaSet, LoopContract
from pyvc.models import NP, pi_value
from pyvc.values import Num, lift, to_real, to_z3
from specs.sigma import Sigma
from .common import memo, sym_diagram

MOD = "persim/heat.py"


def kterm(p0, p1, q0, q1, sigma):
    """the summand for points p=(p0,p1), q=(q0,q1); exp is the same uninterpreted function the code model uses"""
    d1 = (p0 - q0) ** 2 + (p1 - q1) ** 2
    d2 = (p0 - q1) ** 2 + (p1 - q0) ** 2
    return NP.exp(-d1 / (8 * sigma)) - NP.exp(-d2 / (8 * sigma))


def eval_contract(dtypes=("float", "float")):
    """dtypes: element types of the two diagrams as stored by the caller (integer-typed diagrams are ordinary inputs)"""
    def make_args(eng):
        F, m = sym_diagram(eng, "dgm1", dtype=dtypes[0])
        G, n = sym_diagram(eng, "dgm2", dtype=dtypes[1])
        sigma = eng.fresh_real("sigma")
        eng.assume(sigma.t > 0)
        g = {"m": m, "n": n, "F": F, "G": G}
        g["inner"] = Sigma(eng, "HInner", 1, lambda i, j: kterm(F.get(i, 0), F.get(i, 1), G.get(j, 0), G.get(j, 1), sigma), zero_rule=True)
        g["outer"] = Sigma(eng, "HOuter", 0, lambda i: g["inner"].upto(i, n), zero_rule=True)
        return {"dgm1": F, "dgm2": G, "sigma": sigma}, g

    def ensures(a, res):
        g = a.g
        return [("kernel_is_normalised_double_sum", lift(res) == g["outer"].upto(g["m"]) / (8 * pi_value() * a.sigma), "P")]

    def inv_outer(st):
        g = st.g
        if not isinstance(st.k, int):
            g["outer"].unfold(st.k - 1)
        return [("sum", lift(st.kSigma) == g["outer"].upto(st.k), "P")]

    def inv_inner(st):
        g = st.g
        i = st.kof(0)
        if not isinstance(st.k, int):
            g["inner"].unfold(i, st.k - 1)
        return [("sum", lift(st.kSigma) == g["outer"].upto(i) + g["inner"].upto(i, st.k), "P")]

    return Contract(MOD, "evalHeatKernel", make_args, ensures=ensures, definedness="P",
                    loops={0: LoopContract("for i in", inv_outer, cls="P"),
                           1: LoopContract("for j in", inv_inner, cls="P")},
                    summary=eval_summary, variant="" if dtypes == ("float", "float") else "dtypes=%s,%s" % dtypes)


def kspec(eng, A, B, sigma):
    """k(A,B) as an opaque real, one symbol per (buffer, buffer, sigma) on a path"""
    key = ("k", A.buf.id, B.buf.id, str(to_z3(sigma)))
    return memo(eng, key, lambda: eng.fresh_real("k_%d_%d" % (A.buf.id, B.buf.id)))


def eval_summary(eng, pos, kw):
    names = ["dgm1", "dgm2", "sigma"]
    args = dict(zip(names, pos))
    args.update(kw)
    return kspec(eng, args["dgm1"], args["dgm2"], args["sigma"])


def heat_contract():
    def make_args(eng):
        F, m = sym_diagram(eng, "dgm1")
        G, n = sym_diagram(eng, "dgm2")
        sigma = eng.fresh_real("sigma")
        eng.assume(sigma.t > 0)
        return {"dgm1": F, "dgm2": G, "sigma": sigma}, {}

    def requires(a):
        e = a.eng
        rad = kspec(e, a.dgm1, a.dgm1, a.sigma) + kspec(e, a.dgm2, a.dgm2, a.sigma) - 2 * kspec(e, a.dgm1, a.dgm2, a.sigma)
        return [("kernel_positive_definite_assumed", rad >= 0)]

    def ensures(a, res):
        e = a.eng
        rad = kspec(e, a.dgm1, a.dgm1, a.sigma) + kspec(e, a.dgm2, a.dgm2, a.sigma) - 2 * kspec(e, a.dgm1, a.dgm2, a.sigma)
        return [("distance_is_sqrt_of_kernel_norm", lift(res) == NP.sqrt(rad), "P"),
                ("nonnegative", lift(res) >= 0, "P")]

    return Contract(MOD, "heat", make_args, requires=requires, ensures=ensures, definedness="P")


def lemmas():
    def fn(eng):
        p0, p1, q0, q1, c, s = [eng.fresh_real(n) for n in ("p0", "p1", "q0", "q1", "c", "s")]
        eng.assume(s.t > 0)
        out = [
            ("summand_symmetric", kterm(p0, p1, q0, q1, s) == kterm(q0, q1, p0, p1, s)),
            ("summand_zero_when_second_point_on_diagonal", kterm(p0, p1, q0, q0, s) == 0),
            ("summand_zero_when_first_point_on_diagonal", kterm(p0, p0, q0, q1, s) == 0),
            ("summand_invariant_under_diagonal_shift", kterm(p0 + c, p1 + c, q0 + c, q1 + c, s) == kterm(p0, p1, q0, q1, s)),
        ]
        return out
    return LemmaSet("C14.heat_summand_laws", fn)


def all_contracts(tier):
    cs = [eval_contract(), heat_contract(), lemmas(), eval_contract(("int", "int")), eval_contract(("int", "float"))]
    table = {(MOD, "evalHeatKernel"): cs[0]}
    return cs, table
