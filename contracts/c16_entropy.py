"""C16 - persistent entropy.

For every diagram D of the input (after dropping rows with death == inf, or replacing inf by val_inf):
    lengths l_i = d_i - b_i ;  raises Exception  iff  some l_i <= 0
    otherwise  E = - Sum_i (l_i / L) * log(l_i / L),  L = Sum_i l_i   [ / log n when normalize ]
The result is the vector of the E's in input order.  Sums are the recursively defined Sigma; the code's sums are
matched to the spec's by the Sigma-extensionality meta-rule (pointwise premises proved per path).
"""
import z3

from pyvc.arrays import Arr, fresh_symbolic
from pyvc.engine import Contract, LemmaSet
from pyvc.models import NP, SumInfo, sum_ext, sum_sign
from pyvc.values import Num, b_and, b_not, ite, lift, num_eq, to_z3, zb

MOD = "persim/persistent_entropy.py"


def spec_lengths(D, keep_inf, val_inf):
    """closure k -> length of the k-th retained bar of diagram D (an Arr), and number of bars, per the statement"""
    if not keep_inf:
        mask = D[:, 1] != float("inf")
        Dk = D[mask]                   # D6: order-preserving sub-array of the rows with finite death
        n = Dk.shape[0]
        return (lambda k: Dk.get(k, 1) - Dk.get(k, 0)), n, Dk
    n = D.shape[0]

    def ln(k):
        d = D.get(k, 1)
        d2 = ite(num_eq(d, float("inf")), val_inf, d)
        return d2 - D.get(k, 0)
    return ln, n, None


def entropy_contract(form, keep_inf, have_val, normalize):
    """form: 'single' (one array) or 'list2' (python list of two arrays)"""
    nd = 1 if form == "single" else 2

    def make_args(eng):
        ds = []
        for i in range(nd):
            n = eng.fresh_int("n%d" % i, lo=0)
            D = fresh_symbolic("D%d" % i, (n, 2), dtype="float", origin="param:dgms[%d]" % i, finite=False, eng=eng)
            ds.append(D)
        val_inf = eng.fresh_real("val_inf") if have_val else None
        g = {"ds": ds, "n_code_sums": 0}
        return {"dgms": ds[0] if form == "single" else list(ds), "keep_inf": keep_inf, "val_inf": val_inf,
                "normalize": normalize}, g

    def requires(a):
        out = []
        for i, D in enumerate(a.g["ds"]):
            # births finite; deaths finite or +inf
            n = D.shape[0]
            kb = D.kuf
            q = z3.Int("rq%d" % i)
            out.append(("births_finite_deaths_not_minus_inf_%d" % i,
                        z3.ForAll([q], z3.Implies(z3.And(q >= 0, q < to_z3(n)), z3.And(kb(q, 0) == 0, kb(q, 1) >= 0)))))
        if normalize and not (keep_inf and not have_val):
            # the statement speaks of the normalised variant for n >= 2 retained bars (log 1 = 0 divides 0 by 0)
            for i, D in enumerate(a.g["ds"]):
                _ln, n2, _ = spec_lengths(D, keep_inf, a.val_inf)
                out.append(("at_least_two_bars_%d" % i, lift(n2) >= 2))
        return out

    def spec(a):
        """per diagram: (all_positive truth value, entropy value builder)"""
        eng = a.eng
        out = []
        for D in a.g["ds"]:
            ln, n, Dk = spec_lengths(D, keep_inf, a.val_inf)
            out.append((ln, n))
        return out

    def raises(a):
        if keep_inf and not have_val:
            return [("keep_inf_without_value", "Exception", True)]
        eng = a.eng
        conds = []
        for (ln, n) in spec(a):
            conds.append(eng.exists(n, lambda k, ln=ln: lift(ln(k)) <= 0, name="rk"))
        return [("some_bar_nonpositive", "Exception", z3.Or(*conds))]

    def ensures(a, res):
        eng = a.eng
        out = []
        code_sums = list(eng.sums)
        if not isinstance(res, Arr):
            return [("result_is_array", False, "S")]
        out.append(("one_value_per_diagram", num_eq(res.shape[0], nd), "P"))
        for i, (ln, n) in enumerate(spec(a)):
            # on a normal return every length is positive (the raises clause covers the other direction)
            kq = eng.fresh_int("kq%d" % i, lo=0, hi=n)
            out.append(("all_lengths_positive_%d" % i, lift(ln(kq)) > 0, "P"))
            eng.assume(eng.forall(n, lambda k: lift(ln(k)) > 0, name="lp"))
            Ls = SumInfo(eng, n, ln, "SpecL%d" % i)
            L = Ls.total()
            term = lambda k, ln=ln, L=L: (ln(k) / L) * NP.log(ln(k) / L)
            sum_sign(eng, Ls, "spec_total_length_positive_%d" % i)
            Hs = SumInfo(eng, n, term, "SpecH%d" % i)
            # match the code's sums with the spec's (Sigma-extensionality), in creation order
            for cs in code_sums:
                if cs.matched:
                    continue
                for ss in (Ls, Hs):
                    if ss.matched:
                        continue
                    if eng.must(to_z3(cs.n) == to_z3(ss.n)):
                        if sum_ext(eng, cs, ss, "sum_ext_%d_%s" % (i, "L" if ss is Ls else "H")):
                            cs.matched = ss.matched = True
                            break
            E = -Hs.total()
            if normalize:
                E = E / NP.log(n)
            out.append(("entropy_%d_is_shannon_entropy_of_normalised_lengths" % i, lift(res.get(i)) == E, "P"))
        return out

    def hint_L(st):
        info = st.eng.sums[-1]
        sum_sign(st.eng, info, "total_length_positive")
        return []

    return Contract(MOD, "persistent_entropy", make_args, requires=requires, ensures=ensures, raises=raises, definedness="P",
                    hints=[("L = np.sum(l)", hint_L)],
                    variant="%s,keep_inf=%s,val_inf=%s,normalize=%s" % (form, keep_inf, "x" if have_val else "None", normalize))


def lemmas():
    def fn(eng):
        l, L, c, lam = [eng.fresh_real(n) for n in ("l", "L", "c", "lam")]
        b, d = eng.fresh_real("b"), eng.fresh_real("d")
        eng.assume(z3.And(l.t > 0, L.t > 0, lam.t > 0))
        return [
            ("length_invariant_under_translation", (d + c) - (b + c) == d - b),
            ("normalised_length_invariant_under_scaling", (lam * l) / (lam * L) == l / L),
        ]
    return LemmaSet("C16.entropy_invariances", fn)


def all_contracts(tier):
    cs = []
    for form in ("single", "list2"):
        for keep_inf in (False, True):
            for have_val in (False, True):
                for normalize in (False, True):
                    if form == "list2" and (normalize != keep_inf) and tier == "quick":
                        continue       # quick: half of the list variants
                    cs.append(entropy_contract(form, keep_inf, have_val, normalize))
    cs.append(lemmas())
    return cs, {}
