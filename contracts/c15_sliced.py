"""C15 - sliced Wasserstein.

sw(PD1, PD2, M) == (1/M) * Sum_{i<M} || sort(V1_i) - sort(V2_i) ||_1
   V1_i = <theta_i, PD1> ++ <theta_i, Delta(PD2)>,  V2_i = <theta_i, PD2> ++ <theta_i, Delta(PD1)>
   Delta(b, d) = ((b+d)/2, (b+d)/2)          (orthogonal projection onto the diagonal)
   theta_i = (cos((1/2 + i/M) pi), sin((1/2 + i/M) pi))
"""
import z3

from pyvc.arrays import SymSeq
from pyvc.engine import Contract, LemmaSet, LoopContract
from pyvc.models import NP, m_cityblock, pi_value, _sorted
from pyvc.values import Num, lift, num_div, to_real, to_z3
from specs.sigma import Sigma
from .common import sym_diagram

MOD = "persim/sliced_wasserstein.py"


def spec_cb(eng, PD1, PD2, n1, n2, theta):
    """|| sort(V1) - sort(V2) ||_1 for direction angle theta*pi, from the statement"""
    c, s = NP.cos(theta * pi_value()), NP.sin(theta * pi_value())

    def proj(P):
        return lambda k: c * P.get(k, 0) + s * P.get(k, 1)

    def dproj(P):
        return lambda k: c * ((P.get(k, 0) + P.get(k, 1)) / 2) + s * ((P.get(k, 0) + P.get(k, 1)) / 2)
    V1 = SymSeq(n1, proj(PD1)) + SymSeq(n2, dproj(PD2))
    V2 = SymSeq(n2, proj(PD2)) + SymSeq(n1, dproj(PD1))
    return m_cityblock(_sorted(V1), _sorted(V2))


def sw_contract(dtypes=("float", "float")):
    def make_args(eng):
        PD1, n1 = sym_diagram(eng, "PD1", dtype=dtypes[0])
        PD2, n2 = sym_diagram(eng, "PD2", dtype=dtypes[1])
        M = eng.fresh_int("M", lo=1)
        CB = z3.Function("CBspec", z3.IntSort(), z3.RealSort())
        g = {"n1": n1, "n2": n2, "M": M, "CB": CB, "PD1": PD1, "PD2": PD2}
        g["sigma"] = Sigma(eng, "SWsum", 0, lambda i: Num(CB(to_z3(i))))
        return {"PD1": PD1, "PD2": PD2, "M": M}, g

    def define_cb(st, i):
        """instance of the definition  CBspec(i) := spec_cb(theta_i)"""
        g = st.g
        theta = 0.5 + i * num_div(1.0, g["M"])
        v = spec_cb(st.eng, g["PD1"], g["PD2"], g["n1"], g["n2"], theta)
        st.eng.assume(g["CB"](to_z3(i)) == to_real(to_z3(lift(v))))

    def inv(st):
        g = st.g
        step = num_div(1.0, g["M"])
        if not isinstance(st.k, int):
            kprev = st.k - 1
            g["sigma"].unfold(kprev)
            if st.eng.in_preserve:
                pass
            else:
                define_cb(st, st.k)       # arbitrary iteration k: make the spec's value for this k available first
        return [("sum", lift(st.sw) == step * g["sigma"].upto(st.k), "P"),
                ("theta", lift(st.theta) == 0.5 + st.k * step, "P"),
                ("step", lift(st.step) == step, "S")]

    def ensures(a, res):
        g = a.g
        return [("sw_is_average_of_sorted_L1_costs", lift(res) == num_div(1.0, g["M"]) * g["sigma"].upto(g["M"]), "P")]

    def hint_delta(st):
        # PD_delta[k] is the diagonal projection ((b+d)/2, (b+d)/2) of the k-th point
        e, g = st.eng, st.g
        out = []
        for name, P, n in (("PD_delta1", g["PD1"], g["n1"]), ("PD_delta2", g["PD2"], g["n2"])):
            if not st.env.has(name):
                continue
            k = e.fresh_int("kd_" + name, lo=0, hi=n)
            el = st.env.lookup(name).get(k)
            mid = (P.get(k, 0) + P.get(k, 1)) / 2
            out.append(("%s_is_diagonal_projection_x" % name, lift(el[0]) == mid, "P"))
            out.append(("%s_is_diagonal_projection_y" % name, lift(el[1]) == mid, "P"))
            # proved for an arbitrary k: continue with the (linear) spec form of the list
            def repl(name=name, P=P, n=n):
                st.env.set(name, SymSeq(n, lambda k: [(P.get(k, 0) + P.get(k, 1)) / 2, (P.get(k, 0) + P.get(k, 1)) / 2]))
            out.append(("then", repl))
        return out

    return Contract(MOD, "sliced_wasserstein", make_args, ensures=ensures, definedness="P",
                    loops={0: LoopContract("for i in", inv, cls="P")},
                    hints=[("PD_delta2 = ", hint_delta)], variant="" if dtypes == ("float", "float") else "dtypes=%s,%s" % dtypes)


def all_contracts(tier):
    return [sw_contract(), sw_contract(("int", "int"))], {}
