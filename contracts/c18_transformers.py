"""C18 - transformers.

PersistenceLandscaper.fit(X):   start == (value the user fixed, else min birth of X[hom_deg]);  stop likewise with max death;
                                 nothing else changes.  (Ghost flags user_start / user_stop = "constructor argument was not None".)
PersistenceImager.fit:          the post-state is a function of (data, pixel_size) only: two well-formed pre-states with the same
                                 pixel size end in equal ranges / resolution / width / height   (relational, script contract)
PersistenceImager.fit_transform(X) == the state and images of fit(X); transform(X) on a private deep copy
"""
import z3

from pyvc.arrays import Arr, fresh_symbolic
from pyvc.engine import Contract, Obj
from pyvc.models import pointwise_equal
from pyvc.values import Num, b_and, ite, lift, to_z3, zb
from .c04_images import ImgResult, table as img_table, transform_summary, user_kernel, user_weight
from .c12_imager import CLS, get_cls, make_wf_object
from .common import sym_diagram

XMOD = "persim/landscapes/transformer.py"
IMOD = "persim/images.py"


def landscaper_fit_contract(pre):
    """pre: 'fresh' (start/stop None), 'user_start', 'user_stop', 'user_both', 'refit' (learned by an earlier fit, not user-fixed)"""
    def make_args(eng):
        cls = eng.module(XMOD).lookup("PersistenceLandscaper")
        o = Obj(cls=cls)
        s0, t0 = eng.fresh_real("start0"), eng.fresh_real("stop0")
        user_start = pre in ("user_start", "user_both")
        user_stop = pre in ("user_stop", "user_both")
        start = s0 if (user_start or pre == "refit") else None
        stop = t0 if (user_stop or pre == "refit") else None
        o.fields.update({"hom_deg": 0, "start": start, "stop": stop, "num_steps": 500, "flatten": False})
        D, n = sym_diagram(eng, "X0", lo=1)
        return {"self": o, "X": [D]}, {"o": o, "D": D, "n": n, "user_start": user_start, "user_stop": user_stop, "s0": s0, "t0": t0, "old": dict(o.fields)}

    def ensures(a, res):
        e, g = a.eng, a.g
        f = g["o"].fields
        D, n = g["D"], g["n"]
        out = [("returns_self", res is g["o"], "P"),
               ("only_start_and_stop_may_change", all(f[k] is g["old"][k] for k in ("hom_deg", "num_steps", "flatten")) and set(f) == set(g["old"]), "P")]
        k = e.fresh_int("kq", lo=0, hi=n)
        w = e.fresh_int("wq", lo=0, hi=n)
        if g["user_start"]:
            out.append(("user_fixed_start_kept", f["start"] is g["s0"], "P"))
        else:
            ok = f["start"] is not None and not isinstance(f["start"], str)
            out.append(("start_learned", ok, "P"))
            if ok:
                out.append(("start_is_min_birth_of_this_fit:bounds_all", lift(f["start"]) <= D.get(k, 0), "P"))
                out.append(("start_is_min_birth_of_this_fit:attained", e.exists(n, lambda q: lift(f["start"]) == D.get(q, 0), name="ws"), "P"))
        if g["user_stop"]:
            out.append(("user_fixed_stop_kept", f["stop"] is g["t0"], "P"))
        else:
            ok = f["stop"] is not None
            out.append(("stop_learned", ok, "P"))
            if ok:
                out.append(("stop_is_max_death_of_this_fit:bounds_all", lift(f["stop"]) >= D.get(k, 1), "P"))
                out.append(("stop_is_max_death_of_this_fit:attained", e.exists(n, lambda q: lift(f["stop"]) == D.get(q, 1), name="wt"), "P"))
        return out
    return Contract(XMOD, "PersistenceLandscaper.fit", make_args, ensures=ensures, definedness="P", variant=pre)


def imager_fit_relational(extent="positive"):
    """two pre-states, same pixel size, same data -> same post-state.
    extent='positive': the data span a positive extent on both axes (C12's domain); extent='any': no such assumption -
    data tied along an axis (equal births, equal persistences, a single point) must be forgotten/learned like any other."""
    def make_args(eng):
        o1 = make_wf_object(eng, get_cls(eng))
        ps = o1.fields["_pixel_size"]
        # second pre-state: different ranges / resolution, same pixel size
        rb, rp = eng.fresh_int("rb2", lo=1), eng.fresh_int("rp2", lo=1)
        b0, p0 = eng.fresh_real("b02"), eng.fresh_real("p02")
        o2 = Obj(cls=get_cls(eng))
        o2.fields.update({"_pixel_size": ps, "_resolution": (rb, rp), "_width": rb * ps, "_height": rp * ps,
                          "_birth_range": (b0, b0 + rb * ps), "_pers_range": (p0, p0 + rp * ps),
                          "_bpnts": Arr((rb + 1,), lambda idx: b0 + idx[0] * ps, dtype="float"),
                          "_ppnts": Arr((rp + 1,), lambda idx: p0 + idx[0] * ps, dtype="float"),
                          "weight": None, "kernel": None, "weight_params": {}, "kernel_params": {}})
        D, n = sym_diagram(eng, "D", lo=1)
        if extent == "positive":
            i1, i2, j1, j2 = [eng.fresh_int(nm, lo=0, hi=n) for nm in ("wi1", "wi2", "wj1", "wj2")]
            eng.assume(zb(lift(D.get(i1, 0)) < D.get(i2, 0)))
            eng.assume(zb(lift(D.get(j1, 1) - D.get(j1, 0)) < (D.get(j2, 1) - D.get(j2, 0))))
        return {"o1": o1, "o2": o2, "D": D}, {"o1": o1, "o2": o2}

    def script(eng, a):
        fit = eng.module(IMOD).find_function(CLS + ".fit")
        eng.call(fit, [a.o1, a.D], {})
        eng.call(fit, [a.o2, a.D], {})
        return None

    def ensures(a, res):
        f1, f2 = a.g["o1"].fields, a.g["o2"].fields
        out = []
        for k in ("_birth_range", "_pers_range", "_resolution"):
            out.append(("same_%s_whatever_the_earlier_state" % k.strip("_"), b_and(lift(f1[k][0]) == f2[k][0], lift(f1[k][1]) == f2[k][1]), "P"))
        for k in ("_width", "_height", "_pixel_size"):
            out.append(("same_%s_whatever_the_earlier_state" % k.strip("_"), lift(f1[k]) == f2[k], "P"))
        e = a.eng
        kb = e.fresh_int("kb", lo=0, hi=lift(f1["_resolution"][0]) + 1)
        out.append(("same_birth_mesh", lift(f1["_bpnts"].get(kb)) == f2["_bpnts"].get(kb), "P"))
        kp = e.fresh_int("kp", lo=0, hi=lift(f1["_resolution"][1]) + 1)
        out.append(("same_pers_mesh", lift(f1["_ppnts"].get(kp)) == f2["_ppnts"].get(kp), "P"))
        return out
    return Contract(IMOD, CLS + ".fit", make_args, ensures=ensures, definedness="P", script=script, variant="relational:two-pre-states,extent=%s" % extent)


def fit_transform_contract(skew="default"):
    """fit_transform(X[, skew]) leaves the same state and returns the same images as fit(X[, skew]) followed by transform(X[, skew])"""
    kw = {} if skew == "default" else {"skew": skew}

    def make_args(eng):
        def mk():
            o = make_wf_object(eng, get_cls(eng))
            return o
        o1 = mk()
        o2 = Obj(cls=get_cls(eng))
        o2.fields.update(dict(o1.fields))
        for o in (o1, o2):
            o.fields.update({"weight": user_weight, "kernel": user_kernel, "weight_params": {"wp": 1}, "kernel_params": {"kp": 2}})
        D, n = sym_diagram(eng, "D", lo=1)
        i1, i2, j1, j2 = [eng.fresh_int(nm, lo=0, hi=n) for nm in ("wi1", "wi2", "wj1", "wj2")]
        pers = (lambda k: D.get(k, 1)) if skew is False else (lambda k: D.get(k, 1) - D.get(k, 0))
        eng.assume(zb(lift(D.get(i1, 0)) < D.get(i2, 0)))
        eng.assume(zb(lift(pers(j1)) < pers(j2)))
        return {"o1": o1, "o2": o2, "D": D}, {"o1": o1, "o2": o2, "D": D, "n": n}

    def script(eng, a):
        m = eng.module(IMOD)
        r1 = eng.call(m.find_function(CLS + ".fit_transform"), [a.o1, a.D], dict(kw))
        eng.call(m.find_function(CLS + ".fit"), [a.o2, a.D], dict(kw))
        r2 = eng.call(m.find_function(CLS + ".transform"), [a.o2, a.D], dict(kw))
        return (r1, r2)

    def ensures(a, res):
        e, g = a.eng, a.g
        r1, r2 = res
        f1, f2 = g["o1"].fields, g["o2"].fields
        out = []
        for k in ("_birth_range", "_pers_range", "_resolution"):
            out.append(("same_state_%s" % k.strip("_"), b_and(lift(f1[k][0]) == f2[k][0], lift(f1[k][1]) == f2[k][1]), "P"))
        ok = isinstance(r1, ImgResult) and isinstance(r2, ImgResult)
        out.append(("both_return_one_image_from__transform", ok, "P"))
        if ok:
            b1, b2 = r1.bound, r2.bound
            for k in ("skew", "weight", "weight_params", "kernel", "kernel_params"):
                out.append(("same_%s" % k, b1[k] is b2[k] or b1[k] == b2[k], "P"))
            out.append(("same_resolution", b_and(lift(b1["resolution"][0]) == b2["resolution"][0], lift(b1["resolution"][1]) == b2["resolution"][1]), "P"))
            k = e.fresh_int("kd", lo=0, hi=g["n"])
            out.append(("same_diagram_contents", b_and(lift(b1["pers_dgm"].get(k, 0)) == b2["pers_dgm"].get(k, 0), lift(b1["pers_dgm"].get(k, 1)) == b2["pers_dgm"].get(k, 1)), "P"))
            out.append(("caller_diagram_not_the_object_transformed_in_place", b2["pers_dgm"] is g["D"], "S"))
            kb = e.fresh_int("kb", lo=0, hi=lift(f1["_resolution"][0]) + 1)
            out.append(("same_birth_corners", lift(b1["_bpnts"].get(kb)) == b2["_bpnts"].get(kb), "P"))
        return out
    return Contract(IMOD, CLS + ".fit_transform", make_args, ensures=ensures, definedness="P", script=script, variant="vs fit;transform,skew=%s" % skew)


def all_contracts(tier):
    cs = [landscaper_fit_contract(p) for p in ("fresh", "user_start", "user_stop", "user_both", "refit")] + [imager_fit_relational("positive"), imager_fit_relational("any")] + [fit_transform_contract(k) for k in ("default", True, False)]
    t = img_table()
    t[(IMOD, "_transform")] = Contract(IMOD, "_transform", None, summary=transform_summary)
    return cs, t
