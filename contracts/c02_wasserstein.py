"""C02 / C06 / C07 - persim.wasserstein.wasserstein

  filter   as in bottleneck (same code): S, T = finite-death rows or [[0,0]]
  matrix   forall i,j < M+N.  D[i,j] == cost_2(S,T)(i,j):  Euclidean distance / (d-b)/sqrt(2) / +inf / 0
  value    matchdist == sum_i D[i, col(i)] for the assignment returned by linear_sum_assignment (D4) == MINSUM(D)
  matching (C06) rows from (arange, col), -1 convention, diagonal-diagonal rows dropped, sum of costs == matchdist
"""
import z3

from pyvc.arrays import Arr, fresh_symbolic
from pyvc.engine import Contract
from pyvc.models import NP, e_sum, sum_compress
from pyvc.values import Num, b_and, b_implies, b_not, b_or, ite, lift, mkbool, num_eq, to_z3, zb, cur
from .c01_bottleneck import INF, input_requires, make_cut_filter, sym_input

MOD = "persim/wasserstein.py"


def cost_2(S, T, M, N, i, j):
    e = cur()

    def pp():
        dx, dy = S.get(i, 0) - T.get(j, 0), S.get(i, 1) - T.get(j, 1)
        return NP.sqrt(dx * dx + dy * dy)

    def sdiag():
        return ite(num_eq(j - N, i), (S.get(i, 1) - S.get(i, 0)) / NP.sqrt(2.0), INF)

    def tdiag():
        return ite(num_eq(i - M, j), (T.get(j, 1) - T.get(j, 0)) / NP.sqrt(2.0), INF)
    ci, cj = zb(lift(i) < M), zb(lift(j) < N)
    a = e.under(z3.And(ci, cj), pp, default=0.0)
    b = e.under(z3.And(ci, z3.Not(cj)), sdiag, default=0.0)
    c = e.under(z3.And(z3.Not(ci), cj), tdiag, default=0.0)
    return ite(mkbool(ci), ite(mkbool(cj), a, b), ite(mkbool(cj), c, 0.0))


def wasserstein_contract(want_matching, dtype="float"):
    def make_args(eng):
        d1, n1 = sym_input(eng, "dgm1", dtype)
        d2, n2 = sym_input(eng, "dgm2", dtype)
        return {"dgm1": d1, "dgm2": d2, "matching": want_matching}, {"n1": n1, "n2": n2}

    cut_filter = make_cut_filter()

    def cut_matrix(st):
        e, g = st.eng, st.g
        M, N = st.M, st.N
        S0, T0 = g["S_in"], g["T_in"]
        i = e.fresh_int("mi", lo=0, hi=M + N)
        j = e.fresh_int("mj", lo=0, hi=M + N)
        out = [("D_is_square_of_size_M_plus_N", b_and(lift(st.D.shape[0]) == M + N, lift(st.D.shape[1]) == M + N), "P"),
               ("D_is_augmented_L2_cost_matrix", lift(st.D.get(i, j)) == cost_2(S0, T0, M, N, i, j), "P")]

        def make(st2):
            D = Arr((M + N, M + N), lambda idx: cost_2(S0, T0, M, N, idx[0], idx[1]), dtype="float")
            st2.g["D"] = D
            st2.g["M_"], st2.g["N_"] = M, N
            return {"env": {"D": D, "M": M, "N": N, "matching": st2.env.lookup("matching")}, "assume": [z3.And(to_z3(M) >= 1, to_z3(N) >= 1)]}
        return {"ob": out, "make": make}

    def hint_capture(st):
        # first statement after the filter cut: remember the (abstract) filtered diagrams before they are rotated
        st.g["S_in"], st.g["T_in"] = st.S, st.T
        return []

    def ensures(a, res):
        e, g = a.eng, a.g
        if "lsa" not in g:
            return [("assignment_solver_called", False, "S")]
        val = res[0] if want_matching else res
        out = [("value_is_cost_of_optimal_assignment_on_D", lift(val) == g["lsa"]["minsum"], "P")]
        if want_matching:
            out += matching_post(a, res[1], val)
        return out

    def matching_post(a, R, val):
        e, g = a.eng, a.g
        T6 = ("only:C06",)
        info = getattr(R, "compress", None)
        if info is None or R.ndim != 2:
            return [("rows_are_a_selection_of_the_assignment", False, "P", T6)]
        lsa, D, M, N = g["lsa"], g["D"], g["M_"], g["N_"]
        n = lsa["n"]
        perm, inv = lsa["perm"], lsa["inv"]

        def col(i):
            it = to_z3(i)
            j = perm(it)
            e.axiom(z3.Implies(z3.And(it >= 0, it < to_z3(n)), z3.And(j >= 0, j < to_z3(n), inv(j) == it)))
            return Num(j)
        out = [("matching_has_three_columns", R.shape[1] == 3, "P", T6)]
        keep = lambda i: b_not(b_and(lift(i) >= M, lift(col(i)) >= N))     # diagonal-diagonal pairs are dropped
        i = e.fresh_int("pi", lo=0, hi=M)
        r = e.fresh_int("pr", lo=0, hi=info.n)
        src_r = info.at(r)
        out.append(("dropped_rows_are_exactly_diagonal_to_diagonal", zb(info.mask_fn(src_r)) == zb(keep(src_r)), "P", T6))
        k = e.fresh_int("pk", lo=0, hi=n)
        out.append(("selection_mask_is_not_diagonal_to_diagonal", zb(info.mask_fn(k)) == zb(keep(k)), "P", T6))
        ri = info.rank_of(i)
        out.append(("each_dgm1_point_has_a_row", b_and(lift(ri) >= 0, lift(ri) < info.n, lift(R.get(ri, 0)) == i), "P", T6))
        out.append(("each_dgm1_point_has_one_row_only", b_implies(lift(R.get(r, 0)) == i, lift(r) == ri), "P", T6))
        j = e.fresh_int("pj", lo=0, hi=N)
        jt = to_z3(j)
        srcj = Num(inv(jt))
        e.axiom(z3.Implies(z3.And(jt >= 0, jt < to_z3(n)), z3.And(inv(jt) >= 0, inv(jt) < to_z3(n), perm(inv(jt)) == jt)))
        rj = info.rank_of(srcj)
        out.append(("each_dgm2_point_has_a_row", b_and(lift(rj) >= 0, lift(rj) < info.n, lift(R.get(rj, 1)) == j), "P", T6))
        out.append(("each_dgm2_point_has_one_row_only", b_implies(lift(R.get(r, 1)) == j, lift(r) == rj), "P", T6))
        out.append(("row_first_index_is_point_or_minus_one", lift(R.get(r, 0)) == ite(lift(src_r) < M, src_r, -1), "P", T6))
        out.append(("row_second_index_is_point_or_minus_one", lift(R.get(r, 1)) == ite(lift(col(src_r)) < N, col(src_r), -1), "P", T6))
        out.append(("row_cost_is_cost_matrix_entry_of_the_pair", lift(R.get(r, 2)) == D.get(src_r, col(src_r)), "P", T6))
        # sum of the row costs == reported distance (Sigma-compress + Sigma-extensionality; dropped pairs cost 0)
        f_src = lambda ii: D.get(ii, col(ii))
        rows_sum, ind_sum = sum_compress(e, info, f_src, lambda rr: R.get(rr, 2), "row_cost_sum")
        out.append(("sum_of_row_costs_is_the_distance", lift(rows_sum) == val, "P", T6))
        return out

    return Contract(MOD, "wasserstein", make_args, requires=input_requires, ensures=ensures, definedness="P",
                    variant="matching=%s%s" % (want_matching, "" if dtype == "float" else ",dtype=" + dtype),
                    cuts=[("DUL = ", cut_filter),
                          ("matchi, matchj = optimize.linear_sum_assignment(D)", cut_matrix)],
                    hints=[("DUL = ", hint_capture)])


def all_contracts(tier):
    return [wasserstein_contract(False), wasserstein_contract(True), wasserstein_contract(False, "int"), wasserstein_contract(True, "int"),
            # an empty diagram handed over as [] / np.array([]) (shape (0,)) on either side
            wasserstein_contract(False, "empty1d:dgm2"), wasserstein_contract(True, "empty1d:dgm1")], {}
