"""C02 / C06 / C07 - persim.wasserstein.wasserstein

  filter   as in bottleneck (same code): S, T = finite-death rows or [[0,0]]
  matrix   forall i,j < M+N.  D[i,j] == cost_2(S,T)(i,j):  Euclidean distance / (d-b)/sqrt(2) / +inf / 0
  value    matchdist == sum_i D[i, col(i)] for the assignment returned by linear_sum_assignment (D4) == MINSUM(D)
  matching (C06) rows from (arange, col), -1 convention, diagonal-diagonal rows dropped, sum of costs == matchdist
"""
import z3

from pyvc.arrays import Arr, fresh_symbolic
from pyvc.engine import Contract
from pyvc.models import NP
from pyvc.values import Num, b_and, b_not, ite, lift, mkbool, num_eq, to_z3, zb, cur
from .c01_bottleneck import INF, input_requires, make_cut_filter, sym_input

MOD = "persim/wasserstein.py"


def cost_2(S, T, M, N, i, j):
    e = cur()

    def pp():
        dx, dy = S.get(i, 0) - T.get(j, 0), S.get(i, 1) - T.get(j, 1)
        return NP.sqrt(dx * dx + dy * dy)

    def sdiag():
        return ite(num_eq(j - N, i), (S.get(i, 1) - S.get(i, 0)) / NP.sqrt(2.0), INF)

    def tdiag():
        return ite(num_eq(i - M, j), (T.get(j, 1) - T.get(j, 0)) / NP.sqrt(2.0), INF)
    ci, cj = zb(lift(i) < M), zb(lift(j) < N)
    a = e.under(z3.And(ci, cj), pp)
    b = e.under(z3.And(ci, z3.Not(cj)), sdiag)
    c = e.under(z3.And(z3.Not(ci), cj), tdiag)
    return ite(mkbool(ci), ite(mkbool(cj), a, b), ite(mkbool(cj), c, 0.0))


def wasserstein_contract(want_matching):
    def make_args(eng):
        d1, n1 = sym_input(eng, "dgm1")
        d2, n2 = sym_input(eng, "dgm2")
        return {"dgm1": d1, "dgm2": d2, "matching": want_matching}, {"n1": n1, "n2": n2}

    cut_filter = make_cut_filter()

    def cut_matrix(st):
        e, g = st.eng, st.g
        M, N = st.M, st.N
        S0, T0 = g["S_in"], g["T_in"]
        i = e.fresh_int("mi", lo=0, hi=M + N)
        j = e.fresh_int("mj", lo=0, hi=M + N)
        out = [("D_is_square_of_size_M_plus_N", b_and(lift(st.D.shape[0]) == M + N, lift(st.D.shape[1]) == M + N), "P"),
               ("D_is_augmented_L2_cost_matrix", lift(st.D.get(i, j)) == cost_2(S0, T0, M, N, i, j), "P")]

        def make(st2):
            D = Arr((M + N, M + N), lambda idx: cost_2(S0, T0, M, N, idx[0], idx[1]), dtype="float")
            st2.g["D"] = D
            return {"env": {"D": D, "M": M, "N": N}, "assume": [z3.And(to_z3(M) >= 1, to_z3(N) >= 1)]}
        return {"ob": out, "make": make}

    def hint_capture(st):
        # first statement after the filter cut: remember the (abstract) filtered diagrams before they are rotated
        st.g["S_in"], st.g["T_in"] = st.S, st.T
        return []

    def ensures(a, res):
        e, g = a.eng, a.g
        if "lsa" not in g:
            return [("assignment_solver_called", False, "P")]
        val = res[0] if want_matching else res
        return [("value_is_cost_of_optimal_assignment_on_D", lift(val) == g["lsa"]["minsum"], "P")]

    return Contract(MOD, "wasserstein", make_args, requires=input_requires, ensures=ensures, definedness="P",
                    variant="matching=%s" % want_matching,
                    cuts=[("DUL = metrics.pairwise.pairwise_distances(S, T)", cut_filter),
                          ("matchi, matchj = optimize.linear_sum_assignment(D)", cut_matrix)],
                    hints=[("DUL = metrics.pairwise.pairwise_distances(S, T)", hint_capture)])


def all_contracts(tier):
    return [wasserstein_contract(False)], {}
