"""C03 (deductive part): the constructors select the diagram of the requested homological degree.

PersLandscapeExact.__init__(dgms, hom_deg, critical_pairs, compute):
    self.dgms is dgms[hom_deg]  (the very object, whatever the other degrees hold - empty ones included), self.hom_deg == hom_deg,
    critical_pairs stored as given, compute_landscape run exactly once iff compute;  both-empty is rejected with ValueError.
The sweep itself (compute_landscape) is not within reach of the VC generator (DESIGN C03): it is summarised here and decided
bounded-symbolically by E2 in props/C03.py.
"""
from pyvc.engine import Contract, Obj
from .common import sym_diagram

EMOD = "persim/landscapes/exact.py"


def compute_summary(eng, pos, kw):
    o = pos[0]
    eng.ghost.setdefault("compute_calls", []).append(o.fields.get("dgms"))
    return None


def exact_init_contract(m, h, compute):
    def make_args(eng):
        o = Obj(cls=eng.module(EMOD).lookup("PersLandscapeExact"))
        ds = [sym_diagram(eng, "dgm%d" % i)[0] for i in range(m)]       # any number of bars per degree, zero included
        lst = list(ds)
        cp = []
        return {"self": o, "dgms": lst, "hom_deg": h, "critical_pairs": cp, "compute": compute}, {"o": o, "ds": ds, "lst": lst, "cp": cp}

    def ensures(a, res):
        g = a.g
        f = g["o"].fields
        calls = a.eng.ghost.get("compute_calls", [])
        return [("diagram_of_requested_degree_selected", f.get("dgms") is g["ds"][h], "P"),
                ("degree_recorded", f.get("hom_deg") == h, "P"),
                ("critical_pairs_stored_as_given", f.get("critical_pairs") is g["cp"], "P"),
                ("callers_list_of_diagrams_untouched", len(g["lst"]) == m and all(x is y for x, y in zip(g["lst"], g["ds"])), "P"),
                ("landscape_computed_iff_requested", len(calls) == (1 if compute else 0) and all(c is g["ds"][h] for c in calls), "P")]
    return Contract(EMOD, "PersLandscapeExact.__init__", make_args, ensures=ensures, definedness="P", variant="degrees=%d,hom_deg=%d,compute=%s" % (m, h, compute))


def exact_init_rejects_empty():
    def make_args(eng):
        o = Obj(cls=eng.module(EMOD).lookup("PersLandscapeExact"))
        return {"self": o, "dgms": [], "hom_deg": 0, "critical_pairs": [], "compute": True}, {"o": o}

    def raises(a):
        return [("both_empty_rejected", "ValueError", True)]
    return Contract(EMOD, "PersLandscapeExact.__init__", make_args, raises=raises, definedness="P", variant="both-empty")


def all_contracts(tier):
    cs = [exact_init_contract(m, h, c) for m in (1, 2, 3) for h in range(m) for c in ((True, False) if m == 3 else (True,))] + [exact_init_rejects_empty()]
    table = {(EMOD, "PersLandscapeExact.compute_landscape"): Contract(EMOD, "PersLandscapeExact.compute_landscape", None, summary=compute_summary)}
    return cs, table
