"""C03 (deductive part): the constructors select the diagram of the requested homological degree.

PersLandscapeExact.__init__(dgms, hom_deg, critical_pairs, compute):
    self.dgms is dgms[hom_deg]  (the very object, whatever the other degrees hold - empty ones included), self.hom_deg == hom_deg,
    critical_pairs stored as given, compute_landscape run exactly once iff compute;  both-empty is rejected with ValueError.
The sweep itself (compute_landscape) is not within reach of the VC generator (DESIGN C03): it is summarised here and decided
bounded-symbolically by E2 in props/C03.py.
"""
from pyvc.engine import Contract, Obj
from .common import sym_diagram

EMOD = "persim/landscapes/exact.py"


def compute_summary(eng, pos, kw):
    o = pos[0]
    eng.ghost.setdefault("compute_calls", []).append(o.fields.get("dgms"))
    return None


def exact_init_contract(m, h, compute):
    def make_args(eng):
        o = Obj(cls=eng.module(EMOD).lookup("PersLandscapeExact"))
        ds = [sym_diagram(eng, "dgm%d" % i)[0] for i in range(m)]       # any number of bars per degree, zero included
        lst = list(ds)
        cp = []
        return {"self": o, "dgms": lst, "hom_deg": h, "critical_pairs": cp, "compute": compute}, {"o": o, "ds": ds, "lst": lst, "cp": cp}

    def ensures(a, res):
        g = a.g
        f = g["o"].fields
        calls = a.eng.ghost.get("compute_calls", [])
        return [("diagram_of_requested_degree_selected", f.get("dgms") is g["ds"][h], "P"),
                ("degree_recorded", f.get("hom_deg") == h, "P"),
                ("critical_pairs_stored_as_given", f.get("critical_pairs") is g["cp"], "P"),
                ("callers_list_of_diagrams_untouched", len(g["lst"]) == m and all(x is y for x, y in zip(g["lst"], g["ds"])), "P"),
                ("landscape_computed_iff_requested", len(calls) == (1 if compute else 0) and all(c is g["ds"][h] for c in calls), "P")]
    return Contract(EMOD, "PersLandscapeExact.__init__", make_args, ensures=ensures, definedness="P", variant="degrees=%d,hom_deg=%d,compute=%s" % (m, h, compute))


def exact_init_rejects_empty():
    def make_args(eng):
        o = Obj(cls=eng.module(EMOD).lookup("PersLandscapeExact"))
        return {"self": o, "dgms": [], "hom_deg": 0, "critical_pairs": [], "compute": True}, {"o": o}

    def raises(a):
        return [("both_empty_rejected", "ValueError", True)]
    return Contract(EMOD, "PersLandscapeExact.__init__", make_args, raises=raises, definedness="P", variant="both-empty")


def all_contracts(tier):
    cs = [exact_init_contract(m, h, c) for m in (1, 2, 3) for h in range(m) for c in ((True, False) if m == 3 else (True,))] + [exact_init_rejects_empty()]
    table = {(EMOD, "PersLandscapeExact.compute_landscape"): Contract(EMOD, "PersLandscapeExact.compute_landscape", None, summary=compute_summary)}
    return cs, table


# ----------------------------------------------------------------------------- PersLandscapeApprox.__init__ (diagram selection and grid defaults)
AMOD = "persim/landscapes/approximate.py"


def approx_compute_summary(eng, pos, kw):
    o = pos[0]
    eng.ghost.setdefault("acompute_calls", []).append((o.fields.get("dgms"), o.fields.get("start"), o.fields.get("stop"), o.fields.get("num_steps")))
    return None


def approx_init_contract(m, h, given):
    """dgms passed: the diagram of degree h (finite bars only) is the one used; start / stop are the user's values when given, else
    the smallest birth / largest death of that diagram's finite bars; values / grid size stored; landscape computed once"""
    import z3
    from pyvc.values import Num, b_and, lift, to_z3, zb
    from pyvc.arrays import Arr

    def make_args(eng):
        o = Obj(cls=eng.module(AMOD).lookup("PersLandscapeApprox"))
        ds = [sym_diagram(eng, "dgm%d" % i, finite=False, lo=(1 if i == h else 0))[0] for i in range(m)]
        lst = list(ds)
        args = {"self": o, "dgms": lst, "hom_deg": h, "num_steps": eng.fresh_int("num_steps", lo=2)}
        args["start"] = eng.fresh_real("start_arg") if "start" in given else None
        args["stop"] = eng.fresh_real("stop_arg") if "stop" in given else None
        if "start" in given and "stop" in given:
            pass
        return args, {"o": o, "ds": ds, "lst": lst}

    def requires(a):
        # births are finite; the selected diagram keeps at least one bar of finite death (else min() of an empty sequence raises)
        D = a.g["ds"][h]
        e = a.eng
        n = D.shape[0]
        w = e.fresh_int("wfin", lo=0, hi=n)
        a.g["wfin"] = w
        i = z3.Int("rq_i")
        return [("births_finite", z3.ForAll([i], z3.Implies(z3.And(i >= 0, i < to_z3(n)), zb(lift(e.under(z3.And(i >= 0, i < to_z3(n)), lambda: D.get(Num(i), 0))).finite())))),
                ("some_bar_of_finite_death", lift(D.get(w, 1)).finite())]

    def hint_mask(st):
        # D6 facts of the finite-bar selection at the witness of the precondition: the selection is not empty
        info = getattr(st.self.fields.get("dgms"), "compress", None)
        if info is not None and "wfin" in st.g:
            info.rank_of(st.g["wfin"])
        return []

    def not_plus_inf(v):
        from pyvc import values as V
        v = lift(v)
        return BoolV_(V._kterm(v.k) != 1)

    def ensures(a, res):
        e, g = a.eng, a.g
        f = g["o"].fields
        D = g["ds"][h]
        used = f.get("dgms")
        out = [("degree_recorded", f.get("hom_deg") == h, "P"),
               ("grid_size_stored", f.get("num_steps") is a.num_steps, "P"),
               ("callers_list_of_diagrams_untouched", len(g["lst"]) == m and all(x is y for x, y in zip(g["lst"], g["ds"])), "P"),
               ("landscape_computed_once", len(e.ghost.get("acompute_calls", [])) == 1, "P")]
        if not (isinstance(used, Arr) and used.ndim == 2):
            return out + [("uses_a_diagram", False, "S")]
        # every bar used is a finite bar of dgms[h], and every finite bar of dgms[h] is used (mask compression D6)
        info = getattr(used, "compress", None)
        out.append(("bars_used_are_the_finite_bars_of_the_requested_degree", info is not None and info.base is D.buf if hasattr(info, "base") else info is not None, "S"))
        k = e.fresh_int("ku", lo=0, hi=used.shape[0])
        out.append(("no_bar_used_has_infinite_death", not_plus_inf(used.get(k, 1)), "P"))
        n = D.shape[0]
        q = e.fresh_int("kq", lo=0, hi=n)
        fin = b_and(not_plus_inf(D.get(q, 1)), not_plus_inf(D.get(q, 0)))
        if info is not None:
            e.under(zb(fin), lambda: info.rank_of(q), default=None)
        if "start" in given:
            out.append(("start_as_given", f.get("start") is a.start, "P"))
        else:
            out.append(("start_is_a_lower_bound_of_the_finite_bars_births", BoolV_(z3.Implies(zb(fin), zb(lift(f.get("start")) <= D.get(q, 0)))), "P"))
            out.append(("start_is_attained", e.exists(n, lambda t: b_and(not_plus_inf(D.get(t, 1)), lift(f.get("start")) == D.get(t, 0)), name="ws"), "P"))
        if "stop" in given:
            out.append(("stop_as_given", f.get("stop") is a.stop, "P"))
        else:
            out.append(("stop_is_an_upper_bound_of_the_finite_deaths", BoolV_(z3.Implies(zb(fin), zb(lift(f.get("stop")) >= D.get(q, 1)))), "P"))
            out.append(("stop_is_attained", e.exists(n, lambda t: b_and(not_plus_inf(D.get(t, 1)), lift(f.get("stop")) == D.get(t, 1)), name="wt"), "P"))
        return out
    return Contract(AMOD, "PersLandscapeApprox.__init__", make_args, requires=requires, ensures=ensures, definedness="P",
                    hints=[("self.dgms = self.dgms[~np.any(self.dgms == np.inf, axis=1)]", hint_mask)],
                    variant="degrees=%d,hom_deg=%d,given=%s" % (m, h, ",".join(given)))


def BoolV_(t):
    from pyvc.values import BoolV
    return BoolV(t)


def approx_ctor_contracts(tier):
    cs = [approx_init_contract(2, 1, ()), approx_init_contract(2, 0, ("start",)), approx_init_contract(1, 0, ("stop",)), approx_init_contract(3, 2, ("start", "stop"))]
    table = {(AMOD, "PersLandscapeApprox.compute_landscape"): Contract(AMOD, "PersLandscapeApprox.compute_landscape", None, summary=approx_compute_summary)}
    return cs, table
