"""C10 - contracts for the norm code.

_p_norm(p, critical_pairs): result == (Sum_depths Sum_segments seg_int(p, segment)) ** (1/p)
with seg_int the closed form of the integral of |y|^p over a linear segment (DESIGN section 4):
    flat      (y0 == y1):  |y0|^p * (x1 - x0)
    otherwise            :  (G(y1) - G(y0)) / slope,   G(y) = y*|y|^p / (p+1),  slope = (y1-y0)/(x1-x0)
The postcondition is taken from the property statement (integral of |f|^p), not from the code.
"""
import z3

from pyvc.engine import Contract, LoopContract
from pyvc.values import Num, b_and, ite, lift, num_div, num_pow, pow_uf, to_real, to_z3, zb
from pyvc.arrays import SymSeq
from specs.sigma import Sigma

MOD = "persim/landscapes/auxiliary.py"


def abs_pow(y, p):
    """|y|^p for concrete integer p (polynomial) or symbolic p (uninterpreted pow on the non-negative |y|)"""
    a = abs(lift(y))
    if isinstance(p, int):
        return num_pow(a, p)
    return Num(pow_uf()(to_real(a.t), to_real(to_z3(p))))


def G(y, p):
    return lift(y) * abs_pow(y, p) / (p + 1)


def seg_int(p, x0, y0, x1, y1):
    flat = abs_pow(y0, p) * (x1 - x0)
    # (x1-x0)/(y1-y0) * (G(y1) - G(y0)); guarded division (only used when y0 != y1)
    dy = lift(y1 - y0)
    safe = Num(z3.If(dy.t == 0, z3.RealVal(1), to_real(dy.t)))
    slanted = (G(y1, p) - G(y0, p)) * (x1 - x0) / safe
    return ite(lift(y0) == y1, flat, slanted)


def make_pairs(eng, tag="cp"):
    """critical_pairs: symbolic number of depths, each a symbolic-length list of [x, y] with reals x, y"""
    X = z3.Function("X_" + tag, z3.IntSort(), z3.IntSort(), z3.RealSort())
    Y = z3.Function("Y_" + tag, z3.IntSort(), z3.IntSort(), z3.RealSort())
    L = z3.Function("L_" + tag, z3.IntSort(), z3.IntSort())
    nd = eng.fresh_int("ndepths_" + tag, lo=0)

    def depth(d):
        dl = Num(L(to_z3(d)))
        eng.assume(dl.t >= 0)
        dz = to_z3(d)

        def elem(s):
            # precondition "abscissae strictly increasing", instantiated at the touched index (and its neighbours)
            sz = to_z3(s)
            eng.assume(z3.Implies(z3.And(sz >= 0, sz + 1 < dl.t), X(dz, sz) < X(dz, sz + 1)))
            eng.assume(z3.Implies(z3.And(sz >= 1, sz < dl.t), X(dz, sz - 1) < X(dz, sz)))
            return [Num(X(dz, sz)), Num(Y(dz, sz))]
        return SymSeq(dl, elem)
    cps = SymSeq(nd, depth)
    return cps, dict(X=X, Y=Y, L=L, nd=nd)


def nseg(g, d):
    l = Num(g["L"](to_z3(d)))
    return ite(l >= 1, l - 1, 0)


def p_norm_contract(p_kind):
    """p_kind: int 1..4 (polynomial obligations), 'int' (any integer p >= 1, abstract power) or 'real'"""

    def make_args(eng):
        cps, g = make_pairs(eng)
        if isinstance(p_kind, int):
            p = p_kind
        elif p_kind == "int":
            p = eng.fresh_int("p")
            eng.assume(p.t >= 1)
        else:
            p = eng.fresh_real("p")
            eng.assume(p.t >= 1)
        g["p"] = p
        X, Y = g["X"], g["Y"]

        def term(d, s):
            return seg_int(p, Num(X(to_z3(d), to_z3(s))), Num(Y(to_z3(d), to_z3(s))),
                           Num(X(to_z3(d), to_z3(s) + 1)), Num(Y(to_z3(d), to_z3(s) + 1)))
        g["inner"] = Sigma(eng, "Inner", 1, term)
        g["outer"] = Sigma(eng, "Outer", 0, lambda d: g["inner"].upto(d, nseg(g, d)))
        return {"p": p, "critical_pairs": cps}, g

    def requires(a):
        # abscissae strictly increasing inside every depth (well-formed piecewise-linear function):
        #   forall d, s.  s+1 < len(cp[d])  ->  x(d,s) < x(d,s+1)
        # supplied in instantiated form by make_pairs at every index the code touches (no quantifier
        # reaches the solver, so a counter-model of a segment obligation is a genuine one)
        return []

    def ensures(a, res):
        g = a.g
        total = g["outer"].upto(g["nd"])
        root = num_pow(total, num_div(1.0, g["p"]))
        return [("norm_is_root_of_sum_of_segment_integrals", lift(res) == root, "P")]

    def inv_outer(st):
        g = st.g
        if not isinstance(st.k, int):
            g["outer"].unfold(st.k - 1)
        return [("sum", lift(st.result) == g["outer"].upto(st.k), "P"),
                ("nonneg", lift(st.result) >= 0, "S")]

    def inv_inner(st):
        g = st.g
        kd = st.kof(0)
        if not isinstance(st.k, int):
            g["inner"].unfold(kd, st.k - 1)
            g["inner"].unfold(kd, st.k)
        X = g["X"]
        kt, dt = to_z3(st.k), to_z3(kd)
        return [("sum", lift(st.result) == g["outer"].upto(kd) + g["inner"].upto(kd, st.k), "P"),
                ("nonneg", lift(st.result) >= 0, "S"),
                ("outer_partial_nonneg", g["outer"].upto(kd) >= 0, "S")]

    def hints(st):
        # ghost lemmas: the line through (x0,y0),(x1,y1) evaluated at x0, x1 and at its root
        out = [("line_at_x1", lift(st.slope) * st.x1 + st.b == st.y1),
               ("line_at_x0", lift(st.slope) * st.x0 + st.b == st.y0)]
        return out

    def hints_pow(st):
        # A6 for the abstract power: for a >= 0 and e >= 0,  a^(e+1) == a * a^e  and  a^e >= 0   (instances at the segment's end ordinates)
        if isinstance(st.g["p"], int):
            return []
        e = st.eng
        pw = pow_uf()
        pz = to_real(to_z3(st.g["p"]))
        for y in (st.y0, st.y1):
            a = to_real(abs(lift(y)).t)
            e.axiom(z3.And(pw(a, pz + 1) == a * pw(a, pz), pw(a, pz) >= 0, pw(a, pz + 1) >= 0))
        # monotonicity in the base for a positive exponent
        a0, a1 = to_real(abs(lift(st.y0)).t), to_real(abs(lift(st.y1)).t)
        e.axiom(z3.And(z3.Implies(a0 <= a1, pw(a0, pz + 1) <= pw(a1, pz + 1)), z3.Implies(a1 <= a0, pw(a1, pz + 1) <= pw(a0, pz + 1))))
        return []

    def hints_flat(st):
        # A8 (real-analysis facts about the library functions, instantiated at this segment): for u = 1 + t > 0
        #   exp((p+1) * log(u)) == u^(p+1)          and          u^(p+1) * big^(p+1) == (u * big)^(p+1) = small^(p+1)
        from pyvc.models import NP
        e = st.eng
        p = st.g["p"]
        t, big = lift(st.t), lift(st.big)
        u = 1.0 + t
        x = (p + 1) * NP.log1p(st.t)
        ex = NP.exp(x)
        small = u * big
        if isinstance(p, int):
            upow, bpow, spow = num_pow(u, p + 1), num_pow(big, p + 1), num_pow(small, p + 1)
        else:
            pw = pow_uf()
            pz = to_real(to_z3(p))
            f = lambda v: Num(pw(to_real(lift(v).t), pz + 1))
            upow, bpow, spow = f(u), f(big), f(small)
            e.axiom(z3.Implies(u.t > 0, to_z3(upow) * to_z3(bpow) == to_z3(spow)))
            e.axiom(z3.And(to_z3(bpow) == to_real(big.t) * pw(to_real(big.t), pz), to_z3(spow) == to_real(small.t) * pw(to_real(small.t), pz)))
        e.axiom(z3.Implies(u.t > 0, to_z3(lift(ex)) == to_z3(upow)))
        return [("small_end_is_u_times_big", lift(small) == ite(abs(lift(st.y0)) <= abs(lift(st.y1)), abs(lift(st.y0)), abs(lift(st.y1))))]

    return Contract(
        MOD, "_p_norm", make_args, requires=requires, ensures=ensures, definedness="P",
        loops={0: LoopContract("for l in", inv_outer, cls="P"),
               1: LoopContract("for [[x0, y0], [x1, y1]] in", inv_inner, cls="P")},
        hints=[("b = y0 - slope * x0", hints), ("b = y0 - slope * x0", hints_pow),
               ("t = (min(np.abs(y0), np.abs(y1)) - big) / big", hints_flat)],
        variant="p=%s" % p_kind)


def all_contracts(tier):
    cs = [p_norm_contract(k) for k in (1, 2, 3, 4, "int", "real")]
    return cs, {}


# ----------------------------------------------------------------------------- entry points
EMOD = "persim/landscapes/exact.py"


def pnorm_summary(eng, pos, kw):
    eng.ghost.setdefault("pnorm_calls", []).append(dict(kw, pos=pos))
    return eng.fresh_real("pnorm_value")


def exact_p_norm_contract(kind):
    """kind: 'valid' (p >= 0), 'minus_one' (sup norm), 'negative' (rejected)"""
    from pyvc.engine import Obj

    def make_args(eng):
        cls = eng.module(EMOD).lookup("PersLandscapeExact")
        o = Obj(cls=cls)
        cps, g = make_pairs(eng, "self")
        eng.assume(g["nd"].t >= 1)
        o.fields.update({"critical_pairs": cps, "hom_deg": 0, "dgms": [], "max_depth": g["nd"]})
        if kind == "valid":
            p = eng.fresh_real("p")
            eng.assume(p.t >= 0)
        elif kind == "negative":
            p = eng.fresh_real("p")
            eng.assume(z3.And(p.t < 0, p.t != -1))
        else:
            p = -1
        g.update({"o": o, "p": p, "cps": cps})
        return {"self": o, "p": p}, g

    def raises(a):
        return [("negative_p_rejected", "ValueError", kind == "negative")]

    def ensures(a, res):
        calls = a.eng.ghost.get("pnorm_calls", [])
        out = [("landscape_untouched", a.g["o"].fields["critical_pairs"] is a.g["cps"], "P")]
        if kind == "valid":
            out.append(("delegates_to__p_norm_on_its_own_critical_pairs", len(calls) == 1 and calls[0].get("critical_pairs") is a.g["cps"] and calls[0].get("p") is a.g["p"], "P"))
        return out
    return Contract(EMOD, "PersLandscapeExact.p_norm", make_args, ensures=ensures, raises=raises, definedness="P", variant=kind)


def all_contracts(tier):     # noqa: F811
    cs = [p_norm_contract(k) for k in (1, 2, 3, 4, "int", "real")] + [exact_p_norm_contract(k) for k in ("valid", "negative")]
    return cs, {(MOD, "_p_norm"): Contract(MOD, "_p_norm", None, summary=pnorm_summary)}


# ----------------------------------------------------------------------------- grid landscapes: sup norm, conversion to pairs, p-norm entry point
AMOD = "persim/landscapes/approximate.py"


def _approx_obj(eng):
    from .c09_arith import approx_obj
    return approx_obj(eng, "self")


def approx_sup_norm_contract():
    """sup norm of a grid landscape = largest absolute value over all depths and nodes (attained, bounds every entry)"""
    def make_args(eng):
        o, grid, k, vals = _approx_obj(eng)
        return {"self": o}, {"o": o, "k": k, "vals": vals, "n": grid["num_steps"], "old": dict(o.fields)}

    def ensures(a, res):
        e, g = a.eng, a.g
        d = e.fresh_int("qd", lo=0, hi=g["k"])
        i = e.fresh_int("qi", lo=0, hi=g["n"])
        dd, ii = z3.Int(e.uniq("wd")), z3.Int(e.uniq("wi"))
        rng = z3.And(dd >= 0, dd < to_z3(g["k"]), ii >= 0, ii < to_z3(g["n"]))
        hit = e.under(rng, lambda: zb(abs(lift(g["vals"].get(Num(dd), Num(ii)))) == res))
        return [("bounds_every_absolute_value", abs(lift(g["vals"].get(d, i))) <= res, "P"),
                ("is_attained", BoolV_(z3.Exists([dd, ii], z3.And(rng, hit))), "P"),
                ("landscape_untouched", all(g["o"].fields[k] is g["old"][k] for k in g["old"]) and set(g["o"].fields) == set(g["old"]), "P")]
    return Contract(AMOD, "PersLandscapeApprox.sup_norm", make_args, ensures=ensures, definedness="P")


def BoolV_(t):
    from pyvc.values import BoolV
    return BoolV(t)


def values_to_pairs_contract(kind="float"):
    """values_to_pairs()[d][i] == (start + i*(stop-start)/(num_steps-1), values[d][i]) for every depth and node;
    kind='int': the landscape holds an integer-typed value array (the grid nodes are reals all the same)"""
    from pyvc.models import AppendList

    def make_args(eng):
        o, grid, k, vals = _approx_obj(eng)
        if kind == "int":
            from pyvc.arrays import fresh_symbolic
            vals = fresh_symbolic("values_self_int", (k, grid["num_steps"]), dtype="int", origin="param:self.values", eng=eng)
            o.fields["values"] = vals
        return {"self": o}, {"o": o, "k": k, "vals": vals, "grid": grid, "old": dict(o.fields)}

    def node(g, i):
        gr = g["grid"]
        return lift(gr["start"]) + lift(i) * ((lift(gr["stop"]) - gr["start"]) / (lift(gr["num_steps"]) - 1))

    def inv(st):
        g = st.g
        r = st.result
        if isinstance(r, list):
            return [("one_row_of_pairs_per_depth_so_far", lift(len(r)) == st.k, "S")]
        n = g["grid"]["num_steps"]
        return [("one_row_of_pairs_per_depth_so_far", lift(r.n) == st.k, "S"),
                ("each_row_has_one_pair_per_node", st.each([(0, st.k)], lambda d: lift(r.get(d).n) == n, name="rl"), "S"),
                ("pairs_are_node_and_value", st.each([(0, st.k), (0, n)], lambda d, i: b_and(lift(r.get(d).get(i)[0]) == node(g, i), lift(r.get(d).get(i)[1]) == g["vals"].get(d, i)), name="rp"), "P")]

    def havoc_result(st):
        e = st.eng
        g = st.g
        k = st.env.lookup("__k_loop0")
        X = z3.Function(e.uniq("PX"), z3.IntSort(), z3.IntSort(), z3.RealSort())
        Y = z3.Function(e.uniq("PY"), z3.IntSort(), z3.IntSort(), z3.RealSort())
        n = g["grid"]["num_steps"]
        return AppendList(k, lambda d: SymSeq(n, lambda i: (Num(X(to_z3(d), to_z3(i))), Num(Y(to_z3(d), to_z3(i))))))

    def ensures(a, res):
        e, g = a.eng, a.g
        from pyvc.arrays import Arr
        if not (isinstance(res, Arr) and res.ndim == 3):
            return [("returns_a_depth_by_node_by_2_array", False, "S")]
        n = g["grid"]["num_steps"]
        d = e.fresh_int("qd", lo=0, hi=g["k"])
        i = e.fresh_int("qi", lo=0, hi=n)
        return [("shape_is_depths_by_nodes_by_2", b_and(lift(res.shape[0]) == g["k"], lift(res.shape[1]) == n, lift(res.shape[2]) == 2), "P"),
                ("abscissa_is_the_grid_node", lift(res.get(d, i, 0)) == node(g, i), "P"),
                ("ordinate_is_the_value", lift(res.get(d, i, 1)) == g["vals"].get(d, i), "P"),
                ("landscape_untouched", all(g["o"].fields[k] is g["old"][k] for k in g["old"]) and set(g["o"].fields) == set(g["old"]), "P")]
    return Contract(AMOD, "PersLandscapeApprox.values_to_pairs", make_args, ensures=ensures, definedness="P", variant="values:%s" % kind,
                    loops={0: LoopContract("for vals in self.values", inv, cls="P", havoc={"result": havoc_result})})


def pairs_summary(eng, pos, kw):
    r = eng.fresh_real("pairs_token")
    eng.ghost.setdefault("pairs_calls", []).append((pos[0], r))
    return r


def approx_p_norm_contract(kind):
    def make_args(eng):
        o, grid, k, vals = _approx_obj(eng)
        if kind == "valid":
            p = eng.fresh_real("p")
            eng.assume(p.t >= 0)
        else:
            p = eng.fresh_real("p")
            eng.assume(z3.And(p.t < 0, p.t != -1))
        return {"self": o, "p": p}, {"o": o, "p": p, "old": dict(o.fields)}

    def raises(a):
        return [("negative_p_rejected", "ValueError", kind == "negative")]

    def ensures(a, res):
        e, g = a.eng, a.g
        calls, pc = e.ghost.get("pnorm_calls", []), e.ghost.get("pairs_calls", [])
        return [("landscape_untouched", all(g["o"].fields[k] is g["old"][k] for k in g["old"]) and set(g["o"].fields) == set(g["old"]), "P"),
                ("norm_of_its_own_grid_pairs", len(calls) == 1 and len(pc) == 1 and pc[0][0] is g["o"] and calls[0].get("critical_pairs") is pc[0][1] and calls[0].get("p") is g["p"], "P")]
    return Contract(AMOD, "PersLandscapeApprox.p_norm", make_args, ensures=ensures, raises=raises, definedness="P", variant=kind)


def approx_contracts(tier):
    """[(contracts, table)]"""
    t = {(MOD, "_p_norm"): Contract(MOD, "_p_norm", None, summary=pnorm_summary),
         (AMOD, "PersLandscapeApprox.values_to_pairs"): Contract(AMOD, "PersLandscapeApprox.values_to_pairs", None, summary=pairs_summary)}
    return [([approx_sup_norm_contract(), values_to_pairs_contract("float"), values_to_pairs_contract("int")], {}), ([approx_p_norm_contract("valid"), approx_p_norm_contract("negative")], t)]


# ----------------------------------------------------------------------------- exact landscapes: sup norm
def exact_sup_norm_contract():
    """sup norm of an exact landscape = largest absolute ordinate over all critical points of all depths (L11: the sup of a
    piecewise-linear function is attained at a breakpoint); at least one critical point exists"""
    from pyvc.engine import Obj

    def make_args(eng):
        cls = eng.module(EMOD).lookup("PersLandscapeExact")
        o = Obj(cls=cls)
        cps, g = make_pairs(eng, "self")
        eng.assume(g["nd"].t >= 1)
        eng.assume(g["L"](0) >= 1)
        o.fields.update({"critical_pairs": cps, "hom_deg": 0, "dgms": [], "max_depth": g["nd"]})
        g.update({"o": o, "cps": cps})
        return {"self": o}, g

    def ensures(a, res):
        e, g = a.eng, a.g
        X, Y, L = g["X"], g["Y"], g["L"]
        d = e.fresh_int("qd", lo=0, hi=g["nd"])
        s = e.fresh_int("qs", lo=0, hi=Num(L(to_z3(d))))
        dd, ss = z3.Int(e.uniq("wd")), z3.Int(e.uniq("ws"))
        rng = z3.And(dd >= 0, dd < to_z3(g["nd"]), ss >= 0, ss < L(dd))
        absY = lambda a_, b_: z3.If(Y(a_, b_) >= 0, Y(a_, b_), -Y(a_, b_))
        return [("bounds_every_absolute_ordinate", abs(lift(Num(Y(to_z3(d), to_z3(s))))) <= res, "P"),
                ("is_attained_at_a_critical_point", BoolV_(z3.Exists([dd, ss], z3.And(rng, absY(dd, ss) == to_z3(lift(res))))), "P"),
                ("landscape_untouched", g["o"].fields["critical_pairs"] is g["cps"], "P")]
    return Contract(EMOD, "PersLandscapeExact.sup_norm", make_args, ensures=ensures, definedness="P")


_approx_prev = approx_contracts


def approx_contracts(tier):     # noqa: F811
    t = {(EMOD, "PersLandscapeExact.compute_landscape"): Contract(EMOD, "PersLandscapeExact.compute_landscape", None, summary=lambda eng, pos, kw: None)}
    return _approx_prev(tier) + [([exact_sup_norm_contract()], t)]
