"""C12 - imager geometry: class invariant WF established by the constructor and preserved by every setter / fit.

WF(self):  pixel_size > 0;  resolution = (rb, rp) positive ints;  width == rb*ps;  height == rp*ps;
           birth_range[1]-birth_range[0] == width;  pers_range[1]-pers_range[0] == height;
           _bpnts has rb+1 nodes, _bpnts[k] == birth_range[0] + k*ps;  same for _ppnts.
Each operation additionally *covers* what it was asked for and exceeds it by less than one pixel.
Induction over the history (constructor establishes, every mutator preserves) gives the statement for any
sequence of assignments and fits.
"""
import z3

from pyvc.arrays import Arr, fresh_symbolic
from pyvc.engine import Contract, Obj
from pyvc.values import Num, b_and, lift, to_z3, zb

MOD = "persim/images.py"
CLS = "PersistenceImager"


def wf(eng, o, tag=""):
    """list of (label, truth value) - the class invariant on object o"""
    f = o.fields
    ps = lift(f["_pixel_size"])
    rb, rp = f["_resolution"]
    b0, b1 = f["_birth_range"]
    p0, p1 = f["_pers_range"]
    out = [("pixel_size_positive", ps > 0),
           ("resolution_positive", b_and(lift(rb) >= 1, lift(rp) >= 1)),
           ("width_is_resolution_times_pixel", lift(f["_width"]) == rb * ps),
           ("height_is_resolution_times_pixel", lift(f["_height"]) == rp * ps),
           ("birth_range_spans_width", lift(b1) - b0 == f["_width"]),
           ("pers_range_spans_height", lift(p1) - p0 == f["_height"])]
    bp, pp = f["_bpnts"], f["_ppnts"]
    out.append(("birth_mesh_has_resolution_plus_one_nodes", lift(bp.shape[0]) == rb + 1))
    out.append(("pers_mesh_has_resolution_plus_one_nodes", lift(pp.shape[0]) == rp + 1))
    return out


def wf_mesh_goal(eng, o):
    """pointwise mesh facts on fresh indices (for proving)"""
    f = o.fields
    ps = lift(f["_pixel_size"])
    rb, rp = f["_resolution"]
    kb = eng.fresh_int("kb", lo=0, hi=lift(rb) + 1)
    kp = eng.fresh_int("kp", lo=0, hi=lift(rp) + 1)
    return [("birth_mesh_nodes_are_pixel_multiples", lift(f["_bpnts"].get(kb)) == f["_birth_range"][0] + kb * ps),
            ("pers_mesh_nodes_are_pixel_multiples", lift(f["_ppnts"].get(kp)) == f["_pers_range"][0] + kp * ps)]


def make_wf_object(eng, cls):
    """an arbitrary object satisfying WF (pre-state of setters / fit)"""
    ps = eng.fresh_real("ps")
    rb, rp = eng.fresh_int("rb"), eng.fresh_int("rp")
    b0, p0 = eng.fresh_real("b0"), eng.fresh_real("p0")
    eng.assume(z3.And(ps.t > 0, rb.t >= 1, rp.t >= 1))
    o = Obj(cls=cls)
    o.fields.update({"_pixel_size": ps, "_resolution": (rb, rp), "_width": rb * ps, "_height": rp * ps,
                     "_birth_range": (b0, b0 + rb * ps), "_pers_range": (p0, p0 + rp * ps),
                     "_bpnts": Arr((rb + 1,), lambda idx: b0 + idx[0] * ps, dtype="float"),
                     "_ppnts": Arr((rp + 1,), lambda idx: p0 + idx[0] * ps, dtype="float"),
                     "weight": None, "kernel": None, "weight_params": {}, "kernel_params": {}})
    return o


def get_cls(eng):
    return eng.module(MOD).lookup(CLS)


def covers(new, old_lo, old_hi, ps, label):
    lo, hi = new
    return [("%s_contains_request" % label, b_and(lift(lo) <= old_lo, lift(hi) >= old_hi), "P"),
            ("%s_exceeds_request_by_less_than_one_pixel" % label, (lift(hi) - lo) - (lift(old_hi) - old_lo) < ps, "P")]


def init_contract():
    def make_args(eng):
        o = Obj(cls=get_cls(eng))
        b0, b1, p0, p1, ps = [eng.fresh_real(n) for n in ("b0", "b1", "p0", "p1", "ps")]
        eng.assume(z3.And(b0.t < b1.t, p0.t < p1.t, ps.t > 0))
        return {"self": o, "birth_range": (b0, b1), "pers_range": (p0, p1), "pixel_size": ps}, {"o": o, "b": (b0, b1), "p": (p0, p1), "ps": ps}

    def ensures(a, res):
        o, g = a.g["o"], a.g
        out = [(l, t, "P") for l, t in wf(a.eng, o)] + [(l, t, "P") for l, t in wf_mesh_goal(a.eng, o)]
        out.append(("pixel_size_as_given", lift(o.fields["_pixel_size"]) == g["ps"], "P"))
        out += covers(o.fields["_birth_range"], g["b"][0], g["b"][1], g["ps"], "birth_range")
        out += covers(o.fields["_pers_range"], g["p"][0], g["p"][1], g["ps"], "pers_range")
        return out
    return Contract(MOD, CLS + ".__init__", make_args, ensures=ensures, definedness="P")


def setter_contract(which):
    qual = {"ps": CLS + ".pixel_size.setter", "b": CLS + ".birth_range.setter", "p": CLS + ".pers_range.setter"}[which]

    def make_args(eng):
        o = make_wf_object(eng, get_cls(eng))
        old = dict(o.fields)
        if which == "ps":
            v = eng.fresh_real("val")
            eng.assume(v.t > 0)
        else:
            v0, v1 = eng.fresh_real("v0"), eng.fresh_real("v1")
            eng.assume(v0.t < v1.t)
            v = (v0, v1)
        return {"self": o, "val": v}, {"o": o, "old": old, "val": v}

    def ensures(a, res):
        o, old, v = a.g["o"], a.g["old"], a.g["val"]
        f = o.fields
        out = [(l, t, "P") for l, t in wf(a.eng, o)] + [(l, t, "P") for l, t in wf_mesh_goal(a.eng, o)]
        ps = f["_pixel_size"]
        if which == "ps":
            out.append(("pixel_size_as_assigned", lift(ps) == v, "P"))
            out += covers(f["_birth_range"], old["_birth_range"][0], old["_birth_range"][1], ps, "birth_range")
            out += covers(f["_pers_range"], old["_pers_range"][0], old["_pers_range"][1], ps, "pers_range")
        elif which == "b":
            out.append(("pixel_size_unchanged", lift(ps) == old["_pixel_size"], "P"))
            out += covers(f["_birth_range"], v[0], v[1], ps, "birth_range")
            out.append(("pers_range_unchanged", b_and(lift(f["_pers_range"][0]) == old["_pers_range"][0], lift(f["_pers_range"][1]) == old["_pers_range"][1]), "P"))
        else:
            out.append(("pixel_size_unchanged", lift(ps) == old["_pixel_size"], "P"))
            out += covers(f["_pers_range"], v[0], v[1], ps, "pers_range")
            out.append(("birth_range_unchanged", b_and(lift(f["_birth_range"][0]) == old["_birth_range"][0], lift(f["_birth_range"][1]) == old["_birth_range"][1]), "P"))
        return out
    return Contract(MOD, qual, make_args, ensures=ensures, definedness="P", variant=which)


def all_contracts(tier):
    cs = [init_contract(), setter_contract("ps"), setter_contract("b"), setter_contract("p")]
    return cs, {}


# ----------------------------------------------------------------------------- modular use of the range setters
def range_setter_summary(which):
    def summary(eng, pos, kw):
        self, val = pos[0], pos[1]
        f = self.fields
        for l, t in wf(eng, self):
            eng.oblige("call.%s_range.setter.requires.%s" % (which, l), t, cls="S")
        eng.oblige("call.%s_range.setter.requires.positive_extent" % which, lift(val[0]) < val[1], cls="P")
        ps = f["_pixel_size"]
        n = eng.fresh_int("n_%s" % which, lo=1)
        lo = eng.fresh_real("lo_%s" % which)
        hi = lo + n * ps
        rb, rp = f["_resolution"]
        if which == "birth":
            f.update({"_birth_range": (lo, hi), "_width": n * ps, "_resolution": (n, rp),
                      "_bpnts": Arr((n + 1,), lambda idx: lo + idx[0] * ps, dtype="float")})
        else:
            f.update({"_pers_range": (lo, hi), "_height": n * ps, "_resolution": (rb, n),
                      "_ppnts": Arr((n + 1,), lambda idx: lo + idx[0] * ps, dtype="float")})
        # ensures of the setter contract (proved separately on the real setter)
        eng.assume(z3.And(to_z3(lo) <= to_z3(lift(val[0])), to_z3(hi) >= to_z3(lift(val[1])),
                          to_z3(n * ps) - (to_z3(lift(val[1])) - to_z3(lift(val[0]))) < to_z3(ps)))
        return None
    return summary


def fit_contract(form, skew=True):
    nd = 1 if form == "single" else 2

    def make_args(eng):
        o = make_wf_object(eng, get_cls(eng))
        ds, wit = [], []
        for i in range(nd):
            n = eng.fresh_int("n%d" % i, lo=1)
            D = fresh_symbolic("D%d" % i, (n, 2), dtype="float", origin="param:pers_dgms[%d]" % i, eng=eng)
            ds.append(D)
        # data spanning a positive extent in birth and in persistence (witness rows in diagram 0)
        i1, i2, j1, j2 = [eng.fresh_int(nm, lo=0, hi=ds[0].shape[0]) for nm in ("wi1", "wi2", "wj1", "wj2")]
        pers = (lambda D, k: D.get(k, 1) - D.get(k, 0)) if skew else (lambda D, k: D.get(k, 1))
        eng.assume(zb(lift(ds[0].get(i1, 0)) < ds[0].get(i2, 0)))
        eng.assume(zb(lift(pers(ds[0], j1)) < pers(ds[0], j2)))
        return {"self": o, "pers_dgms": ds[0] if form == "single" else list(ds), "skew": skew}, {"o": o, "ds": ds, "pers": pers, "old": dict(o.fields)}

    def ensures(a, res):
        e, g = a.eng, a.g
        o = g["o"]
        f = o.fields
        out = [(l, t, "P") for l, t in wf(e, o)] + [(l, t, "P") for l, t in wf_mesh_goal(e, o)]
        out.append(("pixel_size_unchanged", lift(f["_pixel_size"]) == g["old"]["_pixel_size"], "P"))
        ps = f["_pixel_size"]
        # every fitted point lies inside the new ranges
        for i, D in enumerate(g["ds"]):
            k = e.fresh_int("kf%d" % i, lo=0, hi=D.shape[0])
            out.append(("fitted_births_inside_%d" % i, b_and(lift(f["_birth_range"][0]) <= D.get(k, 0), lift(D.get(k, 0)) <= f["_birth_range"][1]), "P"))
            out.append(("fitted_persistences_inside_%d" % i, b_and(lift(f["_pers_range"][0]) <= g["pers"](D, k), lift(g["pers"](D, k)) <= f["_pers_range"][1]), "P"))
        # ... and the ranges exceed the data extent by less than one pixel: some fitted point is within a pixel of each pair of borders
        ws = []
        for nm in ("xb0", "xb1", "xp0", "xp1"):
            ws.append(None)
        conds_b, conds_p = [], []
        for i, D in enumerate(g["ds"]):
            u, v = z3.Int(e.uniq("u%d" % i)), z3.Int(e.uniq("v%d" % i))
            rng = z3.And(u >= 0, u < to_z3(D.shape[0]), v >= 0, v < to_z3(D.shape[0]))
            conds_b.append((u, v, rng, D))
        # stated with existential witnesses over all diagrams: extent_new - (max - min) < ps
        def some_pair(col):
            alts = []
            for i, Di in enumerate(g["ds"]):
                for j, Dj in enumerate(g["ds"]):
                    u, v = z3.Int(e.uniq("eu")), z3.Int(e.uniq("ev"))
                    rng = z3.And(u >= 0, u < to_z3(Di.shape[0]), v >= 0, v < to_z3(Dj.shape[0]))
                    lo_v = e.under(rng, lambda: col(Di, Num(u)))
                    hi_v = e.under(rng, lambda: col(Dj, Num(v)))
                    width_new = (lift(f["_birth_range"][1]) - f["_birth_range"][0]) if col is colb else (lift(f["_pers_range"][1]) - f["_pers_range"][0])
                    alts.append(z3.Exists([u, v], z3.And(rng, zb(width_new - (lift(hi_v) - lo_v) < ps))))
            return z3.Or(*alts)
        colb = lambda D, k: D.get(k, 0)
        colp = g["pers"]
        out.append(("birth_range_exceeds_data_by_less_than_one_pixel", some_pair(colb), "P"))
        out.append(("pers_range_exceeds_data_by_less_than_one_pixel", some_pair(colp), "P"))
        return out
    return Contract(MOD, CLS + ".fit", make_args, ensures=ensures, definedness="P", variant="%s,skew=%s" % (form, skew))


def all_contracts(tier):
    cs = [init_contract(), setter_contract("ps"), setter_contract("b"), setter_contract("p"),
          fit_contract("single", True), fit_contract("single", False)]
    cs.append(fit_contract("list2", True))
    if tier != "quick":
        cs.append(fit_contract("list2", False))
    table = {(MOD, CLS + ".birth_range.setter"): Contract(MOD, CLS + ".birth_range.setter", None, summary=range_setter_summary("birth")),
             (MOD, CLS + ".pers_range.setter"): Contract(MOD, CLS + ".pers_range.setter", None, summary=range_setter_summary("pers"))}
    return cs, table
