"""C05 / C17 - modified Gromov-Hausdorff estimates (persim/gromov_hausdorff.py).

construct_mapping(DX, DY, pi):  for symmetric zero-diagonal DX, DY and a permutation pi, with *any* value the random
        choice returns, the result (ys, distortion) satisfies  forall a,b. |DX[pi a, pi b] - DY[ys a, ys b]| <= distortion,
        i.e. distortion bounds the distortion of the total map pi(a) -> ys(a), hence  distortion >= inf dis(X->Y).
find_ub_of_min_distortion:      minimum over >= 1 such maps, for every RNG state and every sampling order  => >= inf dis
find_ub:                        max of both directions                                   => double_ub >= 2 mGH   (L12)
find_lb:                        the trivial bound (L13) or a d confirmed by Theorems A/B (L14)      => double_lb <= 2 mGH
estimate:                       halves of non-negative integers with lb <= mGH <= ub
"""
import z3

from pyvc.arrays import Arr, fresh_symbolic
from pyvc.engine import Contract, LoopContract
from pyvc.models import AppendList
from pyvc.values import BoolV, Num, b_and, ite, lift, to_z3, zb

MOD = "persim/gromov_hausdorff.py"


def sym_metric(eng, name, lo=1):
    """integer distance matrix of a connected graph: symmetric, zero diagonal, non-negative"""
    n = eng.fresh_int("n_" + name, lo=lo)
    D = fresh_symbolic(name, (n, n), dtype="int", origin="param:" + name, eng=eng)
    return D, n


def metric_requires(D, n, tag):
    i, j = z3.Ints("mi_%s mj_%s" % (tag, tag))
    rng = z3.And(i >= 0, i < to_z3(n), j >= 0, j < to_z3(n))
    return [("%s_symmetric_zero_diagonal_nonnegative" % tag,
             z3.ForAll([i, j], z3.Implies(rng, z3.And(D.uf(i, j) == D.uf(j, i), D.uf(i, i) == 0, D.uf(i, j) >= 0)), patterns=[D.uf(i, j)]))]


def construct_mapping_contract():
    def make_args(eng):
        DX, n = sym_metric(eng, "DX")
        DY, m = sym_metric(eng, "DY")
        pi = fresh_symbolic("pi", (n,), dtype="int", origin="param:pi", eng=eng)
        return {"DX": DX, "DY": DY, "pi": pi}, {"n": n, "m": m}

    def requires(a):
        g = a.g
        q = z3.Int("pq")
        return metric_requires(a.DX, g["n"], "DX") + metric_requires(a.DY, g["m"], "DY") + [
            ("pi_entries_are_vertices_of_X", z3.ForAll([q], z3.Implies(z3.And(q >= 0, q < to_z3(g["n"])), z3.And(a.pi.uf(q) >= 0, a.pi.uf(q) < to_z3(g["n"]))), patterns=[a.pi.uf(q)]))]

    def inv(st):
        e, g = st.eng, st.g
        xs, ys = st.mapped_xs, st.mapped_xs_images
        k = st.k + 1            # the loop runs over pi[1:]; after k' iterations k'+1 points are mapped
        nx = xs.n if not isinstance(xs, list) else len(xs)
        ny = ys.n if not isinstance(ys, list) else len(ys)
        gx = (lambda a: xs.get(a)) if not isinstance(xs, list) else (lambda a: xs[0])
        gy = (lambda a: ys.get(a)) if not isinstance(ys, list) else (lambda a: ys[0])
        out = [("mapped_point_count", b_and(lift(nx) == k, lift(ny) == k), "S"),
               ("mapped_points_are_the_prefix_of_pi", st.each([(0, k)], lambda a: lift(gx(a)) == st.pi.get(a), name="px"), "S"),
               ("images_are_vertices_of_Y", st.each([(0, k)], lambda a: b_and(lift(gy(a)) >= 0, lift(gy(a)) < g["m"]), name="py"), "S"),
               ("distortion_nonnegative", lift(st.distortion) >= 0, "S"),
               ("distortion_bounds_every_mapped_pair",
                st.each([(0, k), (0, k)], lambda a, b: abs(lift(st.DX.get(gx(a), gx(b))) - st.DY.get(gy(a), gy(b))) <= st.distortion, name="pp"), "P")]
        return out

    def havoc_list(name):
        def f(st):
            e = st.eng
            k = st.env.lookup("__k_loop0") + 1
            uf = z3.Function(e.uniq(name), z3.IntSort(), z3.IntSort())
            return AppendList(k, lambda a: Num(uf(to_z3(a))))
        return f

    def ensures(a, res):
        e, g = a.eng, a.g
        ys, dist = res
        n = g["n"]
        p, q = e.fresh_int("ea", lo=0, hi=n), e.fresh_int("eb", lo=0, hi=n)
        gy = (lambda t: ys.get(t)) if not isinstance(ys, list) else (lambda t: ys[0])
        ny = ys.n if not isinstance(ys, list) else len(ys)
        return [("every_point_of_X_is_mapped", lift(ny) == n, "P"),
                ("images_are_vertices_of_Y", b_and(lift(gy(p)) >= 0, lift(gy(p)) < g["m"]), "P"),
                ("returned_distortion_bounds_the_distortion_of_the_total_map",
                 abs(lift(a.DX.get(a.pi.get(p), a.pi.get(q))) - a.DY.get(gy(p), gy(q))) <= dist, "P"),
                ("distortion_is_a_nonnegative_integer", b_and(lift(dist) >= 0), "P")]

    return Contract(MOD, "construct_mapping", make_args, requires=requires, ensures=ensures, definedness="P",
                    loops={0: LoopContract("for x in pi[1:]", inv, cls="P", havoc={"mapped_xs": havoc_list("xs"), "mapped_xs_images": havoc_list("ys")})})


# ----------------------------------------------------------------------------- ghost constants: inf dis, 2*mGH
def mindis(eng, DX, DY):
    """inf over all maps X -> Y of the distortion (an opaque non-negative integer attached to the two buffers)"""
    d = eng.ghost.setdefault("__mindis", {})
    key = (DX.buf.id, DY.buf.id)
    if key not in d:
        v = eng.fresh_int("MINDIS_%d_%d" % key, lo=0)
        d[key] = v
    return d[key]


def two_mgh(eng, DX, DY):
    """2 * mGH(X, Y) = max(inf dis X->Y, inf dis Y->X)   (definition of the modified Gromov-Hausdorff distance)"""
    a, b = mindis(eng, DX, DY), mindis(eng, DY, DX)
    return ite(lift(a) >= b, a, b)


def construct_mapping_summary(eng, pos, kw):
    DX, DY, pi = pos
    m = DY.shape[0]
    # requires: pi a permutation of X's vertices (checked at the call site)
    eng.oblige("call.construct_mapping.requires.pi_is_a_permutation", getattr(pi, "is_permutation", False), cls="S")
    uf = z3.Function(eng.uniq("cm_ys"), z3.IntSort(), z3.IntSort())
    ys = AppendList(DX.shape[0], lambda a: Num(uf(to_z3(a))))
    dist = eng.fresh_int("cm_distortion", lo=0)
    # ensures (proved on the real function): distortion bounds dis of a total map, hence >= inf dis (L12)
    eng.assume(dist.t >= to_z3(mindis(eng, DX, DY)))
    return (ys, dist)


def ub_min_distortion_contract():
    def make_args(eng):
        DX, n = sym_metric(eng, "DX")
        DY, m = sym_metric(eng, "DY")
        o1, o2 = eng.fresh_real("order0"), eng.fresh_real("order1")
        order = Arr((2,), lambda idx: ite(lift(idx[0]) == 0, o1, o2), dtype="float")
        goal = eng.fresh_int("goal", lo=0)
        return {"DX": DX, "DY": DY, "mapping_sample_size_order": order, "goal_distortion": goal}, {"n": n, "m": m}

    def requires(a):
        return metric_requires(a.DX, a.g["n"], "DX") + metric_requires(a.DY, a.g["m"], "DY")

    def inv(st):
        e = st.eng
        md = mindis(e, st.DX, st.DY)
        ub = st.ub_of_min_distortion
        gen = st.permutations_generator
        started = b_and(st.goal_distortion_is_matched is False or True)
        fresh_loop = b_and(st.e_not(st.goal_distortion_is_matched), st.e_not(st.all_sampled_permutations_are_tried))
        return [("upper_bound_not_below_the_minimal_distortion", lift(ub) >= md, "P"),
                ("bound_is_finite_once_a_mapping_was_tried_or_loop_still_running", BoolV(z3.Or(zb(fresh_loop), zb(lift(ub).finite()))), "P"),
                ("bound_nonnegative", lift(ub) >= 0, "S"),
                ("current_permutation_valid", getattr(st.pi, "is_permutation", False), "S"),
                ("generator_position_in_range", b_and(lift(gen.pos) >= 1, lift(gen.pos) <= gen.seq.n), "S")]

    def havoc_gen(st):
        e = st.eng
        g = st.env.lookup("permutations_generator")
        from pyvc.models import SymGen
        return SymGen(g.seq, e.fresh_int("gen_pos", lo=1))

    def havoc_pi(st):
        from pyvc.models import NP
        return NP.random.permutation(st.DX.shape[0])

    def havoc_ub(st):
        return st.eng.fresh_real("ub", maybe_inf=True)

    def variant(st):
        gen = st.permutations_generator
        return (gen.seq.n - gen.pos) + ite(st.all_sampled_permutations_are_tried, 0, 1)

    def ensures(a, res):
        e = a.eng
        md = mindis(e, a.DX, a.DY)
        return [("result_is_at_least_the_minimal_distortion_for_every_rng_state_and_sampling_order", lift(res) >= md, "P"),
                ("result_is_finite", lift(res).finite(), "P"), ("result_nonnegative", lift(res) >= 0, "P")]
    return Contract(MOD, "find_ub_of_min_distortion", make_args, requires=requires, ensures=ensures, definedness="P",
                    loops={0: LoopContract("while not goal_distortion_is_matched", inv, variant=variant, cls="P",
                                           havoc={"permutations_generator": havoc_gen, "pi": havoc_pi, "ub_of_min_distortion": havoc_ub})})


def ub_min_summary(eng, pos, kw):
    DX, DY = pos[0], pos[1]
    r = eng.fresh_int("ub_min_dis", lo=0)
    eng.assume(r.t >= to_z3(mindis(eng, DX, DY)))
    return r


def find_ub_contract():
    def make_args(eng):
        DX, n = sym_metric(eng, "DX")
        DY, m = sym_metric(eng, "DY")
        lb = eng.fresh_int("double_lb", lo=0)
        return {"DX": DX, "DY": DY, "double_lb": lb}, {"n": n, "m": m}

    def ensures(a, res):
        e = a.eng
        return [("double_ub_is_at_least_twice_mGH", lift(res) >= two_mgh(e, a.DX, a.DY), "P"), ("double_ub_nonnegative_integer", lift(res) >= 0, "P")]
    return Contract(MOD, "find_ub", make_args, ensures=ensures, definedness="P")


def find_ub_summary(eng, pos, kw):
    DX, DY = pos[0], pos[1]
    r = eng.fresh_int("double_ub", lo=0)
    eng.assume(r.t >= to_z3(two_mgh(eng, DX, DY)))
    return r


def curvature_summary(eng, pos, kw):
    """find_largest_size_bounded_curvature: some square matrix (its content only matters to the confirmation step)"""
    k = eng.fresh_int("K_size", lo=0)
    return fresh_symbolic("K", (k, k), dtype="int", eng=eng)


def confirm_summary(eng, pos, kw):
    """L14 (Theorems A / B of Oles et al.): a confirmation of d entails 2 mGH >= d"""
    d = pos[0]
    c = eng.fresh_bool("confirmed")
    ctx = eng.ghost["lb_ctx"]
    eng.assume(z3.Implies(zb(c), to_z3(lift(d)) <= to_z3(two_mgh(eng, ctx[0], ctx[1]))))
    return c


def find_lb_contract():
    def make_args(eng):
        DX, n = sym_metric(eng, "DX")
        DY, m = sym_metric(eng, "DY")
        g = {"n": n, "m": m, "lb_ctx": (DX, DY)}
        return {"DX": DX, "DY": DY}, g

    def requires(a):
        e = a.eng
        from pyvc.models import NP
        dx, dy = NP.max(a.DX), NP.max(a.DY)
        t = two_mgh(e, a.DX, a.DY)
        # L13: |diam X - diam Y| <= 2 mGH, and spaces of different cardinality are at mGH distance >= 1/2
        return metric_requires(a.DX, a.g["n"], "DX") + metric_requires(a.DY, a.g["m"], "DY") + [
            ("L13_diameter_difference", abs(lift(dx) - dy) <= t), ("L13_cardinalities", BoolV(z3.Implies(to_z3(a.g["n"]) != to_z3(a.g["m"]), to_z3(t) >= 1)))]

    def inv(st):
        e = st.eng
        t = two_mgh(e, st.DX, st.DY)
        return [("lower_bound_not_above_twice_mGH", lift(st.double_lb) <= t, "P"), ("lower_bound_nonnegative", lift(st.double_lb) >= 0, "P")]

    def ensures(a, res):
        e = a.eng
        return [("double_lb_is_at_most_twice_mGH", lift(res) <= two_mgh(e, a.DX, a.DY), "P"), ("double_lb_nonnegative_integer", lift(res) >= 0, "P")]
    return Contract(MOD, "find_lb", make_args, requires=requires, ensures=ensures, definedness="P",
                    loops={0: LoopContract("while d > double_lb", inv, variant=lambda st: st.d, cls="P")})


def find_lb_summary(eng, pos, kw):
    DX, DY = pos[0], pos[1]
    r = eng.fresh_int("double_lb", lo=0)
    eng.assume(r.t <= to_z3(two_mgh(eng, DX, DY)))
    eng.rng_free = True
    return r


def estimate_contract():
    def make_args(eng):
        DX, n = sym_metric(eng, "DX")
        DY, m = sym_metric(eng, "DY")
        return {"DX": DX, "DY": DY}, {}

    def ensures(a, res):
        e = a.eng
        lb, ub = res
        t = two_mgh(e, a.DX, a.DY)
        two = lambda v: 2 * lift(v)
        return [("lower_estimate_at_most_mGH", two(lb) <= t, "P"), ("upper_estimate_at_least_mGH", two(ub) >= t, "P"),
                ("estimates_are_nonnegative_multiples_of_one_half", b_and(BoolV(e.is_integer_valued(to_z3(two(lb)))), BoolV(e.is_integer_valued(to_z3(two(ub)))), lift(lb) >= 0, lift(ub) >= 0), "P")]
    return Contract(MOD, "estimate", make_args, ensures=ensures, definedness="P")


def table():
    C = Contract
    # `covers`: the parameters each callee's own contract was verified for - a caller that passes anything else is outside it
    return {(MOD, "construct_mapping"): C(MOD, "construct_mapping", None, summary=construct_mapping_summary, covers=("DX", "DY", "pi")),
            (MOD, "find_ub_of_min_distortion"): C(MOD, "find_ub_of_min_distortion", None, summary=ub_min_summary, covers=("DX", "DY", "mapping_sample_size_order", "goal_distortion")),
            (MOD, "find_ub"): C(MOD, "find_ub", None, summary=find_ub_summary, covers=("DX", "DY", "mapping_sample_size_order", "double_lb")),
            (MOD, "find_lb"): C(MOD, "find_lb", None, summary=find_lb_summary, covers=("DX", "DY")),
            (MOD, "find_largest_size_bounded_curvature"): C(MOD, "find_largest_size_bounded_curvature", None, summary=curvature_summary, covers=("DX", "diam_X", "d")),
            (MOD, "confirm_lb_using_bounded_curvature"): C(MOD, "confirm_lb_using_bounded_curvature", None, summary=confirm_summary, covers=("d", "K", "DY", "max_diam"))}


def all_contracts(tier):
    cs = [construct_mapping_contract(), ub_min_distortion_contract(), find_ub_contract(), find_lb_contract(), estimate_contract()]
    return cs, table()


# ----------------------------------------------------------------------------- helper purity (frame) : check_assignment_feasibility
def feasibility_contract():
    """the greedy assignment test works on private copies: it returns a bool and never writes into the two distributions it is handed
    (their rows are reused by the caller for every candidate); index accesses stay in range"""
    def make_args(eng):
        n = eng.fresh_int("len_v", lo=1)
        m = eng.fresh_int("len_u", lo=1)
        v = fresh_symbolic("v_distribution", (n,), dtype="int", origin="param:v_distribution", eng=eng)
        u = fresh_symbolic("u_distribution", (m,), dtype="int", origin="param:u_distribution", eng=eng)
        d = eng.fresh_int("d", lo=1)
        return {"v_distribution": v, "u_distribution": u, "d": d}, {"n": n, "m": m}

    def inv(st):
        g = st.g
        i, j = st.i, st.j
        out = [("copies_have_the_argument_lengths", b_and(lift(st.reversed_v_distribution.shape[0]) == g["n"], lift(st.reversed_u_distribution.shape[0]) == g["m"]), "S")]
        if i is not None:
            out.append(("i_in_range", b_and(lift(i) >= 0, lift(i) < g["n"]), "S"))
        if j is not None:
            out.append(("j_in_range", b_and(lift(j) >= 0, lift(j) < g["m"]), "S"))
        return out

    def havoc_idx(name, bound):
        def f(st):
            e = st.eng
            if e.decide(name + "_none"):
                return None
            return e.fresh_int(name)
        return f

    def ensures(a, res):
        return [("returns_a_truth_value", isinstance(res, (bool, BoolV)), "P")]
    return Contract(MOD, "check_assignment_feasibility", make_args, ensures=ensures, definedness="P",
                    loops={0: LoopContract("while i is not None and j is not None", inv, cls="S", havoc={"i": havoc_idx("i", "n"), "j": havoc_idx("j", "m")})})


_all_prev = all_contracts


def all_contracts(tier):     # noqa: F811
    cs, t = _all_prev(tier)
    return cs + [feasibility_contract()], t


# ----------------------------------------------------------------------------- lower bound: the confirmation step (Theorems A / B stay assumed)
# confirm_lb_using_bounded_curvature_row(d, K, DY, max_diam) returns True only if, for some maximal row distribution of K,
# the bottleneck assignment is infeasible against the distribution of EVERY row of DY (all len(DY) of them):
#     res  ==>  exists i < #Kmax . forall j < len(DY) . not FEAS(Kmax[i], rows(DY)[j], d)
#     not res ==> forall i < #Kmax . exists j < len(DY) . FEAS(Kmax[i], rows(DY)[j], d)
# This is the hypothesis of Theorem B (L14); dropping rows of DY from the inner quantifier breaks the clause.
def _row_id(eng, v):
    """(buffer key, row index term) of a 1-d view that is a whole row of a 2-d buffer"""
    if not (isinstance(v, Arr) and v.ndim == 1):
        raise Exception("distribution is not a row of a 2-d array")
    a, b = v.fwd((0,)), v.fwd((1,))
    if not (len(a) == 2 and a[1] == 0 and b[1] == 1 and (a[0] is b[0] or str(to_z3(a[0])) == str(to_z3(b[0])))):
        raise Exception("distribution is not a whole row")
    keys = eng.ghost.setdefault("buf_keys", {})
    key = keys.setdefault(id(v.buf), (len(keys), v.buf))[0]
    return key, a[0]


def _feas_uf(eng, ka, kb):
    d = eng.ghost.setdefault("feas_ufs", {})
    if (ka, kb) not in d:
        d[(ka, kb)] = z3.Function("FEAS_%d_%d" % (ka, kb), z3.IntSort(), z3.IntSort(), z3.IntSort(), z3.BoolSort())
    return d[(ka, kb)]


def feasibility_summary(eng, pos, kw):
    v, u, d = pos
    ka, ia = _row_id(eng, v)
    kb, ib = _row_id(eng, u)
    return BoolV(_feas_uf(eng, ka, kb)(to_z3(ia), to_z3(ib), to_z3(d)))


def represent_summary(eng, pos, kw):
    """one distribution per row of the matrix, max_d columns (contents abstract here)"""
    D, max_d = pos
    R = fresh_symbolic("rowdist", (D.shape[0], max_d), dtype="int", eng=eng)
    eng.ghost.setdefault("rep_calls", []).append((D, max_d, R))
    return R


def unique_max_summary(eng, pos, kw):
    """some of the given distributions (at least one when there is any), same width"""
    (R,) = pos
    k = eng.fresh_int("n_unique_max", lo=0)
    eng.assume(z3.And(k.t <= to_z3(R.shape[0]), z3.Implies(to_z3(R.shape[0]) >= 1, k.t >= 1)))
    U = fresh_symbolic("maxdist", (k, R.shape[1]), dtype="int", eng=eng)
    eng.ghost.setdefault("umax_calls", []).append((R, U))
    return U


def confirm_row_contract():
    def make_args(eng):
        k = eng.fresh_int("k", lo=3)
        K = fresh_symbolic("K", (k, k), dtype="int", origin="param:K", eng=eng)
        DY, m = sym_metric(eng, "DY")
        d = eng.fresh_int("d", lo=1)
        md = eng.fresh_int("max_diam", lo=1)
        return {"d": d, "K": K, "DY": DY, "max_diam": md}, {"k": k, "m": m}

    def ctx(e, st_or_a, env=None):
        """(FE(i,j), #Kmax, len(DY)) from the recorded helper calls; None until both have been made"""
        reps, um = e.ghost.get("rep_calls", []), e.ghost.get("umax_calls", [])
        DY = st_or_a.DY
        ry = [R for (D, _md, R) in reps if D is DY]
        if not ry or not um:
            return None
        RY, U = ry[0], um[0][1]
        keys = e.ghost.setdefault("buf_keys", {})
        ku = keys.setdefault(id(U.buf), (len(keys), U.buf))[0]
        ky = keys.setdefault(id(RY.buf), (len(keys), RY.buf))[0]
        F = _feas_uf(e, ku, ky)
        return (lambda i, j, d: F(to_z3(i), to_z3(j), to_z3(d))), U.shape[0], RY.shape[0]

    def inv_outer(st):
        e = st.eng
        c = ctx(e, st)
        if c is None:
            return [("distributions_of_K_and_of_every_row_of_DY_computed", False, "S")]
        FE, nK, mY = c
        i, lb, d = st.i, zb(lift_b(st.lb_is_confirmed)), st.d
        j, ii = z3.Int(e.uniq("qj")), z3.Int(e.uniq("qi"))
        jj = z3.Int(e.uniq("qjj"))
        allinf = z3.ForAll([j], z3.Implies(z3.And(j >= 0, j < to_z3(mY)), z3.Not(FE(lift(i) - 1, Num(j), d))))
        earlier = z3.ForAll([ii], z3.Implies(z3.And(ii >= 0, ii < to_z3(i)), z3.Exists([jj], z3.And(jj >= 0, jj < to_z3(mY), FE(Num(ii), Num(jj), d)))))
        return [("i_in_range", b_and(lift(i) >= 0, lift(i) <= nK), "S"),
                ("confirmed_means_last_row_of_K_infeasible_against_every_row_of_DY", BoolV(z3.Implies(lb, z3.And(to_z3(i) >= 1, allinf))), "P"),
                ("unconfirmed_means_every_earlier_row_of_K_has_a_feasible_row_of_DY", BoolV(z3.Implies(z3.Not(lb), earlier)), "P")]

    def inv_inner(st):
        e = st.eng
        c = ctx(e, st)
        if c is None:
            return [("distributions_of_K_and_of_every_row_of_DY_computed", False, "S")]
        FE, nK, mY = c
        i, j, lb, d = st.i, st.j, zb(lift_b(st.lb_is_confirmed)), st.d
        q, ii, jj = z3.Int(e.uniq("qj")), z3.Int(e.uniq("qi")), z3.Int(e.uniq("qjj"))
        sofar = z3.ForAll([q], z3.Implies(z3.And(q >= 0, q < to_z3(j)), z3.Not(FE(i, Num(q), d))))
        earlier = z3.ForAll([ii], z3.Implies(z3.And(ii >= 0, ii < to_z3(i)), z3.Exists([jj], z3.And(jj >= 0, jj < to_z3(mY), FE(Num(ii), Num(jj), d)))))
        return [("i_in_range", b_and(lift(i) >= 0, lift(i) < nK), "S"),
                ("j_in_range", b_and(lift(j) >= 0, lift(j) <= mY), "S"),
                ("still_confirmed_means_rows_of_DY_so_far_infeasible", BoolV(z3.Implies(lb, sofar)), "P"),
                ("refuted_means_the_last_row_of_DY_was_feasible", BoolV(z3.Implies(z3.Not(lb), z3.And(to_z3(j) >= 1, FE(i, lift(j) - 1, d)))), "P"),
                ("every_earlier_row_of_K_has_a_feasible_row_of_DY", BoolV(earlier), "P")]

    def lift_b(v):
        return v if isinstance(v, BoolV) else BoolV(z3.BoolVal(bool(v)))

    def ensures(a, res):
        e = a.eng
        c = ctx(e, a)
        if c is None:
            return [("distributions_of_K_and_of_every_row_of_DY_computed", False, "S")]
        FE, nK, mY = c
        reps = e.ghost.get("rep_calls", [])
        um = e.ghost.get("umax_calls", [])
        i, j = z3.Int(e.uniq("ei")), z3.Int(e.uniq("ej"))
        r = zb(lift_b(res))
        some_row = z3.Exists([i], z3.And(i >= 0, i < to_z3(nK), z3.ForAll([j], z3.Implies(z3.And(j >= 0, j < to_z3(mY)), z3.Not(FE(Num(i), Num(j), a.d))))))
        no_row = z3.ForAll([i], z3.Implies(z3.And(i >= 0, i < to_z3(nK)), z3.Exists([j], z3.And(j >= 0, j < to_z3(mY), FE(Num(i), Num(j), a.d)))))
        return [("returns_a_truth_value", isinstance(res, (bool, BoolV)), "P"),
                ("every_row_of_DY_is_a_candidate", lift(mY) == a.g["m"], "P"),
                ("rows_of_K_reduced_to_maximal_distributions_of_K_itself", len(um) >= 1 and any(D is a.K and R is um[0][0] for (D, _m, R) in reps), "P"),
                ("distributions_use_the_common_diameter", all(md is a.max_diam for (_D, md, _R) in reps), "P"),
                ("confirmed_only_if_some_row_of_K_is_infeasible_against_every_row_of_DY", BoolV(z3.Implies(r, some_row)), "P"),
                ("not_confirmed_only_if_every_row_of_K_has_a_feasible_row_of_DY", BoolV(z3.Implies(z3.Not(r), no_row)), "P")]
    return Contract(MOD, "confirm_lb_using_bounded_curvature_row", make_args, ensures=ensures, definedness="P",
                    loops={0: LoopContract("while not lb_is_confirmed and i <", inv_outer, cls="P"),
                           1: LoopContract("while lb_is_confirmed and j <", inv_inner, cls="P")})


def row_confirm_summary(eng, pos, kw):
    r = eng.fresh_bool("row_confirmed")
    eng.ghost.setdefault("row_calls", []).append((tuple(pos), r))
    return r


def confirm_contract():
    """confirm_lb_using_bounded_curvature == (K has more points than Y [Theorem A])  or  the row test [Theorem B] on the same arguments"""
    def make_args(eng):
        k = eng.fresh_int("k", lo=3)
        K = fresh_symbolic("K", (k, k), dtype="int", origin="param:K", eng=eng)
        DY, m = sym_metric(eng, "DY")
        d = eng.fresh_int("d", lo=1)
        md = eng.fresh_int("max_diam", lo=1)
        return {"d": d, "K": K, "DY": DY, "max_diam": md}, {"k": k, "m": m}

    def ensures(a, res):
        e = a.eng
        calls = e.ghost.get("row_calls", [])
        bigger = zb(lift(a.g["k"]) > a.g["m"])
        r = zb(res) if isinstance(res, BoolV) else z3.BoolVal(bool(res))
        out = [("at_most_one_row_test", len(calls) <= 1, "P"),
               ("more_points_than_Y_confirms", BoolV(z3.Implies(bigger, r)), "P")]
        if calls:
            args, rc = calls[0]
            out.append(("row_test_on_the_same_arguments", args[0] is a.d and args[1] is a.K and args[2] is a.DY and args[3] is a.max_diam, "P"))
            out.append(("otherwise_the_row_test_decides", BoolV(z3.Implies(z3.Not(bigger), r == zb(rc))), "P"))
        else:
            out.append(("row_test_skipped_only_when_K_is_bigger", BoolV(bigger), "P"))
        return out
    return Contract(MOD, "confirm_lb_using_bounded_curvature", make_args, ensures=ensures, definedness="P")


def lb_tables():
    C = Contract
    t_row = {(MOD, "check_assignment_feasibility"): C(MOD, "check_assignment_feasibility", None, summary=feasibility_summary),
             (MOD, "represent_distance_matrix_rows_as_distributions"): C(MOD, "represent_distance_matrix_rows_as_distributions", None, summary=represent_summary),
             (MOD, "find_unique_max_distributions"): C(MOD, "find_unique_max_distributions", None, summary=unique_max_summary)}
    t_conf = {(MOD, "confirm_lb_using_bounded_curvature_row"): C(MOD, "confirm_lb_using_bounded_curvature_row", None, summary=row_confirm_summary)}
    return t_row, t_conf


def lb_confirm_contracts(tier):
    """[(contracts, table)] - verified with their own callee tables"""
    t_row, t_conf = lb_tables()
    return [([confirm_row_contract()], t_row), ([confirm_contract()], t_conf)]


# ----------------------------------------------------------------------------- find_largest_size_bounded_curvature
# Returns a d-bounded curvature of X: the distance matrix of a subset of the points of X (a principal submatrix of DX: the same
# strictly increasing index map phi on rows and columns) all of whose off-diagonal entries are >= d.  Which row is removed in each
# round (the sort keys) only affects how large the result is - never whether it is a curvature; the keys are left abstract.
def curvature_contract():
    def make_args(eng):
        DX, n = sym_metric(eng, "DX")
        diam = eng.fresh_int("diam_X", lo=0)
        d = eng.fresh_int("d", lo=1)
        return {"DX": DX, "diam_X": diam, "d": d}, {"n": n}

    def requires(a):
        return metric_requires(a.DX, a.g["n"], "DX")

    def witness(st):
        """(phi, k): index map of the current K into DX"""
        e, g = st.eng, st.g
        K = st.K
        if K is st.entry.get("DX") or K is getattr(st, "DX", None):
            return (lambda i: i), g["n"]
        base = e.ghost.get("curv_phi")
        if base is None:
            return None, None
        phi0 = lambda i: Num(base(to_z3(lift(i))))
        if st.mode == "prove" and st.env.has("row_to_remove") and K is not e.ghost.get("curv_K"):
            r = st.env.lookup("row_to_remove")
            return (lambda i: phi0(lift(i) + ite(lift(i) >= r, 1, 0))), K.shape[0]
        return phi0, K.shape[0]

    def inv(st):
        e, g = st.eng, st.g
        K = st.K
        phi, k = witness(st)
        if phi is None:
            return [("K_is_a_principal_submatrix_of_DX", False, "S")]
        n = g["n"]
        return [("K_is_square_and_no_larger_than_DX", b_and(lift(K.shape[0]) == K.shape[1], lift(K.shape[0]) >= 0, lift(K.shape[0]) <= n), "P"),
                ("index_map_into_X", st.each([(0, k)], lambda i: b_and(lift(phi(i)) >= 0, lift(phi(i)) < n), name="cp"), "P"),
                ("index_map_strictly_increasing", st.each([(0, k), (0, k)], lambda i, j: BoolV(z3.Implies(to_z3(lift(i)) < to_z3(lift(j)), to_z3(lift(phi(i))) < to_z3(lift(phi(j))))), name="cm"), "P"),
                ("entries_are_distances_between_the_selected_points", st.each([(0, k), (0, k)], lambda i, j: lift(K.get(i, j)) == st.DX.get(phi(i), phi(j)), name="ce"), "P")]

    def havoc_K(st):
        e = st.eng
        k = e.fresh_int("k_cur", lo=0)
        K = fresh_symbolic("Kcur", (k, k), dtype="int", eng=e)
        e.ghost["curv_phi"] = z3.Function(e.uniq("phi"), z3.IntSort(), z3.IntSort())
        e.ghost["curv_K"] = K
        return K

    def ensures(a, res):
        e, g = a.eng, a.g
        if not (isinstance(res, Arr) and res.ndim == 2):
            return [("returns_a_matrix", False, "S")]
        k = res.shape[0]
        i, j = e.fresh_int("ri", lo=0, hi=k), e.fresh_int("rj", lo=0, hi=k)
        base = e.ghost.get("curv_phi")
        if res is a.DX:
            phi = lambda t: t
        elif base is not None:
            phi = lambda t: Num(base(to_z3(lift(t))))
        else:
            return [("result_is_a_principal_submatrix_of_DX", False, "S")]
        return [("square", lift(res.shape[0]) == res.shape[1], "P"),
                ("selected_points_exist_and_are_distinct", b_and(lift(phi(i)) >= 0, lift(phi(i)) < g["n"], BoolV(z3.Implies(to_z3(lift(i)) != to_z3(lift(j)), to_z3(lift(phi(i))) != to_z3(lift(phi(j)))))), "P"),
                ("entries_are_the_distances_between_the_selected_points", lift(res.get(i, j)) == a.DX.get(phi(i), phi(j)), "P"),
                ("all_distances_between_distinct_selected_points_at_least_d", BoolV(z3.Implies(to_z3(lift(i)) != to_z3(lift(j)), to_z3(lift(res.get(i, j))) >= to_z3(lift(a.d)))), "P")]
    return Contract(MOD, "find_largest_size_bounded_curvature", make_args, requires=requires, ensures=ensures, definedness="P",
                    loops={0: LoopContract("while np.any(", inv, variant=lambda st: st.K.shape[0], cls="P", havoc={"K": havoc_K})})


_lb_prev = lb_confirm_contracts


def lb_confirm_contracts(tier):     # noqa: F811
    return _lb_prev(tier) + [([curvature_contract()], {})]
