"""C09 (deductive part, tools): snap_pl, lc_approx, average_approx.

snap_pl(pls, start, stop, num_steps): one landscape per input, in order, on the common grid
     start'  = start  if given (zero included) else min of the inputs' starts          (likewise stop / max, num_steps / max)
     values'[d][i] = INTERP(grid'[i]; np.linspace(pl.start, pl.stop, pl.num_steps), pl.values[d])   for EVERY depth d of that input,
     hom_deg kept; the inputs are not modified.
INTERP is np.interp, an external dependency with an assumed contract (D26: piecewise-linear interpolation, a function of its
arguments only); the clause says which interpolation problem is solved for which entry.
"""
import z3

from pyvc.arrays import Arr, SymSeq, fresh_symbolic
from pyvc.engine import Contract, LoopContract, Obj
from pyvc.models import AppendList, buffer_key, interp_term
from pyvc.values import BoolV, Num, b_and, ite, lift, num_max, num_min, to_z3, zb
from .c09_arith import AMOD, approx_ctor_as_object, approx_obj

TMOD = "persim/landscapes/tools.py"
PARAMS = ("start", "stop", "num_steps")


def _fields_of(x):
    """keyword view of a landscape in a result list: a newly built one (constructor summary) or an input object handed back"""
    if getattr(x, "built", None) is not None:
        return x.built.kw
    if isinstance(x, Obj):
        return x.fields
    return None


def snap_contract(given, m=2):
    given = tuple(given)

    def make_args(eng):
        objs, info = [], []
        for t in range(m):
            o, grid, k, vals = approx_obj(eng, "p%d" % t)
            objs.append(o)
            info.append({"o": o, "grid": grid, "k": k, "vals": vals, "old": dict(o.fields)})
        args = {"pls": list(objs)}
        for nm in PARAMS:
            if nm in given:
                args[nm] = eng.fresh_int("num_steps_arg", lo=2) if nm == "num_steps" else eng.fresh_real(nm + "_arg")
            else:
                args[nm] = None
        return args, {"info": info, "objs": objs}

    def expected_grid(a):
        info = a.g["info"]
        def fold(f, key):
            r = info[0]["grid"][key]
            for x in info[1:]:
                r = f(r, x["grid"][key])
            return r
        start = a.start if "start" in given else fold(num_min, "start")
        stop = a.stop if "stop" in given else fold(num_max, "stop")
        num = a.num_steps if "num_steps" in given else fold(num_max, "num_steps")
        return start, stop, num

    def inv(st):
        e = st.eng
        sl, pl, G = st.snapped_landscape, st.pl, st.grid
        vals = pl.fields["values"]
        key = buffer_key(e, vals)
        f = pl.fields
        if isinstance(sl, list):
            return [("one_interpolant_per_depth_so_far", lift(len(sl)) == st.k, "S")]
        return [("one_interpolant_per_depth_so_far", lift(sl.n) == st.k, "S"),
                ("entries_live_on_the_common_grid", st.each([(0, st.k)], lambda d: lift(sl.get(d).shape[0]) == G.shape[0], name="sd"), "S"),
                ("depth_d_is_the_interpolant_of_depth_d_on_the_landscapes_own_grid",
                 st.each([(0, st.k), (0, G.shape[0])], lambda d, i: lift(sl.get(d).get(i)) == interp_term(e, key, G.get(i), f["start"], f["stop"], f["num_steps"], d), name="si"), "S")]

    def havoc_sl(st):
        e = st.eng
        k = st.env.lookup("__k_loop1")
        G = st.env.lookup("grid")
        uf = z3.Function(e.uniq("SL"), z3.IntSort(), z3.IntSort(), z3.RealSort())
        return AppendList(k, lambda d: Arr((G.shape[0],), lambda idx: Num(uf(to_z3(d), to_z3(idx[0]))), dtype="float"))

    def ensures(a, res):
        e, g = a.eng, a.g
        info = g["info"]
        out = [("one_landscape_per_input_in_order", isinstance(res, list) and len(res) == m, "P")]
        if not (isinstance(res, list) and len(res) == m):
            return out
        start, stop, num = expected_grid(a)
        step = (lift(stop) - start) / (lift(num) - 1)
        for t, (r, x) in enumerate(zip(res, info)):
            kw = _fields_of(r)
            if kw is None:
                out.append(("entry_%d_is_a_landscape" % t, False, "P"))
                continue
            out.append(("entry_%d_grid_start_as_requested_else_min_of_inputs" % t, lift(kw.get("start")) == start if kw.get("start") is not None else False, "P"))
            out.append(("entry_%d_grid_stop_as_requested_else_max_of_inputs" % t, lift(kw.get("stop")) == stop if kw.get("stop") is not None else False, "P"))
            out.append(("entry_%d_grid_size_as_requested_else_max_of_inputs" % t, lift(kw.get("num_steps")) == num if kw.get("num_steps") is not None else False, "P"))
            out.append(("entry_%d_keeps_degree" % t, kw.get("hom_deg") is x["grid"]["hom_deg"], "P"))
            V = kw.get("values")
            if not (isinstance(V, Arr) and V.ndim == 2):
                out.append(("entry_%d_values_is_a_matrix" % t, False, "P"))
                continue
            out.append(("entry_%d_every_depth_resampled_onto_the_grid" % t, b_and(lift(V.shape[0]) == x["k"], lift(V.shape[1]) == num), "P"))
            d = e.fresh_int("qd%d" % t, lo=0, hi=x["k"])
            i = e.fresh_int("qi%d" % t, lo=0, hi=num)
            key = buffer_key(e, x["vals"])
            want = interp_term(e, key, lift(start) + lift(i) * step, x["grid"]["start"], x["grid"]["stop"], x["grid"]["num_steps"], d)
            # D26, second half: the interpolant passes through the data - on its own grid a landscape is its own interpolant
            own = z3.And(*[to_z3(lift(u)) == to_z3(lift(v)) for u, v in ((start, x["grid"]["start"]), (stop, x["grid"]["stop"]), (num, x["grid"]["num_steps"]))])
            e.axiom(z3.Implies(own, to_z3(want) == to_z3(e.under(zb(b_and(lift(d) >= 0, lift(d) < x["k"], lift(i) >= 0, lift(i) < x["grid"]["num_steps"])), lambda x=x: x["vals"].get(d, i), default=0.0))))
            # class S: INTERP is abstract, so a refutation is a violation only together with a failing input found on the real code
            out.append(("entry_%d_is_linear_interpolation_of_every_depth_from_its_own_grid" % t, lift(V.get(d, i)) == want, "S"))
            out.append(("frame.input_%d_untouched" % t, set(x["o"].fields) == set(x["old"]) and all(x["o"].fields[k] is x["old"][k] for k in x["old"]), "P"))
        out.append(("frame.callers_list_untouched", len(a.pls) == m and all(p is o for p, o in zip(a.pls, g["objs"])), "P"))
        return out
    return Contract(TMOD, "snap_pl", make_args, ensures=ensures, definedness="P", variant="given=%s" % ",".join(given),
                    loops={1: LoopContract("for funct in pl", inv, cls="P", havoc={"snapped_landscape": havoc_sl})})


# ----------------------------------------------------------------------------- callee summaries used by lc_approx / average_approx
def _new_landscape(eng, grid, values):
    return approx_ctor_as_object(eng, [], dict(start=grid["start"], stop=grid["stop"], num_steps=grid["num_steps"], hom_deg=grid["hom_deg"], values=values))


def rmul_summary(eng, pos, kw):
    """contract of PersLandscapeApprox.__rmul__ / __mul__ (proved in c09_arith): a new landscape on the same grid, values scaled"""
    o, c = pos
    from pyvc.values import is_num
    if not is_num(c):
        raise Exception("non-numeric factor")
    f = o.fields
    fv = f["values"].snapshot_fn()
    eng.ghost.setdefault("scaled", []).append((o, c))
    return _new_landscape(eng, f, Arr(f["values"].shape, lambda idx: lift(c) * fv(idx), dtype="float"))


def add_summary(eng, pos, kw):
    """contract of PersLandscapeApprox.__add__ (proved in c09_arith): ValueError unless degree and grid agree; else a new landscape,
    pointwise sum with the shallower operand padded by zero rows"""
    x, y = pos
    fx, fy = x.fields, y.fields
    differ = z3.Or(*[to_z3(lift(fx[k])) != to_z3(lift(fy[k])) for k in ("hom_deg", "start", "stop", "num_steps")])
    if eng.branch(differ):
        eng.py_raise("ValueError", "grids or degrees differ")
    vx, vy = fx["values"], fy["values"]
    kx, ky = vx.shape[0], vy.shape[0]
    kmax = ite(lift(kx) >= ky, kx, ky)
    gx, gy = vx.snapshot_fn(), vy.snapshot_fn()

    def cell(idx):
        i = idx[0]
        a = ite(lift(i) < kx, eng.under(zb(lift(i) < kx), lambda: gx(idx), default=0.0), 0.0)
        b = ite(lift(i) < ky, eng.under(zb(lift(i) < ky), lambda: gy(idx), default=0.0), 0.0)
        return lift(a) + b
    return _new_landscape(eng, fx, Arr((kmax, vx.shape[1]), cell, dtype="float"))


def snap_summary(m):
    """contract of snap_pl as proved above - deliberately WITHOUT a freshness promise: an entry may be the input object itself when
    that input already lives on the common grid (its interpolant onto its own grid is itself, D26)"""
    def f(eng, pos, kw):
        pls = pos[0] if pos else kw["pls"]
        args = {k: kw.get(k) for k in PARAMS}
        eng.ghost.setdefault("snap_calls", []).append((pls, args))
        def fold(fn, key):
            r = pls[0].fields[key]
            for x in pls[1:]:
                r = fn(r, x.fields[key])
            return r
        start = args["start"] if args["start"] is not None else fold(num_min, "start")
        stop = args["stop"] if args["stop"] is not None else fold(num_max, "stop")
        num = args["num_steps"] if args["num_steps"] is not None else fold(num_max, "num_steps")
        out = []
        for t, pl in enumerate(pls):
            f_ = pl.fields
            same = z3.And(to_z3(lift(f_["start"])) == to_z3(lift(start)), to_z3(lift(f_["stop"])) == to_z3(lift(stop)), to_z3(lift(f_["num_steps"])) == to_z3(lift(num)))
            if eng.branch(same) and eng.decide("snap_returns_input_%d" % t):
                out.append(pl)
                continue
            vals = fresh_symbolic("snapped%d" % t, (f_["values"].shape[0], num), dtype="float", eng=eng)
            out.append(_new_landscape(eng, {"start": start, "stop": stop, "num_steps": num, "hom_deg": f_["hom_deg"]}, vals))
        eng.ghost["snapped"] = (out, {"start": start, "stop": stop, "num_steps": num})
        return out
    return f


def lc_contract(given, m=2):
    given = tuple(given)

    def make_args(eng):
        objs, info = [], []
        hd = eng.fresh_int("hd", lo=0)
        for t in range(m):
            o, grid, k, vals = approx_obj(eng, "p%d" % t)
            o.fields["hom_deg"] = hd            # same degree (mismatched degrees are rejected by __add__, see c09_arith)
            objs.append(o)
            info.append({"o": o, "k": k, "vals": vals, "old": dict(o.fields)})
        coeffs = [eng.fresh_real("c%d" % t) for t in range(m)]
        args = {"landscapes": list(objs), "coeffs": list(coeffs)}
        for nm in PARAMS:
            args[nm] = (eng.fresh_int("num_steps_arg", lo=2) if nm == "num_steps" else eng.fresh_real(nm + "_arg")) if nm in given else None
        return args, {"info": info, "objs": objs, "coeffs": coeffs}

    def ensures(a, res):
        e, g = a.eng, a.g
        calls = e.ghost.get("snap_calls", [])
        out = [("resampled_once_onto_the_requested_grid", len(calls) == 1 and calls[0][0] is a.landscapes and all(calls[0][1][k] is getattr(a, k) for k in PARAMS), "P")]
        for t, x in enumerate(g["info"]):
            out.append(("frame.input_%d_untouched" % t, set(x["o"].fields) == set(x["old"]) and all(x["o"].fields[k] is x["old"][k] for k in x["old"]), "P"))
        out.append(("frame.callers_lists_untouched", len(a.landscapes) == m and all(p is o for p, o in zip(a.landscapes, g["objs"])) and len(a.coeffs) == m and all(p is o for p, o in zip(a.coeffs, g["coeffs"])), "P"))
        if len(calls) != 1 or "snapped" not in e.ghost:
            return out
        snapped, grid = e.ghost["snapped"]
        kw = _fields_of(res)
        if kw is None:
            return out + [("returns_a_landscape", False, "S")]
        out.append(("result_on_the_common_grid", b_and(lift(kw.get("start")) == grid["start"], lift(kw.get("stop")) == grid["stop"], lift(kw.get("num_steps")) == grid["num_steps"]), "P"))
        V = kw.get("values")
        if not (isinstance(V, Arr) and V.ndim == 2):
            return out + [("values_is_a_matrix", False, "S")]
        # the snapped values as handed back by snap_pl (for an entry that is the input itself: the input's values at the time of the call)
        svals = [(s.fields["values"] if s is not x["o"] else x["old"]["values"]) for s, x in zip(snapped, g["info"])]
        kmax = svals[0].shape[0]
        for sv in svals[1:]:
            kmax = ite(lift(kmax) >= sv.shape[0], kmax, sv.shape[0])
        out.append(("depth_is_the_largest_depth", b_and(lift(V.shape[0]) == kmax, lift(V.shape[1]) == grid["num_steps"]), "P"))
        d = e.fresh_int("qd", lo=0, hi=kmax)
        i = e.fresh_int("qi", lo=0, hi=grid["num_steps"])
        total = 0.0
        for c, sv in zip(g["coeffs"], svals):
            cell = ite(lift(d) < sv.shape[0], e.under(zb(lift(d) < sv.shape[0]), lambda sv=sv: sv.get(d, i), default=0.0), 0.0)
            total = lift(total) + lift(c) * cell
        out.append(("values_are_the_same_combination_of_the_resampled_values_missing_depths_as_zero", lift(V.get(d, i)) == total, "P"))
        return out
    return Contract(TMOD, "lc_approx", make_args, ensures=ensures, definedness="P", variant="given=%s" % ",".join(given))


def lc_summary(eng, pos, kw):
    if pos:
        raise Exception("lc_approx called positionally")
    r = approx_ctor_as_object(eng, [], dict(start=0.0, stop=1.0, num_steps=2, hom_deg=0, values=fresh_symbolic("lc", (1, 2), dtype="float", eng=eng)))
    eng.ghost.setdefault("lc_calls", []).append((dict(kw), r))
    return r


def average_contract(given, m=3):
    given = tuple(given)

    def make_args(eng):
        objs = [approx_obj(eng, "p%d" % t)[0] for t in range(m)]
        args = {"landscapes": list(objs)}
        for nm in PARAMS:
            args[nm] = (eng.fresh_int("num_steps_arg", lo=2) if nm == "num_steps" else eng.fresh_real(nm + "_arg")) if nm in given else None
        return args, {"objs": objs}

    def ensures(a, res):
        e = a.eng
        calls = e.ghost.get("lc_calls", [])
        out = [("one_linear_combination", len(calls) == 1, "P")]
        if len(calls) != 1:
            return out
        kw, r = calls[0]
        out.append(("of_the_given_landscapes_on_the_requested_grid", kw.get("landscapes") is a.landscapes and all(kw.get(k) is getattr(a, k) for k in PARAMS), "P"))
        cs = kw.get("coeffs")
        ok = isinstance(cs, (list, tuple)) and len(cs) == m
        out.append(("one_coefficient_per_landscape", ok, "P"))
        if ok:
            for t, c in enumerate(cs):
                # 1.0 / m is evaluated by the interpreter on concrete floats (correctly rounded): exact up to one unit in the last place
                out.append(("coefficient_%d_is_one_over_the_number_of_landscapes" % t, abs(lift(c) * m - 1) <= 2.0 ** -52, "P"))
        out.append(("returns_that_combination", res is r, "P"))
        return out
    return Contract(TMOD, "average_approx", make_args, ensures=ensures, definedness="P", variant="given=%s,m=%d" % (",".join(given), m))


def all_contracts(tier):
    """[(contracts, callee table)]"""
    combos = [(), ("start",), ("stop",), ("num_steps",), ("start", "stop", "num_steps")]
    if tier != "quick":
        combos += [("start", "stop"), ("start", "num_steps"), ("stop", "num_steps")]
    ctor = {"__class_summaries": {"PersLandscapeApprox": approx_ctor_as_object}}
    C = Contract
    t_lc = dict(ctor)
    t_lc.update({(TMOD, "snap_pl"): C(TMOD, "snap_pl", None, summary=snap_summary(2)),
                 (AMOD, "PersLandscapeApprox.__rmul__"): C(AMOD, "PersLandscapeApprox.__rmul__", None, summary=rmul_summary),
                 (AMOD, "PersLandscapeApprox.__mul__"): C(AMOD, "PersLandscapeApprox.__mul__", None, summary=rmul_summary),
                 (AMOD, "PersLandscapeApprox.__add__"): C(AMOD, "PersLandscapeApprox.__add__", None, summary=add_summary)})
    t_avg = dict(ctor)
    t_avg[(TMOD, "lc_approx")] = C(TMOD, "lc_approx", None, summary=lc_summary)
    return [([snap_contract(c) for c in combos], ctor),
            ([lc_contract(c) for c in ((), ("start", "stop", "num_steps"))], t_lc),
            ([average_contract(c, m) for c, m in (((), 3), (("start", "stop", "num_steps"), 2))], t_avg)]
