"""C20 (deductive part) - matching plots: call-trace contracts on an abstract Axes.

bottleneck_matching / wasserstein_matching(dgm1, dgm2, matching, ax=ax):
   exactly one `ax.plot` per matching row that involves a point (i != -1 or j != -1), in row order, joining
   dgm1[i] and dgm2[j], or the point and its perpendicular foot ((b+d)/2, (b+d)/2) on the diagonal;
   the arg-max row of the bottleneck matching is drawn in the emphasised style, every other in the plain one;
   nothing is drawn through pyplot's implicit current axes;  plot_diagrams is called once on the same ax.
"""
import z3

from pyvc.arrays import Arr, fresh_symbolic
from pyvc.engine import Contract, LoopContract
from pyvc.models import AppendList, PrefixEnum, Recorder
from pyvc.values import Num, b_and, b_not, b_or, ite, lift, to_int_trunc, to_z3, zb
from .common import sym_diagram

MOD = "persim/visuals.py"


def pd_summary(eng, pos, kw):
    eng.ghost.setdefault("pd_calls", []).append((pos, kw))
    return None


def matching_contract(which):
    qual = which + "_matching"
    emphasise = which == "bottleneck"

    def make_args(eng):
        d1, n1 = sym_diagram(eng, "dgm1", lo=1)
        d2, n2 = sym_diagram(eng, "dgm2", lo=1)
        r = eng.fresh_int("n_rows", lo=1)
        M = fresh_symbolic("matching", (r, 3), dtype="float", origin="param:matching", eng=eng)
        ax = Recorder("ax")
        return {"dgm1": d1, "dgm2": d2, "matching": M, "ax": ax}, {"n1": n1, "n2": n2, "r": r, "M": M, "ax": ax, "d1": d1, "d2": d2}

    def requires(a):
        g = a.g
        M = g["M"]
        q = z3.Int("rq")
        I = lambda t: z3.ToReal(z3.ToInt(t)) == t
        rows = z3.ForAll([q], z3.Implies(z3.And(q >= 0, q < to_z3(g["r"])),
                                         z3.And(I(M.uf(q, 0)), I(M.uf(q, 1)), M.uf(q, 0) >= -1, M.uf(q, 0) < z3.ToReal(to_z3(g["n1"])),
                                                M.uf(q, 1) >= -1, M.uf(q, 1) < z3.ToReal(to_z3(g["n2"])))), patterns=[M.uf(q, 0)])
        return [("matching_rows_are_a_certificate_indices_in_range_or_minus_one", rows)]

    def row_ij(g, r):
        M = g["M"]
        return to_int_trunc(M.get(r, 0)), to_int_trunc(M.get(r, 1))

    def selected(g, r):
        i, j = row_ij(g, r)
        return b_or(lift(i) != -1, lift(j) != -1)

    def callspec(st_g, e, r, max_idx):
        g = st_g
        i, j = row_ij(g, r)
        d1, d2 = g["d1"], g["d2"]
        inr = z3.And(to_z3(r) >= 0, to_z3(r) < to_z3(g["r"]))

        def both():
            return [d1.get(i, 0), d2.get(j, 0), d1.get(i, 1), d2.get(j, 1)]

        def foot2():
            m = (d2.get(j, 0) + d2.get(j, 1)) / 2
            return [d2.get(j, 0), m, d2.get(j, 1), m]

        def foot1():
            m = (d1.get(i, 0) + d1.get(i, 1)) / 2
            return [d1.get(i, 0), m, d1.get(i, 1), m]
        ci, cj = zb(lift(i) == -1), zb(lift(j) == -1)
        a = e.under(z3.And(inr, z3.Not(ci), z3.Not(cj)), both, default=[0.0] * 4)
        b = e.under(z3.And(inr, ci, z3.Not(cj)), foot2, default=[0.0] * 4)
        c = e.under(z3.And(inr, z3.Not(ci), cj), foot1, default=[0.0] * 4)
        if not isinstance(a, list):
            a = [0.0] * 4
        if not isinstance(b, list):
            b = [0.0] * 4
        if not isinstance(c, list):
            c = [0.0] * 4
        coords = [ite(ci, bb, ite(cj, cc, aa)) for aa, bb, cc in zip(a, b, c)]
        style = ite(lift(r) == max_idx, 1, 0) if emphasise else 0
        return coords + [style]

    def get_pe(st):
        g = st.g
        if "pe" not in g:
            g["pe"] = PrefixEnum(st.eng, g["r"], lambda r: selected(g, r), "segs")
        return g["pe"]

    def max_idx_of(st):
        return st.env.lookup("max_idx") if emphasise else 0

    def havoc_ax(st):
        pe = get_pe(st)
        k = st.env.lookup("__k_loop0")
        ax = st.g["ax"]
        mi = max_idx_of(st)
        ax.plots = AppendList(pe.count_upto(k), lambda r: callspec(st.g, st.eng, pe.source(r), mi))
        return ax

    def inv(st):
        e, g = st.eng, st.g
        pe = get_pe(st)
        if not isinstance(st.k, int):
            pe.count_upto(st.k - 1)
        ax = g["ax"]
        mi = max_idx_of(st)
        plt_rec = e.ghost.get("plt_rec")
        out = [("nothing_drawn_through_pyplot_current_axes", (plt_rec is None) or (isinstance(plt_rec.plots.n, int) and plt_rec.plots.n == 0 and not [c for c in plt_rec.other if c[0] not in ("gca",)]), "P"),
               ("one_segment_per_row_involving_a_point", lift(ax.plots.n) == pe.count_upto(st.k), "P")]

        def seg_ok(r):
            got = ax.plots.get(r)
            want = callspec(g, e, pe.source(r), mi)
            return b_and(*[lift(x) == y for x, y in zip(got, want)])
        out.append(("segments_join_the_matched_points_or_point_and_diagonal_foot", st.each([(0, ax.plots.n)], seg_ok, name="sg"), "P"))
        return out

    def ensures(a, res):
        e, g = a.eng, a.g
        pe = g.get("pe")
        out = []
        if pe is None:
            return [("segment_loop_reached", False, "P")]
        plt_rec = e.ghost.get("plt_rec")
        out.append(("nothing_drawn_through_pyplot_current_axes", (plt_rec is None) or (isinstance(plt_rec.plots.n, int) and plt_rec.plots.n == 0), "P"))
        out.append(("number_of_segments_is_number_of_rows_involving_a_point", lift(g["ax"].plots.n) == pe.total, "P"))
        pd = e.ghost.get("pd_calls", [])
        ok = len(pd) == 1 and pd[0][1].get("ax") is g["ax"] and isinstance(pd[0][0][0], list) and len(pd[0][0][0]) == 2
        out.append(("diagrams_plotted_once_on_the_given_axes", ok, "P"))
        return out

    return Contract(MOD, qual, make_args, requires=requires, ensures=ensures, definedness="assume",
                    loops={0: LoopContract("for ", inv, havoc={"ax": havoc_ax}, cls="P")}, variant=which)


def all_contracts(tier):
    cs = [matching_contract("bottleneck"), matching_contract("wasserstein")]
    table = {(MOD, "plot_diagrams"): Contract(MOD, "plot_diagrams", None, summary=pd_summary)}
    return cs, table
