"""C20 (deductive part) - matching plots: call-trace contracts on an abstract Axes.

bottleneck_matching / wasserstein_matching(dgm1, dgm2, matching, ax=ax):
   exactly one `ax.plot` per matching row that involves a point (i != -1 or j != -1), in row order, joining
   dgm1[i] and dgm2[j], or the point and its perpendicular foot ((b+d)/2, (b+d)/2) on the diagonal;
   the arg-max row of the bottleneck matching is drawn in the emphasised style, every other in the plain one;
   nothing is drawn through pyplot's implicit current axes;  plot_diagrams is called once on the same ax.
"""
import z3

from pyvc.arrays import Arr, fresh_symbolic
from pyvc.engine import Contract, LoopContract
from pyvc.models import AppendList, PrefixEnum, Recorder
from pyvc.values import Num, b_and, b_not, b_or, ite, lift, to_int_trunc, to_z3, zb
from .common import sym_diagram

MOD = "persim/visuals.py"


def pd_summary(eng, pos, kw):
    eng.ghost.setdefault("pd_calls", []).append((pos, kw))
    return None


def matching_contract(which):
    qual = which + "_matching"
    emphasise = which == "bottleneck"

    def make_args(eng):
        d1, n1 = sym_diagram(eng, "dgm1", lo=1)
        d2, n2 = sym_diagram(eng, "dgm2", lo=1)
        r = eng.fresh_int("n_rows", lo=1)
        M = fresh_symbolic("matching", (r, 3), dtype="float", origin="param:matching", eng=eng)
        ax = Recorder("ax")
        return {"dgm1": d1, "dgm2": d2, "matching": M, "ax": ax}, {"n1": n1, "n2": n2, "r": r, "M": M, "ax": ax, "d1": d1, "d2": d2}

    def requires(a):
        g = a.g
        M = g["M"]
        q = z3.Int("rq")
        I = lambda t: z3.ToReal(z3.ToInt(t)) == t
        rows = z3.ForAll([q], z3.Implies(z3.And(q >= 0, q < to_z3(g["r"])),
                                         z3.And(I(M.uf(q, 0)), I(M.uf(q, 1)), M.uf(q, 0) >= -1, M.uf(q, 0) < z3.ToReal(to_z3(g["n1"])),
                                                M.uf(q, 1) >= -1, M.uf(q, 1) < z3.ToReal(to_z3(g["n2"])))), patterns=[M.uf(q, 0)])
        return [("matching_rows_are_a_certificate_indices_in_range_or_minus_one", rows)]

    def row_ij(g, r):
        M = g["M"]
        return to_int_trunc(M.get(r, 0)), to_int_trunc(M.get(r, 1))

    def selected(g, r):
        i, j = row_ij(g, r)
        return b_or(lift(i) != -1, lift(j) != -1)

    def callspec(st_g, e, r, max_idx):
        g = st_g
        i, j = row_ij(g, r)
        d1, d2 = g["d1"], g["d2"]
        inr = z3.And(to_z3(r) >= 0, to_z3(r) < to_z3(g["r"]))

        def both():
            return [d1.get(i, 0), d2.get(j, 0), d1.get(i, 1), d2.get(j, 1)]

        def foot2():
            m = (d2.get(j, 0) + d2.get(j, 1)) / 2
            return [d2.get(j, 0), m, d2.get(j, 1), m]

        def foot1():
            m = (d1.get(i, 0) + d1.get(i, 1)) / 2
            return [d1.get(i, 0), m, d1.get(i, 1), m]
        ci, cj = zb(lift(i) == -1), zb(lift(j) == -1)
        a = e.under(z3.And(inr, z3.Not(ci), z3.Not(cj)), both, default=[0.0] * 4)
        b = e.under(z3.And(inr, ci, z3.Not(cj)), foot2, default=[0.0] * 4)
        c = e.under(z3.And(inr, z3.Not(ci), cj), foot1, default=[0.0] * 4)
        if not isinstance(a, list):
            a = [0.0] * 4
        if not isinstance(b, list):
            b = [0.0] * 4
        if not isinstance(c, list):
            c = [0.0] * 4
        coords = [ite(ci, bb, ite(cj, cc, aa)) for aa, bb, cc in zip(a, b, c)]
        style = ite(lift(r) == max_idx, 1, 0) if emphasise else 0
        return coords + [style]

    def get_pe(st):
        g = st.g
        if "pe" not in g:
            g["pe"] = PrefixEnum(st.eng, g["r"], lambda r: selected(g, r), "segs")
        return g["pe"]

    def max_idx_of(st):
        return st.env.lookup("max_idx") if emphasise else 0

    def havoc_ax(st):
        pe = get_pe(st)
        k = st.env.lookup("__k_loop0")
        ax = st.g["ax"]
        mi = max_idx_of(st)
        ax.plots = AppendList(pe.count_upto(k), lambda r: callspec(st.g, st.eng, pe.source(r), mi))
        return ax

    def inv(st):
        e, g = st.eng, st.g
        pe = get_pe(st)
        if not isinstance(st.k, int):
            pe.count_upto(st.k - 1)
        ax = g["ax"]
        mi = max_idx_of(st)
        plt_rec = e.ghost.get("plt_rec")
        out = [("nothing_drawn_through_pyplot_current_axes", (plt_rec is None) or (isinstance(plt_rec.plots.n, int) and plt_rec.plots.n == 0 and not [c for c in plt_rec.other if c[0] not in ("gca",)]), "P"),
               ("one_segment_per_row_involving_a_point", lift(ax.plots.n) == pe.count_upto(st.k), "P")]

        def seg_ok(r):
            got = ax.plots.get(r)
            want = callspec(g, e, pe.source(r), mi)
            return b_and(*[lift(x) == y for x, y in zip(got, want)])
        out.append(("segments_join_the_matched_points_or_point_and_diagonal_foot", st.each([(0, ax.plots.n)], seg_ok, name="sg"), "P"))
        return out

    def ensures(a, res):
        e, g = a.eng, a.g
        pe = g.get("pe")
        out = []
        if pe is None:
            return [("segment_loop_reached", False, "S")]
        plt_rec = e.ghost.get("plt_rec")
        out.append(("nothing_drawn_through_pyplot_current_axes", (plt_rec is None) or (isinstance(plt_rec.plots.n, int) and plt_rec.plots.n == 0), "P"))
        out.append(("number_of_segments_is_number_of_rows_involving_a_point", lift(g["ax"].plots.n) == pe.total, "P"))
        pd = e.ghost.get("pd_calls", [])
        ok = len(pd) == 1 and pd[0][1].get("ax") is g["ax"] and isinstance(pd[0][0][0], list) and len(pd[0][0][0]) == 2
        out.append(("diagrams_plotted_once_on_the_given_axes", ok, "P"))
        return out

    return Contract(MOD, qual, make_args, requires=requires, ensures=ensures, definedness="assume",
                    loops={0: LoopContract("for ", inv, havoc={"ax": havoc_ax}, cls="P")}, variant=which)


def all_contracts(tier):
    cs = [matching_contract("bottleneck"), matching_contract("wasserstein")]
    table = {(MOD, "plot_diagrams"): Contract(MOD, "plot_diagrams", None, summary=pd_summary)}
    return cs, table


# ----------------------------------------------------------------------------- plot_diagrams as a call-trace contract
# One scatter per plotted diagram, in order, at (birth, death) - (birth, death - birth) in lifetime mode - with infinite deaths on the
# infinity line, which lies strictly inside the y-limits; limits contain every finite coordinate unless a range is given; labels,
# title, legend, show as requested; nothing through pyplot's current axes; the caller's arrays are not written.
def plot_diagrams_contract(lifetime=False, with_range=False, n_dgms=2, legend=True, title=True):
    from pyvc.values import BoolV
    from pyvc import values as V

    def make_args(eng):
        ds, ns = [], []
        for t in range(n_dgms):
            n = eng.fresh_int("n%d" % t, lo=1)
            D = fresh_symbolic("dgm%d" % t, (n, 2), dtype="float", origin="param:diagrams[%d]" % t, finite=False, eng=eng)
            ds.append(D)
            ns.append(n)
        ax = Recorder("ax")
        args = {"diagrams": list(ds) if n_dgms > 1 else ds[0], "lifetime": lifetime, "legend": legend, "ax": ax, "title": "T" if title else None}
        g = {"ds": ds, "ns": ns, "ax": ax}
        if with_range:
            r = [eng.fresh_real(nm) for nm in ("xr0", "xr1", "yr0", "yr1")]
            eng.assume(z3.And(r[0].t < r[1].t, r[2].t < r[3].t))
            args["xy_range"] = list(r)
            g["range"] = r
        return args, g

    def is_pinf(v):
        v = lift(v)
        return V._kterm(v.k) == 1

    def requires(a):
        # births finite; deaths finite or +inf, not below the birth; two different finite coordinates exist (a non-degenerate picture)
        out = []
        e = a.eng
        for t, (D, n) in enumerate(zip(a.g["ds"], a.g["ns"])):
            i = z3.Int("pq%d" % t)
            rng = z3.And(i >= 0, i < to_z3(n))
            b = e.under(rng, lambda D=D, i=i: D.get(Num(i), 0))
            d = e.under(rng, lambda D=D, i=i: D.get(Num(i), 1))
            out.append(("diagram_%d_births_finite_deaths_finite_or_plus_inf_and_not_before_birth" % t,
                        z3.ForAll([i], z3.Implies(rng, z3.And(V._kterm(lift(b).k) == 0, z3.Or(V._kterm(lift(d).k) == 0, V._kterm(lift(d).k) == 1),
                                                              z3.Implies(V._kterm(lift(d).k) == 0, to_z3(lift(d)) >= to_z3(lift(b))))))))
        D0 = a.g["ds"][0]
        w1, w2 = e.fresh_int("wa", lo=0, hi=a.g["ns"][0]), e.fresh_int("wb", lo=0, hi=a.g["ns"][0])
        a.g["w"] = (w1, w2)
        out.append(("two_different_finite_coordinates", z3.And(V._kterm(lift(D0.get(w2, 1)).k) == 0, to_z3(lift(D0.get(w1, 0))) < to_z3(lift(D0.get(w2, 1))))))
        return out

    def flat_index(g, t, k, c):
        off = 0
        for n in g["ns"][:t]:
            off = off + n
        return (off + lift(k)) * 2 + c

    def query_rows(e, g):
        if "qk" not in g:
            g["qk"] = [e.fresh_int("ks%d" % t, lo=0, hi=n) for t, n in enumerate(g["ns"])]
            # ground instances of the (quantified) precondition at the rows asked about
            for t, k in enumerate(g["qk"]):
                D = g["ds"][t]
                rng = z3.And(to_z3(k) >= 0, to_z3(k) < to_z3(lift(g["ns"][t])))
                b = e.under(rng, lambda: D.get(k, 0), default=0.0)
                d = e.under(rng, lambda: D.get(k, 1), default=0.0)
                e.axiom(z3.Implies(rng, z3.And(V._kterm(lift(b).k) == 0, z3.Or(V._kterm(lift(d).k) == 0, V._kterm(lift(d).k) == 1),
                                               z3.Implies(V._kterm(lift(d).k) == 0, to_z3(lift(d)) >= to_z3(lift(b))))))
        return g["qk"]

    def hint_extent(st):
        # D6 facts of the finite-coordinate selection at the rows the postcondition asks about and at the precondition's witnesses,
        # then the instances of  ax_min <= coordinate <= ax_max  for those entries
        e, g = st.eng, st.g
        info = getattr(st.finite_dgms, "compress", None)
        if info is None:
            return []
        out = []
        qs = [(t, k, c) for t, k in enumerate(query_rows(e, g)) for c in (0, 1)] + [(0, g["w"][0], 0), (0, g["w"][1], 1)]
        for (t, k, c) in qs:
            fi = flat_index(g, t, k, c)
            v = g["ds"][t].get(k, c)
            fin = V._kterm(lift(v).k) == 0
            r = e.under(fin, lambda fi=fi: info.rank_of(fi), default=None)
            if r is None:
                continue
            got = e.under(fin, lambda r=r: st.finite_dgms.get(r), default=0.0)
            from pyvc.models import instantiate_extremes
            e.under(fin, lambda r=r: instantiate_extremes(e, st.finite_dgms, r), default=None)
            out.append(("selected_entry_%d_%s_%d_is_the_coordinate" % (t, str(k)[:6], c), BoolV(z3.Implies(fin, to_z3(lift(got)) == to_z3(lift(v))))))
            out.append(("extent_contains_%d_%s_%d" % (t, str(k)[:6], c), BoolV(z3.Implies(fin, z3.And(to_z3(lift(st.ax_min)) <= to_z3(lift(v)), to_z3(lift(v)) <= to_z3(lift(st.ax_max)))))))
        return out

    def hint_any_inf(st):
        # np.any(...) false  =>  false at each entry the postcondition asks about (ground instances of the reduction's meaning)
        e, g = st.eng, st.g
        out = []
        for t, k in enumerate(query_rows(e, g)):
            for c in (0, 1):
                fi = flat_index(g, t, k, c)
                from pyvc.models import instantiate_all
                instantiate_all(e, st.has_inf, fi)
                v = e.under(z3.And(to_z3(lift(k)) >= 0, to_z3(lift(k)) < to_z3(lift(g["ns"][t]))), lambda fi=fi: st.concat_dgms.get(fi), default=0.0)
                out.append(("no_infinite_entry_means_entry_%d_%d_finite" % (t, c), BoolV(z3.Implies(z3.Not(zb(st.has_inf)), V._kterm(lift(v).k) == 0))))
        return out

    def hint_nonempty(st):
        # the finite selection is not empty: the precondition's witnesses are finite coordinates (D6 facts at those positions)
        e, g = st.eng, st.g
        info = getattr(st.finite_dgms, "compress", None)
        if info is not None:
            for (t, k, c) in ((0, g["w"][0], 0), (0, g["w"][1], 1)):
                info.rank_of(flat_index(g, t, k, c))
        return []

    def ensures(a, res):
        e, g = a.eng, a.g
        ax = g["ax"]
        calls = {}
        for (m, pos, kw) in ax.other:
            calls.setdefault(m, []).append((pos, kw))
        sc = calls.get("scatter", [])
        out = [("one_scatter_per_diagram", len(sc) == n_dgms, "P"),
               ("limits_set_once", len(calls.get("set_xlim", [])) == 1 and len(calls.get("set_ylim", [])) == 1, "P"),
               ("title_as_requested", (len(calls.get("set_title", [])) == 1 and calls["set_title"][0][0][0] == "T") if title else ("set_title" not in calls), "P"),
               ("legend_iff_requested", (len(calls.get("legend", [])) == 1) == bool(legend), "P"),
               ("nothing_through_pyplot_current_axes", "gca_axes" not in e.ghost and not [c for c in getattr(e.ghost.get("plt_rec"), "other", []) if c[0] not in ("style",)], "P")]
        if len(sc) != n_dgms or len(calls.get("set_xlim", [])) != 1 or len(calls.get("set_ylim", [])) != 1:
            return out
        xl, yl = calls["set_xlim"][0][0][0], calls["set_ylim"][0][0][0]
        x_down, x_up, y_down, y_up = xl[0], xl[1], yl[0], yl[1]
        out.append(("axes_have_positive_extent", b_and(lift(x_down) < x_up, lift(y_down) < y_up), "P"))
        for t, ((pos, kw), D, n) in enumerate(zip(sc, g["ds"], g["ns"])):
            X, Y = pos[0], pos[1]
            ok = isinstance(X, Arr) and isinstance(Y, Arr) and X.ndim == 1 and Y.ndim == 1
            out.append(("scatter_%d_gets_coordinate_vectors" % t, ok, "P"))
            if not ok:
                continue
            k = query_rows(e, g)[t]
            out.append(("scatter_%d_has_one_marker_per_point" % t, b_and(lift(X.shape[0]) == n, lift(Y.shape[0]) == n), "P"))
            b, d = D.get(k, 0), D.get(k, 1)
            out.append(("scatter_%d_abscissa_is_the_birth" % t, lift(X.get(k)) == b, "P"))
            fin = V._kterm(lift(d).k) == 0
            want = (lift(d) - b) if lifetime else lift(d)
            out.append(("scatter_%d_ordinate_of_a_finite_point" % t, BoolV(z3.Implies(fin, z3.And(V._kterm(lift(Y.get(k)).k) == 0, to_z3(lift(Y.get(k))) == to_z3(want)))), "P"))
            out.append(("scatter_%d_infinite_death_on_a_line_strictly_inside_the_axes" % t,
                        BoolV(z3.Implies(z3.Not(fin), z3.And(V._kterm(lift(Y.get(k)).k) == 0, to_z3(lift(Y.get(k))) > to_z3(lift(y_down)), to_z3(lift(Y.get(k))) < to_z3(lift(y_up))))), "P"))
            if not with_range:
                out.append(("x_limits_contain_birth_%d" % t, b_and(lift(x_down) <= b, lift(b) <= x_up), "P"))
                out.append(("y_limits_contain_finite_ordinate_%d" % t, BoolV(z3.Implies(fin, z3.And(to_z3(lift(y_down)) <= to_z3(want), to_z3(want) <= to_z3(lift(y_up))))), "P"))
        if with_range and not lifetime:
            r = g["range"]
            out.append(("limits_are_the_requested_range", b_and(lift(x_down) == r[0], lift(x_up) == r[1], lift(y_down) == r[2], lift(y_up) == r[3]), "P"))
        return out
    return Contract(MOD, "plot_diagrams", make_args, requires=requires, ensures=ensures, definedness="P",
                    hints=[("ax_min, ax_max = ", hint_extent), ("has_inf = ", hint_any_inf), ("finite_dgms = ", hint_nonempty)],
                    variant="lifetime=%s,range=%s,n=%d,legend=%s,title=%s" % (lifetime, with_range, n_dgms, legend, title))


def plot_diagrams_contracts(tier):
    cs = [plot_diagrams_contract(False, False, 2, True, True), plot_diagrams_contract(True, False, 2, False, False), plot_diagrams_contract(False, True, 1, True, False)]
    if tier != "quick":
        cs += [plot_diagrams_contract(True, False, 1, True, True), plot_diagrams_contract(False, False, 1, False, False)]
    return cs, {}
