"""C17 (deductive part) - representations and graceful degradation.

determine_optimal_int_type(v):      the first of int8/16/32/64 whose maximum is >= v; ValueError when none is
make_distance_matrix_from_adjacency_matrix:
        connected graph    -> the shortest-path matrix (D10), cast to an integer type that can hold its maximum
        disconnected graph -> a warning, and the shortest-path matrix restricted to the largest connected component on
                              BOTH axes: square, finite, equal to DG[c][:, c]; never an exception
gromov_hausdorff:  pair call -> estimate(DX, DY) of the two distance matrices; collection call (N >= 2) -> symmetric
        matrices with zero diagonal whose (i, j) entries are the estimates of pair (i, j); N < 2 rejected.
        find_lb's call graph draws no random numbers (identical lower bounds for identical labelings).
"""
import ast
import os

import z3

from pyvc.arrays import Arr, fresh_symbolic
from pyvc.engine import Contract, REPO
from pyvc.values import BoolV, Num, b_and, b_not, b_or, ite, lift, num_eq, to_z3, zb

MOD = "persim/gromov_hausdorff.py"


def int_type_contract():
    def make_args(eng):
        v = eng.fresh_real("value")
        return {"value": v}, {}

    def raises(a):
        return [("too_large_for_int64", "ValueError", lift(a.value) > 2 ** 63 - 1)]

    def ensures(a, res):
        name = getattr(res, "name", None)
        mx = {"int8": 2 ** 7 - 1, "int16": 2 ** 15 - 1, "int32": 2 ** 31 - 1, "int64": 2 ** 63 - 1}
        ok = name in mx
        out = [("returns_a_signed_integer_type", ok, "P")]
        if ok:
            out.append(("type_can_hold_the_value", lift(a.value) <= mx[name], "P"))
            smaller = [m for n, m in mx.items() if m < mx[name]]
            out.append(("no_smaller_type_could", b_and(*[lift(a.value) > m for m in smaller]) if smaller else True, "P"))
        return out
    return Contract(MOD, "determine_optimal_int_type", make_args, ensures=ensures, raises=raises, definedness="P")


def cast_contract(dtype="float"):
    """cast_distance_matrix_to_optimal_int_type on a matrix of finite non-negative distances (float64 from shortest_path, or integer):
    same shape, every entry keeps its integer value - in particular the chosen type is wide enough for every entry, not only for one
    (engine obligation on sized integer casts: no wrap-around) - in a fresh buffer; more than 2^63 - 1 is rejected"""
    def make_args(eng):
        n = eng.fresh_int("n_DX", lo=1)
        DX = fresh_symbolic("DX", (n, n), dtype=dtype, origin="param:DX", eng=eng, **({"finite": True} if dtype == "float" else {}))
        return {"DX": DX}, {"n": n, "DX": DX}

    def requires(a):
        i, j = z3.Ints("cq_i cq_j")
        DX = a.g["DX"]
        return [("entries_non_negative", z3.ForAll([i, j], z3.Implies(z3.And(i >= 0, i < to_z3(a.g["n"]), j >= 0, j < to_z3(a.g["n"])), DX.uf(i, j) >= 0),
                                                   patterns=[DX.uf(i, j)]))]

    def raises(a):
        e, DX = a.eng, a.g["DX"]
        i, j = z3.Ints("rq_i rq_j")
        big = z3.Exists([i, j], z3.And(i >= 0, i < to_z3(a.g["n"]), j >= 0, j < to_z3(a.g["n"]), DX.uf(i, j) > 2 ** 63 - 1))
        return [("some_entry_exceeds_int64", "ValueError", big)]

    def ensures(a, res):
        from pyvc.values import to_int_trunc
        e, DX = a.eng, a.g["DX"]
        i = e.fresh_int("qi", lo=0, hi=a.g["n"])
        j = e.fresh_int("qj", lo=0, hi=a.g["n"])
        return [("same_shape", b_and(res.ndim == 2, lift(res.shape[0]) == a.g["n"], lift(res.shape[1]) == a.g["n"]), "P"),
                ("integer_typed", res.kind == "int", "P"),
                ("every_entry_keeps_its_integer_value", lift(res.get(i, j)) == to_int_trunc(DX.get(i, j)), "P"),
                ("result_is_a_fresh_buffer", not (res.buf.origin or "").startswith("param:"), "P")]
    return Contract(MOD, "cast_distance_matrix_to_optimal_int_type", make_args, requires=requires, ensures=ensures, raises=raises, definedness="P",
                    variant="dtype=%s" % dtype)


# ---- dependency contracts for SciPy's graph routines (D10, D20), installed per path through the ghost state
class _Sps:
    def issparse(self, x):
        return False


def shortest_path_model(AG, directed=True, unweighted=False):
    from pyvc.values import cur
    e = cur()
    g = e.ghost
    n = AG.shape[0]
    DG = fresh_symbolic("DG", (n, n), dtype="float", finite=False, eng=e)
    comp = z3.Function("component_of", z3.IntSort(), z3.IntSort())
    g["DG"], g["comp"], g["nG"] = DG, comp, n
    i, j = z3.Ints("spi spj")
    rng = z3.And(i >= 0, i < to_z3(n), j >= 0, j < to_z3(n))
    # D10 + D20: finite non-negative distance exactly between vertices of the same component, +inf otherwise
    e.axiom(z3.ForAll([i, j], z3.Implies(rng, z3.And(z3.Or(DG.kuf(i, j) == 0, DG.kuf(i, j) == 1), (DG.kuf(i, j) == 0) == (comp(i) == comp(j)),
                                                     z3.Implies(DG.kuf(i, j) == 0, DG.uf(i, j) >= 0))), patterns=[DG.kuf(i, j)]))
    return DG


def connected_components_model(AG, directed=True):
    from pyvc.values import cur
    e = cur()
    g = e.ghost
    n = AG.shape[0]
    comp = g["comp"]
    nc = e.fresh_int("n_components", lo=1)
    labels = Arr((n,), lambda idx: Num(comp(to_z3(idx[0]))), dtype="int")
    q = z3.Int("ccq")
    e.axiom(z3.ForAll([q], z3.Implies(z3.And(q >= 0, q < to_z3(n)), z3.And(comp(q) >= 0, comp(q) < nc.t)), patterns=[comp(q)]))
    return (nc, labels)


def make_dm_contract(kind):
    """kind: 'connected' | 'disconnected'"""
    def make_args(eng):
        n = eng.fresh_int("n_vertices", lo=1)
        AG = fresh_symbolic("AG", (n, n), dtype="int", origin="param:AG", eng=eng)
        return {"AG": AG}, {"n": n}

    def hint_dg(st):
        e, g = st.eng, st.g
        DG, n = g["DG"], g["nG"]
        i, j = z3.Ints("hi hj")
        rng = z3.And(i >= 0, i < to_z3(n), j >= 0, j < to_z3(n))
        allfin = z3.ForAll([i, j], z3.Implies(rng, DG.kuf(i, j) == 0))
        e.assume(allfin if kind == "connected" else z3.Not(allfin))
        return []

    def hint_largest(st):
        st.g["L"] = st.largest_component
        return []

    def ensures(a, res):
        e, g = a.eng, a.g
        out = [("result_is_a_matrix", isinstance(res, Arr) and res.ndim == 2, "P")]
        if not (isinstance(res, Arr) and res.ndim == 2):
            return out
        out.append(("result_is_square", lift(res.shape[0]) == res.shape[1], "P"))
        i, j = e.fresh_int("ri", lo=0, hi=res.shape[0]), e.fresh_int("rj", lo=0, hi=res.shape[1])
        out.append(("result_entries_are_finite", lift(res.get(i, j)).finite(), "P"))
        warned = any("disconnected" in w for w in a.warnings)
        out.append(("warning_iff_disconnected", warned == (kind == "disconnected"), "P"))
        DG = g["DG"]
        if kind == "connected":
            out.append(("result_is_the_shortest_path_matrix", b_and(lift(res.shape[0]) == g["nG"], lift(res.get(i, j)) == g["cast"](DG.get(i, j))), "P"))
        else:
            info = g.get("sel")
            out.append(("largest_component_selected_on_both_axes", info is not None, "P"))
            if info is not None:
                out.append(("result_is_restriction_to_the_component", b_and(lift(res.shape[0]) == info.n, lift(res.get(i, j)) == g["cast"](DG.get(info.at(i), info.at(j)))), "P"))
                # ... and that component is a largest one: no vertex lies in a component with more vertices
                cnt, comp, L = g.get("label_count"), g["comp"], g.get("L")
                if cnt is None or L is None:
                    out.append(("component_sizes_consulted", False, "S"))
                else:
                    v = e.fresh_int("rv", lo=0, hi=g["nG"])
                    e.axiom(g["label_pos"](comp(v.t)) >= -1)          # instantiate the listing fact at v
                    out.append(("selected_rows_are_the_vertices_of_one_component", zb(info.mask_fn(v)) == zb(Num(comp(v.t)) == L), "P"))
                    out.append(("selected_component_is_a_largest_one", Num(cnt(comp(v.t))) <= Num(cnt(to_z3(L))), "P"))
        return out
    return Contract(MOD, "make_distance_matrix_from_adjacency_matrix", make_args, ensures=ensures, definedness="P", variant=kind,
                    hints=[("DG = shortest_path(", hint_dg)] + ([("largest_component = ", hint_largest)] if kind == "disconnected" else []))


def cast_summary(eng, pos, kw):
    """cast_distance_matrix_to_optimal_int_type on a finite matrix: same integer values (its own contract: determine_optimal_int_type)"""
    DX = pos[0]
    f = DX.snapshot_fn()
    k = eng.fresh_int("ck0", lo=0, hi=DX.shape[0])
    k2 = eng.fresh_int("ck1", lo=0, hi=DX.shape[1])
    eng.oblige("call.cast.requires.matrix_is_finite", lift(f((k, k2))).finite(), cls="P")
    from pyvc.values import to_int_trunc
    eng.ghost["cast"] = lambda v: to_int_trunc(v)
    axes = getattr(DX, "compress_axes", None)
    if axes is not None and axes[0] is not None and axes[0] is axes[1]:
        eng.ghost["sel"] = axes[0]          # rows and columns selected by the same mask
    return Arr(DX.shape, lambda idx: to_int_trunc(f(idx)), dtype="int")


def unique_counts_model(x, return_counts=False, axis=None):
    """np.unique(labels, return_counts=True): distinct labels and how often each occurs (D19) - only what the caller uses"""
    from pyvc.values import cur
    e = cur()
    if not return_counts:
        raise Exception("unexpected np.unique call")
    k = e.fresh_int("n_distinct", lo=1)
    vals = fresh_symbolic("distinct_labels", (k,), dtype="int", eng=e)
    cnt = z3.Function("label_count", z3.IntSort(), z3.IntSort())       # number of vertices carrying a label
    e.ghost["label_count"] = cnt
    cnts = Arr((k,), lambda idx: Num(cnt(to_z3(vals.get(idx[0])))), dtype="int")
    # every label that occurs is listed (position given by a witness function)
    posf = z3.Function("label_pos", z3.IntSort(), z3.IntSort())
    n = x.shape[0]
    q = z3.Int("ulq")
    xq = e.under(z3.And(q >= 0, q < to_z3(n)), lambda: to_z3(x.get(Num(q))))
    e.axiom(z3.ForAll([q], z3.Implies(z3.And(q >= 0, q < to_z3(n)), z3.And(posf(xq) >= 0, posf(xq) < k.t, vals.uf(posf(xq)) == xq)), patterns=[posf(xq)]))
    e.ghost["label_pos"] = posf
    return (vals, cnts)


# ----------------------------------------------------------------------------- gromov_hausdorff dispatch
def estimate_summary(eng, pos, kw):
    DX, DY = pos[0], pos[1]
    calls = eng.ghost.setdefault("estimate_calls", [])
    lb, ub = eng.fresh_real("lb%d" % len(calls)), eng.fresh_real("ub%d" % len(calls))
    calls.append({"DX": DX, "DY": DY, "lb": lb, "ub": ub, "order": kw.get("mapping_sample_size_order")})
    return (lb, ub)


def mdm_summary(eng, pos, kw):
    A = pos[0]
    made = eng.ghost.setdefault("made", [])
    D = fresh_symbolic("DM%d" % len(made), (eng.fresh_int("nv%d" % len(made), lo=1),) * 2, dtype="int", eng=eng)
    D.source = A
    made.append(D)
    return D


def gh_contract(form):
    """form: 'pair' | 'collection3' | 'collection1'"""
    def make_args(eng):
        mk = lambda nm: fresh_symbolic(nm, (eng.fresh_int("n_" + nm, lo=1),) * 2, dtype="int", origin="param:" + nm, eng=eng)
        order = Arr((2,), lambda idx: 0.5, dtype="float")
        if form == "pair":
            A, B = mk("AG"), mk("AH")
            return {"AG": A, "AH": B, "mapping_sample_size_order": order}, {"graphs": [A, B], "order": order}
        gs = [mk("G%d" % i) for i in range(3 if form == "collection3" else 1)]
        return {"AG": gs, "AH": None, "mapping_sample_size_order": order}, {"graphs": gs, "order": order}

    def raises(a):
        return [("fewer_than_two_graphs_rejected", "ValueError", form == "collection1")]

    def ensures(a, res):
        e, g = a.eng, a.g
        calls = e.ghost.get("estimate_calls", [])
        gs = g["graphs"]
        N = len(gs)
        out = []
        pairs = [(i, j) for i in range(N) for j in range(i + 1, N)]
        out.append(("one_estimate_per_unordered_pair", len(calls) == len(pairs), "P"))
        if len(calls) != len(pairs):
            return out
        for c, (i, j) in zip(calls, pairs):
            out.append(("pair_%d_%d_estimated_on_the_distance_matrices_of_graphs_%d_and_%d" % (i, j, i, j),
                        getattr(c["DX"], "source", None) is gs[i] and getattr(c["DY"], "source", None) is gs[j] and c["order"] is g["order"], "P"))
        if form == "pair":
            lb, ub = res
            out.append(("pair_call_returns_the_pair_of_estimates", b_and(lift(lb) == calls[0]["lb"], lift(ub) == calls[0]["ub"]), "P"))
            return out
        lbs, ubs = res
        for M, key in ((lbs, "lb"), (ubs, "ub")):
            ok = isinstance(M, Arr) and M.shape == (N, N)
            out.append(("%ss_is_NxN" % key, ok, "P"))
            if not ok:
                continue
            conds = []
            for i in range(N):
                conds.append(lift(M.get(i, i)) == 0)
            for c, (i, j) in zip(calls, pairs):
                conds.append(lift(M.get(i, j)) == c[key])
                conds.append(lift(M.get(j, i)) == c[key])
            out.append(("%ss_symmetric_zero_diagonal_entries_are_the_pairwise_estimates" % key, b_and(*conds), "P"))
        return out
    return Contract(MOD, "gromov_hausdorff", make_args, ensures=ensures, raises=raises, definedness="P", variant=form)


def rng_free_lower_bound():
    """syntactic obligation: no function reachable from find_lb calls numpy.random (identical lower bounds for identical labelings)"""
    from pyvc.engine import LemmaSet

    def fn(eng):
        src = open(os.path.join(REPO, MOD)).read()
        tree = ast.parse(src)
        funcs = {n.name: n for n in tree.body if isinstance(n, ast.FunctionDef)}
        seen, todo = set(), ["find_lb"]
        uses_rng = []
        while todo:
            f = todo.pop()
            if f in seen or f not in funcs:
                continue
            seen.add(f)
            for n in ast.walk(funcs[f]):
                if isinstance(n, ast.Attribute) and "random" in ast.unparse(n):
                    uses_rng.append((f, ast.unparse(n)))
                if isinstance(n, ast.Call) and isinstance(n.func, ast.Name):
                    todo.append(n.func.id)
                if isinstance(n, ast.Name) and n.id in ("random",):
                    uses_rng.append((f, n.id))
        rng_funcs = sorted({f for f in funcs if any(isinstance(n, ast.Attribute) and "np.random" in ast.unparse(n) for n in ast.walk(funcs[f]))})
        return [("call_graph_of_find_lb_contains_no_rng_call", z3.BoolVal(not uses_rng)),
                ("rng_is_used_only_by_the_upper_bound_heuristic", z3.BoolVal(set(rng_funcs) <= {"construct_mapping", "find_ub_of_min_distortion"})),
                ("find_lb_reaches_the_expected_helpers", z3.BoolVal({"find_largest_size_bounded_curvature", "confirm_lb_using_bounded_curvature", "check_assignment_feasibility"} <= seen))]
    return LemmaSet("C17.lower_bound_is_rng_free", fn)


def all_contracts(tier):
    cs = [int_type_contract(), cast_contract("float"), cast_contract("int"), make_dm_contract("connected"), make_dm_contract("disconnected"), gh_contract("pair"), gh_contract("collection3"),
          gh_contract("collection1"), rng_free_lower_bound()]
    C = Contract
    table = {(MOD, "estimate"): C(MOD, "estimate", None, summary=estimate_summary),
             (MOD, "cast_distance_matrix_to_optimal_int_type"): C(MOD, "cast_distance_matrix_to_optimal_int_type", None, summary=cast_summary),
             (MOD, "make_distance_matrix_from_adjacency_matrix"): C(MOD, "make_distance_matrix_from_adjacency_matrix", None, summary=mdm_summary),
             "__hooks": {"shortest_path": shortest_path_model, "connected_components": connected_components_model, "unique_counts": unique_counts_model}}
    return cs, table


def gh_table():
    C = Contract
    return {(MOD, "estimate"): C(MOD, "estimate", None, summary=estimate_summary),
            (MOD, "make_distance_matrix_from_adjacency_matrix"): C(MOD, "make_distance_matrix_from_adjacency_matrix", None, summary=mdm_summary)}
