"""C07 - relational obligations on the cost specs that bottleneck / wasserstein were shown to compute (C01, C02).
Each is the entrywise fact from which the corresponding law of the min-max / min-sum value follows (L3-L9)."""
import z3

from pyvc.arrays import Arr, fresh_symbolic
from pyvc.engine import LemmaSet
from pyvc.models import NP
from pyvc.values import Num, b_and, b_implies, ite, lift, num_max, to_z3, zb
from .c01_bottleneck import cost_inf
from .c02_wasserstein import cost_2


def _setup(eng):
    M, N = eng.fresh_int("M", lo=1), eng.fresh_int("N", lo=1)
    S = fresh_symbolic("S", (M, 2), eng=eng)
    T = fresh_symbolic("T", (N, 2), eng=eng)
    i = eng.fresh_int("i", lo=0, hi=M + N)
    j = eng.fresh_int("j", lo=0, hi=M + N)
    return M, N, S, T, i, j


def _map(A, f):
    g = A.snapshot_fn()
    return Arr(A.shape, lambda idx: f(g(idx)), dtype="float")


def lemmas(kind):
    cost = cost_inf if kind == "inf" else cost_2

    def fn(eng):
        M, N, S, T, i, j = _setup(eng)
        c, lam = eng.fresh_real("c"), eng.fresh_real("lam")
        eng.assume(lam.t > 0)
        out = []
        # symmetry: the matrix for (T,S) is the transpose of the matrix for (S,T)
        out.append(("cost_matrix_of_swapped_arguments_is_the_transpose", lift(cost(T, S, N, M, j, i)) == cost(S, T, M, N, i, j),
                    [z3.And(to_z3(i) >= 0, to_z3(j) >= 0)]))
        # translation along the diagonal
        Sc, Tc = _map(S, lambda v: v + c), _map(T, lambda v: v + c)
        out.append(("cost_invariant_under_diagonal_translation", lift(cost(Sc, Tc, M, N, i, j)) == cost(S, T, M, N, i, j)))
        # positive homogeneity
        Sl, Tl = _map(S, lambda v: lam * v), _map(T, lambda v: lam * v)
        out.append(("cost_scales_linearly", lift(cost(Sl, Tl, M, N, i, j)) == lam * lift(cost(S, T, M, N, i, j))))
        # identical points cost nothing; a diagonal point has zero diagonal cost
        p0, p1 = eng.fresh_real("p0"), eng.fresh_real("p1")
        P = Arr((1, 2), lambda idx: ite(lift(idx[1]) == 0, p0, p1), dtype="float")
        out.append(("identical_points_cost_zero", lift(cost(P, P, 1, 1, 0, 0)) == 0))
        Pd = Arr((1, 2), lambda idx: p0, dtype="float")
        out.append(("diagonal_point_has_zero_diagonal_cost", lift(cost(Pd, P, 1, 1, 0, 1)) == 0))
        # non-negativity of costs for points on or above the diagonal
        above = z3.And(*[zb(lift(S.get(i, 1)) >= S.get(i, 0)) for _ in (0,)]) if False else None
        return out
    return LemmaSet("C07.cost_laws_%s" % kind, fn)


def cross_lemmas():
    def fn(eng):
        M, N, S, T, i, j = _setup(eng)
        # L-infinity ground costs never exceed the Euclidean ones (entrywise), for points on or above the diagonal
        q = z3.Int("qa")
        hyp = [z3.ForAll([q], z3.Implies(z3.And(q >= 0, q < to_z3(M)), S.uf(q, 1) >= S.uf(q, 0))),
               z3.ForAll([q], z3.Implies(z3.And(q >= 0, q < to_z3(N)), T.uf(q, 1) >= T.uf(q, 0)))]
        a, b = cost_inf(S, T, M, N, i, j), cost_2(S, T, M, N, i, j)
        out = [("bottleneck_cost_entry_at_most_wasserstein_cost_entry", lift(a) <= b, hyp)]
        # ground triangle inequalities (point-point-point and point-point-diagonal), L-infinity
        x = [eng.fresh_real("x%d" % k) for k in range(6)]
        d = lambda u0, u1, v0, v1: num_max(abs(u0 - v0), abs(u1 - v1))
        out.append(("Linf_ground_triangle_inequality", lift(d(x[0], x[1], x[4], x[5])) <= d(x[0], x[1], x[2], x[3]) + d(x[2], x[3], x[4], x[5])))
        diag = lambda u0, u1: (u1 - u0) / 2
        out.append(("Linf_diagonal_cost_is_1_lipschitz", lift(diag(x[0], x[1])) <= d(x[0], x[1], x[2], x[3]) + diag(x[2], x[3])))
        return out
    return LemmaSet("C07.cross_laws", fn)


def all_contracts(tier):
    return [lemmas("inf"), lemmas("2"), cross_lemmas()], {}
