"""C01 / C06 / C07 - persim.bottleneck.bottleneck

Segments (cut by hints keyed on statements of the real source):
  filter      S, T = rows of dgm1, dgm2 with finite death, in order (D6), or [[0,0]] when none; M, N >= 1;
              a warning iff a row was dropped; the arguments are never written (frame)
  matrix      forall i,j < M+N.  D[i,j] == cost_inf(S,T)(i,j)
  candidates  ds0 = strictly increasing array of the distinct entries of D (D7)
  search      least feasible candidate: invariant over the ghost window [lo, hi) into ds0
                 ds == ds0[lo:hi];  forall k < lo. not feas(k);  feas(min(hi,K-1)) and bdist == ds0[min(hi,K-1)]
              where feas(k) := "the threshold graph {(i,j) : D[i,j] <= ds0[k]} has a perfect matching".
              The inner loop builds exactly that graph (invariant over i); Hopcroft-Karp is contract D3.
  result      bdist == ds0[k*], feas(k*), forall k < k*. not feas(k)      (L1: = min over matchings of the max cost)
  matching    (C06) rows <-> points, cost column, max == bdist
"""
import z3

from pyvc.arrays import Arr, fresh_symbolic
from pyvc.engine import Contract, FmtKey, LemmaSet, LoopContract
from pyvc.models import AppendList, HKResult, NP, PrefixEnum, SymDict, SymSet
from pyvc.values import BoolV, Num, b_and, b_implies, b_not, b_or, ite, lift, mkbool, num_eq, num_max, to_z3, zb

MOD = "persim/bottleneck.py"
INF = float("inf")


# ----------------------------------------------------------------------------- spec
def cost_inf(S, T, M, N, i, j):
    """entry (i,j) of the augmented (M+N)x(M+N) L-infinity cost matrix of the statement"""
    def pp():
        return num_max(abs(S.get(i, 0) - T.get(j, 0)), abs(S.get(i, 1) - T.get(j, 1)))

    def sdiag():
        return ite(num_eq(j - N, i), (S.get(i, 1) - S.get(i, 0)) / 2, INF)

    def tdiag():
        return ite(num_eq(i - M, j), (T.get(j, 1) - T.get(j, 0)) / 2, INF)
    from pyvc.values import cur
    e = cur()
    ci, cj = zb(lift(i) < M), zb(lift(j) < N)
    a = e.under(z3.And(ci, cj), pp, default=0.0)
    b = e.under(z3.And(ci, z3.Not(cj)), sdiag, default=0.0)
    c = e.under(z3.And(z3.Not(ci), cj), tdiag, default=0.0)
    return ite(mkbool(ci), ite(mkbool(cj), a, b), ite(mkbool(cj), c, 0.0))


def sym_input(eng, name, dtype="float"):
    """a diagram as the caller stores it: float array (deaths may be +inf) or integer array (all finite)"""
    if dtype in ("empty1d:dgm1", "empty1d:dgm2"):
        if dtype.endswith(name):
            # the empty diagram as `[]` / `np.array([])` arrives with shape (0,), not (0, 2); the specification reads it as no rows
            a = Arr((0,), lambda idx: 0.0, dtype="float", origin="param:" + name)
            a.as2d = Arr((0, 2), lambda idx: 0.0, dtype="float")
            return a, 0
        dtype = "float"
    n = eng.fresh_int("n_" + name, lo=0)
    a = fresh_symbolic(name, (n, 2), dtype=dtype, origin="param:" + name, finite=(dtype != "float"), eng=eng)
    return a, n


def input_requires(a):
    out = []
    for name in ("dgm1", "dgm2"):
        D = getattr(a, name)
        if getattr(D, "kuf", None) is None:
            continue                      # integer-typed diagram: every entry is finite by its type
        q = z3.Int("rq_" + name)
        out.append(("%s_births_finite_deaths_finite_or_plus_inf" % name,
                    z3.ForAll([q], z3.Implies(z3.And(q >= 0, q < to_z3(D.shape[0])), z3.And(D.kuf(q, 0) == 0, D.kuf(q, 1) >= 0)),
                              patterns=[D.kuf(q, 1)])))
    return out


# class of the filter-stage clauses: WHICH rows enter the matching problem is a choice of the implementation - the property only fixes
# the value (and the warning).  A change that drops, say, zero-persistence points as well keeps every distance; so a refuted clause of
# this stage is reported only with a failing input found by the replay search (DESIGN 10.3), otherwise the proof is undecided.
FC = "S"


def make_cut_filter():
    # -- filter stage (cut A) ---------------------------------------------------------------
    def cut_filter(st):
        e, g = st.eng, st.g
        out = []
        for nm, arg, var, cnt in (("dgm1", st.dgm1, "S", "M"), ("dgm2", st.dgm2, "T", "N")):
            X, c = st.env.lookup(var), st.env.lookup(cnt)
            arg = getattr(arg, "as2d", arg)
            spec = arg[NP.isfinite(arg[:, 1]), :]      # D6 (canonical per mask)
            ns = spec.shape[0]
            any_fin = lift(ns) >= 1
            out.append(("%s_count" % var, lift(c) == ite(any_fin, ns, 1), FC))
            out.append(("%s_shape" % var, b_and(lift(X.shape[0]) == c, X.shape[1] == 2), FC))
            k = e.fresh_int("kf_" + var, lo=0, hi=c)
            for col in (0, 1):
                want = 0.0 if (isinstance(ns, int) and ns == 0) else ite(any_fin, e.under(zb(any_fin), lambda: spec.get(k, col)), 0.0)
                out.append(("%s_rows_are_finite_death_rows_col%d" % (var, col), lift(X.get(k, col)) == want, FC))
                out.append(("%s_entries_finite_col%d" % (var, col), lift(X.get(k, col)).finite(), FC))
            dropped = b_and(lift(arg.shape[0]) > 0, lift(ns) < arg.shape[0])
            warned = any(nm in w for w in e.warnings)
            out.append(("warning_iff_infinite_rows_dropped_%s" % nm, dropped if warned else b_not(dropped), "P"))

        def make(st2):
            e2 = st2.eng
            M, N = e2.fresh_int("M", lo=1), e2.fresh_int("N", lo=1)
            S = fresh_symbolic("S", (M, 2), dtype="float", eng=e2)
            T = fresh_symbolic("T", (N, 2), dtype="float", eng=e2)
            return {"env": {"S": S, "T": T, "M": M, "N": N, "return_matching": st2.env.lookup("matching")}}
        return {"ob": out, "make": make}

    return cut_filter


# ----------------------------------------------------------------------------- contract
def bottleneck_contract(want_matching, dtype="float"):
    def make_args(eng):
        d1, n1 = sym_input(eng, "dgm1", dtype)
        d2, n2 = sym_input(eng, "dgm2", dtype)
        g = {"n1": n1, "n2": n2, "feas": z3.Function("feasK", z3.IntSort(), z3.BoolSort())}
        g["hk_hook"] = hk_hook
        return {"dgm1": d1, "dgm2": d2, "matching": want_matching}, g

    cut_filter = make_cut_filter()

    # -- matrix stage (cut B) ----------------------------------------------------------------
    def cut_matrix(st):
        e, g = st.eng, st.g
        M, N, S, T = st.M, st.N, st.S, st.T
        i = e.fresh_int("mi", lo=0, hi=M + N)
        j = e.fresh_int("mj", lo=0, hi=M + N)
        out = [("D_is_square_of_size_M_plus_N", b_and(lift(st.D.shape[0]) == M + N, lift(st.D.shape[1]) == M + N), "P"),
               ("D_is_augmented_Linf_cost_matrix", lift(st.D.get(i, j)) == cost_inf(S, T, M, N, i, j), "P")]

        def make(st2):
            D = Arr((M + N, M + N), lambda idx: cost_inf(S, T, M, N, idx[0], idx[1]), dtype="float")
            st2.g["D"] = D
            st2.g["M_"], st2.g["N_"] = M, N
            return {"env": {"D": D, "S": S, "T": T, "M": M, "N": N, "return_matching": st2.env.lookup("matching")},
                    "assume": [z3.And(to_z3(M) >= 1, to_z3(N) >= 1)]}
        return {"ob": out, "make": make}

    def hint_candidates(st):
        g = st.g
        g["ds0"] = st.ds
        g["K"] = st.ds.shape[0]
        # the largest candidate admits every edge: complete bipartite graph, perfect matching exists (D3/L1)
        st.eng.assume(g["feas"](to_z3(g["K"]) - 1))
        a, b = z3.Ints("fa fb")
        st.eng.assume(z3.ForAll([a, b], z3.Implies(z3.And(a <= b, g["feas"](a)), g["feas"](b)), patterns=[z3.MultiPattern(g["feas"](a), g["feas"](b))]))
        return [("candidates_exist", lift(g["K"]) >= 1, "S")]

    def hint_init_ghost(st):
        def then():
            st.env.set("__lo", 0)
        return [("then", then)]

    # -- search loop ---------------------------------------------------------------------
    def window(st):
        g = st.g
        lo = st.env.lookup("__lo")
        hi = lo + st.ds.shape[0]
        return lo, hi

    def ds0_at(g, k):
        return g["ds0"].elem(k)

    def inv_search(st):
        e, g = st.eng, st.g
        K = g["K"]
        lo, hi = window(st)
        top = ite(lift(hi) < K, hi, K - 1)
        ql = z3.Int(e.uniq("ql"))
        out = [("window_in_range", b_and(lift(lo) >= 0, lift(lo) <= hi, lift(hi) <= K), "S"),
               ("ds_is_window_of_candidates", st.each([(0, st.ds.shape[0])], lambda q: lift(st.ds.get(q)) == ds0_at(g, lo + q), name="w"), "S"),
               ("candidates_below_bdist_infeasible", z3.ForAll([ql], z3.Implies(z3.And(ql >= 0, ql < to_z3(lo), ql < to_z3(top)), z3.Not(g["feas"](ql))), patterns=[g["feas"](ql)]), "P"),
               ("candidates_left_of_window_infeasible", z3.ForAll([ql], z3.Implies(z3.And(ql >= 0, ql < to_z3(lo)), z3.Not(g["feas"](ql))), patterns=[g["feas"](ql)]), "P", ("only:C06",)),
               ("bdist_is_feasible_candidate", b_and(BoolV(g["feas"](to_z3(top))), lift(st.bdist) == ds0_at(g, top)), "P")]
        m = st.matching
        if isinstance(m, dict):
            out.append(("matching_unset_only_before_first_success", lift(hi) == K, "S", ("only:C06",)))
        else:
            out.append(("matching_is_perfect_at_bdist", b_and(m.perfect, lift(hi) < K, lift(m.threshold_index) == top), "P", ("only:C06",)))
        return out

    def havoc_ds(st):
        e, g = st.eng, st.g
        lo = e.fresh_int("lo", lo=0)
        ln = e.fresh_int("len_ds", lo=0)
        e.assume(lo.t + ln.t <= to_z3(g["K"]))
        st.env.set("__lo", lo)
        ds0 = g["ds0"]
        a = Arr((ln,), lambda idx: ds0.elem(lo + idx[0]), dtype="float")
        a.strictly_increasing = True
        return a

    def havoc_bdist(st):
        return st.eng.fresh_real("bdist", maybe_inf=True)

    def havoc_matching(st):
        e, g = st.eng, st.g
        if e.decide("matching_set"):
            m = threshold_matching(e, g, e.fresh_int("tidx", lo=0, hi=g["K"]))
            e.assume(zb(m.perfect))
            return m
        return {}

    def hint_shrink_right(st):
        # ds = ds[idx + 1::]  ->  the window's left end moves past idx
        def then():
            st.env.set("__lo", st.env.lookup("__lo_prev") + st.idx + 1)
        return [("then", then)]

    def hint_probe(st):
        # d = ds[idx]: remember the window start of this iteration (ds is re-bound later)
        def then():
            st.env.set("__lo_prev", st.env.lookup("__lo"))
            st.env.set("__kidx", st.env.lookup("__lo") + st.idx)
        return [("probe_index_in_window", b_and(lift(st.idx) >= 0, lift(st.idx) < st.ds.shape[0]), "S"), ("then", then)]

    # -- inner loop: graph == threshold graph ----------------------------------------------
    def havoc_graph(st):
        e = st.eng
        G = z3.Function(e.uniq("Gedge"), z3.IntSort(), z3.IntSort(), z3.BoolSort())
        k = st.env.lookup("__k_loop1") if st.env.has("__k_loop1") else None
        d = SymDict(has=lambda key: (isinstance(key, FmtKey) and b_and(lift(key.i) >= 0, lift(key.i) < st.env.lookup("__gsize"))),
                    get=lambda key: SymSet(lambda j: mkbool(G(to_z3(key.i), to_z3(j)))), size=None)
        d.G = G
        return d

    def edge_spec(st, i, j):
        D = st.D
        n = D.shape[1]
        inr = b_and(lift(j) >= 0, lift(j) < n)
        le = st.eng.under(zb(b_and(inr, lift(i) >= 0, lift(i) < D.shape[0])), lambda: lift(D.get(i, j)) <= st.d)
        return b_and(inr, le)

    def inv_graph(st):
        e = st.eng
        st.env.set("__gsize", st.k)
        gr = st.graph
        if isinstance(gr, dict):
            if len(gr) == 0:
                return [("graph_prefix_built", lift(st.k) == 0, "S")]
            return [("graph_shape", False, "S")]
        return [("graph_prefix_is_threshold_graph",
                 st.each([(0, st.k), (None, None)], lambda i, j: zb(gr.load(FmtKey(i)).mem(j)) == zb(edge_spec(st, i, j)), name="g"), "P")]

    # -- result ------------------------------------------------------------------------------
    def ensures(a, res):
        e, g = a.eng, a.g
        out = []
        if "ds0" not in g:
            return [("reached_search", False, "S")]
        bd = res[0] if want_matching else res
        kstar = e.fresh_int("kstar", lo=0, hi=g["K"])
        ql = z3.Int(e.uniq("qe"))
        least = z3.Exists([kstar.t] if False else [], z3.BoolVal(True)) if False else None
        # bdist is the least feasible candidate: exists k*. bdist == ds0[k*] and feas(k*) and forall k<k*. not feas(k)
        ks = z3.Int(e.uniq("ks"))
        body = z3.And(ks >= 0, ks < to_z3(g["K"]), zb(lift(bd) == g["ds0"].elem(Num(ks))), g["feas"](ks),
                      z3.ForAll([ql], z3.Implies(z3.And(ql >= 0, ql < ks), z3.Not(g["feas"](ql)))))
        out.append(("bdist_is_least_feasible_candidate", z3.Exists([ks], body), "P"))
        if want_matching:
            out += matching_post(a, res[1], bd)
        return out

    # -- matching extraction (C06) -------------------------------------------------------
    def rowspec(st_or_g, m, M, N, D, i):
        j = m.load(FmtKey(i))
        return [ite(lift(i) < M, i, -1), ite(lift(j) < N, j, -1), D.get(i, j)]

    def get_pe(st):
        g = st.g
        if "pe" not in g:
            m = st.matching
            M, N = st.M, st.N
            g["m"] = m
            g["pe"] = PrefixEnum(st.eng, M + N, lambda i: b_or(lift(i) < M, lift(m.load(FmtKey(i))) < N), "rows")
        return g["pe"]

    def havoc_matchidx(st):
        pe = get_pe(st)
        k = st.env.lookup("__k_loop2")
        m, M, N, D = st.g["m"], st.M, st.N, st.D
        return AppendList(pe.count_upto(k), lambda r: rowspec(st, m, M, N, D, pe.source(r)))

    def inv_rows(st):
        if isinstance(st.matching, dict):
            return [("matching_available", False, "P", ("only:C06",))]
        pe = get_pe(st)
        m, M, N, D = st.g["m"], st.M, st.N, st.D
        if not isinstance(st.k, int):
            pe.count_upto(st.k - 1)
        ml = st.matchidx
        n_rows = ml.n if not isinstance(ml, list) else len(ml)

        def row_ok(r):
            got = ml.get(r) if not isinstance(ml, list) else None
            want = rowspec(st, m, M, N, D, pe.source(r))
            return b_and(*[lift(x) == y for x, y in zip(got, want)])
        out = [("row_count_is_number_of_selected_sources", lift(n_rows) == pe.count_upto(st.k), "P", ("only:C06",))]
        if not isinstance(ml, list):
            out.append(("rows_are_selected_sources_in_order", st.each([(0, n_rows)], row_ok, name="r"), "P", ("only:C06",)))
        return out

    def matching_post(a, R, bd):
        e, g = a.eng, a.g
        if "pe" not in g:
            return [("matching_rows_produced", False, "P", ("only:C06",))]
        pe, m, D = g["pe"], g["m"], g["D"]
        M, N = g["M_"], g["N_"]
        out = [("matching_has_three_columns", b_and(lift(R.shape[0]) == pe.total, R.shape[1] == 3), "P", ("only:C06",))]
        # (a) every point of dgm1 appears in exactly one row
        i = e.fresh_int("pi", lo=0, hi=M)
        r = e.fresh_int("pr", lo=0, hi=pe.total)
        ri = pe.row_of(i)
        out.append(("each_dgm1_point_has_a_row", b_and(lift(ri) >= 0, lift(ri) < pe.total, lift(R.get(ri, 0)) == i), "P", ("only:C06",)))
        out.append(("each_dgm1_point_has_one_row_only", b_implies(lift(R.get(r, 0)) == i, lift(r) == ri), "P", ("only:C06",)))
        # (b) every point of dgm2 appears in exactly one row
        j = e.fresh_int("pj", lo=0, hi=N)
        src = m.preimage(j)
        rj = pe.row_of(src)
        mj = m.load(FmtKey(src))
        out.append(("each_dgm2_point_has_a_row", b_and(lift(rj) >= 0, lift(rj) < pe.total, lift(R.get(rj, 1)) == j), "P", ("only:C06",)))
        out.append(("each_dgm2_point_has_one_row_only", b_implies(lift(R.get(r, 1)) == j, lift(r) == rj), "P", ("only:C06",)))
        # (c) third entry is the cost of that pairing under the bottleneck cost rule (D is the cost matrix, cut B),
        #     never above the reported distance
        sr = pe.source(r)
        cost = D.get(sr, m.load(FmtKey(sr)))
        out.append(("row_cost_is_cost_matrix_entry_of_the_pair", lift(R.get(r, 2)) == cost, "P", ("only:C06",)))
        out.append(("row_costs_do_not_exceed_distance", lift(R.get(r, 2)) <= bd, "P", ("only:C06",)))
        out.append(("row_indices_in_range_or_minus_one",
                    b_and(b_or(lift(R.get(r, 0)) == -1, b_and(lift(R.get(r, 0)) >= 0, lift(R.get(r, 0)) < M)),
                          b_or(lift(R.get(r, 1)) == -1, b_and(lift(R.get(r, 1)) >= 0, lift(R.get(r, 1)) < N))), "P", ("only:C06",)))
        return out

    loops = {0: LoopContract("while len(ds)", inv_search, variant=lambda st: st.ds.shape[0],
                             havoc={"ds": havoc_ds, "bdist": havoc_bdist, "matching": havoc_matching}, cls="S"),
             1: LoopContract("for i in range(D.shape[0])", inv_graph, havoc={"graph": havoc_graph}, cls="S"),
             2: LoopContract("for i in range(M + N)", inv_rows, havoc={"matchidx": havoc_matchidx}, cls="P")}
    return Contract(MOD, "bottleneck", make_args, requires=input_requires, ensures=ensures, definedness="P",
                    loops=loops, variant="matching=%s%s" % (want_matching, "" if dtype == "float" else ",dtype=" + dtype),
                    cuts=[("Sb, Sd = S[:, 0], S[:, 1]", cut_filter), ("ds = np.sort(np.unique(D.flatten()))", cut_matrix)],
                    hints=[("ds = np.sort(np.unique(D.flatten()))", hint_candidates), ("matching = {}", hint_init_ghost),
                           ("d = ds[idx]", hint_probe), ("ds = ds[idx + 1:]", hint_shrink_right)])


def threshold_matching(e, g, kidx):
    """HKResult for the threshold graph of D at candidate index kidx: perfect iff feas(kidx)"""
    D = g["D"]
    n = D.shape[0]
    thr = g["ds0"].elem(kidx)
    gr = SymDict(has=lambda key: b_and(lift(key.i) >= 0, lift(key.i) < n),
                 get=lambda key: SymSet(lambda j: b_and(lift(j) >= 0, lift(j) < n,
                                                        e.under(zb(b_and(lift(j) >= 0, lift(j) < n, lift(key.i) >= 0, lift(key.i) < n)),
                                                                lambda: lift(D.get(key.i, j)) <= thr))), size=n)
    m = HKResult(e, gr, n)
    e.assume(zb(m.perfect) == g["feas"](to_z3(kidx)))
    m.threshold_index = kidx
    return m


def hk_hook(e, graph):
    """D3 applied at the call site: the dict handed to HopcroftKarp must be the threshold graph of D at d = ds0[kidx]"""
    env = e.top_env
    g = e.ghost
    D, d = env.lookup("D"), env.lookup("d")
    kidx = env.lookup("__kidx")
    n = D.shape[0]
    i = e.fresh_int("hi_", lo=0, hi=n)
    j = e.fresh_int("hj_")
    inr = b_and(lift(j) >= 0, lift(j) < n)
    le = e.under(zb(inr), lambda: lift(D.get(i, j)) <= d)
    if isinstance(graph, dict):
        e.oblige("hk.graph_is_threshold_graph", False, cls="P", detail="graph is a concrete dict")
    else:
        e.oblige("hk.graph_has_every_left_vertex", zb(graph.has(FmtKey(i))), cls="P")
        e.oblige("hk.graph_is_threshold_graph", zb(graph.load(FmtKey(i)).mem(j)) == zb(b_and(inr, le)), cls="P")
    e.oblige("hk.threshold_is_the_probed_candidate", lift(d) == g["ds0"].elem(kidx), cls="S")
    return threshold_matching(e, g, kidx)


def all_contracts(tier):
    cs = [bottleneck_contract(False), bottleneck_contract(True), bottleneck_contract(False, "int"),
          # an empty diagram handed over as [] / np.array([]) (shape (0,)) on either side
          bottleneck_contract(False, "empty1d:dgm1"), bottleneck_contract(True, "empty1d:dgm2")]
    return cs, {}
