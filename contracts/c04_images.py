"""C04 / C11 - persistence image pixels.

_transform:  forall a < rb, c < rp.
     img[a, c] == Sum_{i<n}  w_i * ( K_i(B[a+1],P[c+1]) - K_i(B[a],P[c+1]) - K_i(B[a+1],P[c]) + K_i(B[a],P[c]) )
   with (b_i, p_i) the i-th point in birth-persistence coordinates (p_i = d_i - b_i when skew), w_i = weight(b_i, p_i, **params),
   K_i = kernel CDF centred at (b_i, p_i), B/P the pixel corner grids (_bpnts / _ppnts); first image axis is birth.
   The isotropic-Gaussian fast path and the general path satisfy the same clause with the same K (product of marginals).
linear_ramp:  w[k] == low below start, high above end, linear in between.
"""
import z3

from pyvc.arrays import Arr, elementwise, fresh_symbolic
from pyvc.engine import Contract, LoopContract
from pyvc.models import NP
from pyvc.values import Num, b_and, ite, lift, num_max, num_min, num_pow, to_real, to_z3, zb
from specs.sigma import Sigma
from .c13_kernels import Phi, bvn_spec, bvn_summary, sbvn_summary
from .common import sym_diagram, sym_vector

MOD = "persim/images.py"
KMOD = "persim/images_kernels.py"
WMOD = "persim/images_weights.py"

_UW = z3.Function("user_weight", z3.RealSort(), z3.RealSort(), z3.RealSort())
_UK = z3.Function("user_kernel", z3.RealSort(), z3.RealSort(), z3.RealSort(), z3.RealSort(), z3.RealSort())


def user_weight(birth, pers, **params):
    return elementwise(lambda b, p: Num(_UW(to_real(to_z3(b)), to_real(to_z3(p)))), birth, pers, dtype="float")


def user_kernel(x, y, mu=None, **params):
    m0, m1 = mu.get(0), mu.get(1)
    return elementwise(lambda xv, yv: Num(_UK(to_real(to_z3(xv)), to_real(to_z3(yv)), to_real(to_z3(m0)), to_real(to_z3(m1)))), x, y, dtype="float")


def ramp_value(p, low, high, start, end):
    return ite(lift(p) < start, low, ite(lift(p) > end, high, (p - start) * (high - low) / (end - start) + low))


# ----------------------------------------------------------------------------- linear_ramp
def ramp_args(eng, dtype="float"):
    b, n = sym_vector(eng, "birth", dtype=dtype)
    p, _ = sym_vector(eng, "pers", n=n, dtype=dtype)
    vs = {k: eng.fresh_real(k) for k in ("low", "high", "start", "end")}
    eng.assume(vs["start"].t < vs["end"].t)
    return dict(birth=b, pers=p, **vs), {"n": n}


def linear_ramp_contract(dtype="float"):
    """dtype='int': births / persistences of an integer-typed diagram - the weights are real numbers all the same"""
    def ensures(a, res):
        e = a.eng
        k = e.fresh_int("kq", lo=0, hi=a.g["n"])
        return [("one_weight_per_point", lift(res.shape[0]) == a.g["n"], "P"),
                ("weight_is_piecewise_linear_ramp", lift(res.get(k)) == ramp_value(a.pers.get(k), a.low, a.high, a.start, a.end), "P")]

    def inv(st):
        return [("prefix_filled", st.each([(0, st.k)], lambda k: lift(st.w.get(k)) == ramp_value(st.pers.get(k), st.low, st.high, st.start, st.end), name="w"), "P")]
    return Contract(WMOD, "linear_ramp", (lambda eng: ramp_args(eng, dtype)), ensures=ensures, definedness="P", loops={0: LoopContract("for i in range(n)", inv, cls="P")},
                    summary=ramp_summary, variant="" if dtype == "float" else "dtype=%s" % dtype)


def persistence_weight_contract(n_kind):
    """persim.images_weights.persistence: one weight per point, the n-th power of its persistence and nothing else (births ignored);
    n_kind 1 / 2 / 3: polynomial spec;  'real': any exponent, abstract power of (A6) - then the clause pins the dependence on the
    persistence and the exponent alone; 'default': n omitted -> the persistence itself"""
    def make_args(eng):
        b, n = sym_vector(eng, "birth")
        p, _ = sym_vector(eng, "pers", n=n)
        a = dict(birth=b, pers=p)
        if n_kind == "real":
            a["n"] = eng.fresh_real("n_exp")
            eng.assume(a["n"].t > 0)
        elif n_kind != "default":
            a["n"] = float(n_kind)
        return a, {"n": n}

    def ensures(a, res):
        e = a.eng
        k = e.fresh_int("kq", lo=0, hi=a.g["n"])
        pk = a.pers.get(k)
        want = {"default": lambda: pk, 1: lambda: pk, 2: lambda: pk * pk, 3: lambda: pk * pk * pk, "real": lambda: num_pow(pk, a.n)}[n_kind]()
        return [("one_weight_per_point", lift(res.shape[0]) == a.g["n"], "P"),
                ("weight_is_power_of_persistence", lift(res.get(k)) == want, "P")]

    def requires(a):
        if n_kind != "real":
            return []
        i = z3.Int("pw_i")       # a fractional power needs a non-negative base (persistences are)
        return [("persistences_non_negative", z3.ForAll([i], z3.Implies(z3.And(i >= 0, i < to_z3(a.g["n"])), a.pers.uf(i) >= 0), patterns=[a.pers.uf(i)]))]
    return Contract(WMOD, "persistence", make_args, requires=requires, ensures=ensures, definedness="P", variant="n=%s" % n_kind)


def ramp_summary(eng, pos, kw):
    names = ["birth", "pers", "low", "high", "start", "end"]
    a = {"low": 0.0, "high": 1.0, "start": 0.0, "end": 1.0}
    a.update(dict(zip(names, pos)))
    a.update(kw)
    return elementwise(lambda p: ramp_value(p, a["low"], a["high"], a["start"], a["end"]), a["pers"], dtype="float")


# ----------------------------------------------------------------------------- _transform
KERNELS = ("gauss_scalar", "gauss_iso", "gauss_diag", "gauss_corr", "uniform", "user")


def transform_contract(kernel_kind, weight_kind="user", skew=True, dtype="float"):
    def make_args(eng):
        D, n = sym_diagram(eng, "pers_dgm", dtype=dtype)
        rb, rp = eng.fresh_int("rb", lo=1), eng.fresh_int("rp", lo=1)
        B, _ = sym_vector(eng, "_bpnts", n=rb + 1)
        P, _ = sym_vector(eng, "_ppnts", n=rp + 1)
        km = eng.module(KMOD)
        g = {"n": n, "rb": rb, "rp": rp, "B": B, "P": P, "D": D}
        s = eng.fresh_real("s")
        s2 = eng.fresh_real("s2")
        s12 = eng.fresh_real("s12")
        eng.assume(z3.And(s.t > 0, s2.t > 0))
        if kernel_kind == "gauss_scalar":
            kernel, kp = km.lookup("gaussian"), {"sigma": s}
            K = lambda x, y, m0, m1: Phi((x - m0) / NP.sqrt(s)) * Phi((y - m1) / NP.sqrt(s))
        elif kernel_kind == "gauss_iso":
            kernel, kp = km.lookup("gaussian"), {"sigma": [[s, 0.0], [0.0, s]]}
            K = lambda x, y, m0, m1: Phi((x - m0) / NP.sqrt(s)) * Phi((y - m1) / NP.sqrt(s))
        elif kernel_kind == "gauss_diag":
            eng.assume(s.t != s2.t)
            kernel, kp = km.lookup("gaussian"), {"sigma": [[s, 0.0], [0.0, s2]]}
            K = lambda x, y, m0, m1: Phi((x - m0) / NP.sqrt(s)) * Phi((y - m1) / NP.sqrt(s2))
        elif kernel_kind == "gauss_corr":
            eng.assume(z3.And(s12.t != 0, s12.t * s12.t < s.t * s2.t))
            kernel, kp = km.lookup("gaussian"), {"sigma": [[s, s12], [s12, s2]]}
            K = lambda x, y, m0, m1: bvn_spec(x, y, m0, m1, s, s2, s12)
        elif kernel_kind == "uniform":
            kernel, kp = km.lookup("uniform"), {"width": s, "height": s2}
            K = lambda x, y, m0, m1: num_min(num_max((x - (m0 - s / 2)) / s, 0), 1) * num_min(num_max((y - (m1 - s2 / 2)) / s2, 0), 1)
        else:
            kernel, kp = user_kernel, {}
            K = lambda x, y, m0, m1: Num(_UK(to_real(to_z3(x)), to_real(to_z3(y)), to_real(to_z3(m0)), to_real(to_z3(m1))))
        wm = eng.module(WMOD)
        if weight_kind == "persistence":
            weight, wp = wm.lookup("persistence"), {"n": 1.0}
            W = lambda b, p: p
        elif weight_kind == "linear_ramp":
            lo, hi, st_, en = [eng.fresh_real(k) for k in ("low", "high", "start", "end")]
            eng.assume(st_.t < en.t)
            weight, wp = wm.lookup("linear_ramp"), {"low": lo, "high": hi, "start": st_, "end": en}
            W = lambda b, p: ramp_value(p, lo, hi, st_, en)
        else:
            weight, wp = user_weight, {}
            W = lambda b, p: Num(_UW(to_real(to_z3(b)), to_real(to_z3(p))))
        pt = lambda i: (D.get(i, 0), (D.get(i, 1) - D.get(i, 0)) if skew else D.get(i, 1))

        def term(a, c, i):
            b, p = pt(i)
            mass = K(B.get(a + 1), P.get(c + 1), b, p) - K(B.get(a), P.get(c + 1), b, p) - K(B.get(a + 1), P.get(c), b, p) + K(B.get(a), P.get(c), b, p)
            return W(b, p) * mass
        g["S"] = Sigma(eng, "PixelSum", 2, term)
        return {"pers_dgm": D, "skew": skew, "resolution": (rb, rp), "weight": weight, "weight_params": wp, "kernel": kernel,
                "kernel_params": kp, "_bpnts": B, "_ppnts": P}, g

    def inv(st):
        g = st.g
        S = g["S"]

        def pix(a, c):
            if st.mode == "prove" and not isinstance(st.k, int):
                S.unfold(a, c, st.k - 1)
            return lift(st.pers_img.get(a, c)) == S.upto(a, c, st.k)
        return [("pixels_are_partial_weighted_mass_sums", st.each([(0, g["rb"]), (0, g["rp"])], pix, name="px"), "P")]

    def havoc_img(tag):
        def f(st):
            g = st.g
            k = st.env.lookup("__k_" + tag)
            S = g["S"]
            return Arr((g["rb"], g["rp"]), lambda idx: S.upto(idx[0], idx[1], k), dtype="float")
        return f

    def ensures(a, res):
        e, g = a.eng, a.g
        aa = e.fresh_int("qa", lo=0, hi=g["rb"])
        cc = e.fresh_int("qc", lo=0, hi=g["rp"])
        return [("image_shape_is_resolution_birth_axis_first", b_and(res.ndim == 2, lift(res.shape[0]) == g["rb"], lift(res.shape[1]) == g["rp"]), "P"),
                ("pixel_is_weighted_kernel_mass", lift(res.get(aa, cc)) == g["S"].upto(aa, cc, g["n"]), "P")]

    return Contract(MOD, "_transform", make_args, ensures=ensures, definedness="assume",
                    loops={0: LoopContract("for i in range(n)", inv, cls="P", havoc={"pers_img": havoc_img("loop0")}),
                           1: LoopContract("for i in range(n)", inv, cls="P", havoc={"pers_img": havoc_img("loop1")})},
                    variant="%s,%s,skew=%s%s" % (kernel_kind, weight_kind, skew, "" if dtype == "float" else ",dtype=" + dtype))


def table():
    from pyvc.engine import Contract as C
    return {(KMOD, "sbvn_cdf"): C(KMOD, "sbvn_cdf", None, summary=sbvn_summary),
            (KMOD, "bvn_cdf"): C(KMOD, "bvn_cdf", None, summary=bvn_summary),
            (WMOD, "linear_ramp"): C(WMOD, "linear_ramp", None, summary=ramp_summary)}


def all_contracts(tier):
    cs = [linear_ramp_contract()]
    for k in KERNELS:
        cs.append(transform_contract(k, "user", True))
    cs.append(transform_contract("gauss_iso", "persistence", False))
    cs.append(transform_contract("gauss_diag", "linear_ramp", True))
    cs.append(transform_contract("uniform", "persistence", False))
    # integer-typed diagrams (int arrays, nested lists of ints): same pixels
    cs.append(linear_ramp_contract("int"))
    cs.append(transform_contract("gauss_diag", "linear_ramp", True, dtype="int"))
    cs.append(transform_contract("uniform", "persistence", True, dtype="int"))
    cs += [persistence_weight_contract(k) for k in ("default", 1, 2, 3, "real")]
    t = table()
    return cs, t


# ----------------------------------------------------------------------------- C11 / C18: PersistenceImager.transform dispatch
class ImgResult:
    """what a modular call of _transform returns: the image of `bound` (parameter name -> value)"""

    def __init__(self, bound):
        self.bound = bound


def transform_summary(eng, pos, kw):
    f = eng.module(MOD).lookup("_transform")
    from pyvc.engine import Env
    env = Env(parent=f.env, module=f.module)
    eng.bind_params(f.node.args, pos, kw, env, f)
    return ImgResult({k: v for k, v in env.vars.items()})


def same(a, b):
    if a is b:
        return True
    if isinstance(a, tuple) and isinstance(b, tuple) and len(a) == len(b):
        return all(same(x, y) for x, y in zip(a, b))
    if isinstance(a, (int, float, bool)) and isinstance(b, (int, float, bool)):
        return a == b
    return False


def imager_transform_contract(form, n_jobs=None, skew=True):
    """form: 'empty' | 'single' | 'list2'"""
    from .c12_imager import CLS, get_cls, make_wf_object

    def make_args(eng):
        o = make_wf_object(eng, get_cls(eng))
        o.fields.update({"weight": user_weight, "kernel": user_kernel, "weight_params": {"wp": 1}, "kernel_params": {"kp": 2}})
        ds = []
        if form == "empty":
            X = fresh_symbolic("X0", (0, 2), dtype="float", origin="param:pers_dgms", eng=eng)
            ds = []
        else:
            for i in range(1 if form == "single" else 2):
                n = eng.fresh_int("n%d" % i, lo=1)
                ds.append(fresh_symbolic("X%d" % i, (n, 2), dtype="float", origin="param:pers_dgms[%d]" % i, eng=eng))
            X = ds[0] if form == "single" else list(ds)
        return {"self": o, "pers_dgms": X, "skew": skew, "n_jobs": n_jobs}, {"o": o, "ds": ds, "old": dict(o.fields)}

    def ensures(a, res):
        g = a.g
        o = g["o"]
        f = o.fields
        out = [("fitted_state_untouched", all(f[k] is g["old"][k] for k in g["old"]) and set(f) == set(g["old"]), "P")]
        if form == "empty":
            rb, rp = f["_resolution"]
            ok = isinstance(res, Arr) and res.ndim == 2
            out.append(("empty_diagram_gives_array", ok, "P"))
            if ok:
                e = a.eng
                i, j = e.fresh_int("zi", lo=0, hi=rb), e.fresh_int("zj", lo=0, hi=rp)
                out.append(("empty_diagram_gives_zero_image_of_resolution",
                            b_and(lift(res.shape[0]) == rb, lift(res.shape[1]) == rp, lift(res.get(i, j)) == 0), "P"))
            return out
        items = [res] if form == "single" else res
        if form == "single":
            out.append(("single_diagram_gives_single_image", isinstance(res, ImgResult), "P"))
        else:
            out.append(("collection_gives_list_of_images_in_order", isinstance(res, list) and len(res) == len(g["ds"]), "P"))
        if not all(isinstance(r, ImgResult) for r in (items if isinstance(items, list) else [])):
            return out + [("every_image_comes_from__transform", False, "S")]
        want_keys = {"pers_dgm", "skew", "resolution", "weight", "weight_params", "kernel", "kernel_params", "_bpnts", "_ppnts"}
        for k, (r, D) in enumerate(zip(items, g["ds"])):
            b = r.bound
            exp = {"pers_dgm": D, "skew": skew, "resolution": f["_resolution"], "weight": f["weight"], "weight_params": f["weight_params"],
                   "kernel": f["kernel"], "kernel_params": f["kernel_params"], "_bpnts": f["_bpnts"], "_ppnts": f["_ppnts"]}
            out.append(("image_%d_is__transform_of_diagram_%d_with_the_imager_parameters" % (k, k),
                        set(b) >= want_keys and all(same(b[key], exp[key]) for key in want_keys), "P"))
        return out
    return Contract(MOD, CLS + ".transform", make_args, ensures=ensures, definedness="P",
                    variant="%s,n_jobs=%s,skew=%s" % (form, n_jobs, skew))


def c11_contracts(tier):
    cs = [imager_transform_contract("empty"), imager_transform_contract("single"), imager_transform_contract("list2"),
          imager_transform_contract("list2", n_jobs=2), imager_transform_contract("single", n_jobs=1, skew=False),
          imager_transform_contract("list2", n_jobs=4, skew=False), transform_contract("user", "user", True), transform_contract("user", "user", False)]
    t = table()
    t[(MOD, "_transform")] = Contract(MOD, "_transform", None, summary=transform_summary)
    return cs, t
