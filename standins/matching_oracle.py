"""independent oracles for C01/C02/C06/C07: bottleneck and Wasserstein distances between small diagrams computed
from the statement (partial matchings with the diagonal), sharing no code with persim"""
import itertools
import math


def _finite(dgm):
    return [tuple(map(float, p[:2])) for p in dgm if math.isfinite(float(p[1]))]


def _costs(A, B, kind):
    """cost matrix of the augmented assignment problem: rows A then |B| diagonal slots; cols B then |A| diagonal slots"""
    m, n = len(A), len(B)
    N = m + n
    big = float("inf")
    C = [[0.0] * N for _ in range(N)]
    for i in range(N):
        for j in range(N):
            if i < m and j < n:
                dx, dy = abs(A[i][0] - B[j][0]), abs(A[i][1] - B[j][1])
                C[i][j] = max(dx, dy) if kind == "inf" else math.hypot(dx, dy)
            elif i < m:
                C[i][j] = ((A[i][1] - A[i][0]) / (2.0 if kind == "inf" else math.sqrt(2.0))) if j - n == i else big
            elif j < n:
                C[i][j] = ((B[j][1] - B[j][0]) / (2.0 if kind == "inf" else math.sqrt(2.0))) if i - m == j else big
            else:
                C[i][j] = 0.0
    return C


def _perfect_matching_exists(C, thr):
    N = len(C)
    match = [-1] * N

    def aug(i, seen):
        for j in range(N):
            if C[i][j] <= thr and not seen[j]:
                seen[j] = True
                if match[j] < 0 or aug(match[j], seen):
                    match[j] = i
                    return True
        return False
    for i in range(N):
        if not aug(i, [False] * N):
            return False
    return True


def bottleneck_oracle(dgm1, dgm2):
    A, B = _finite(dgm1), _finite(dgm2)
    if not A and not B:
        return 0.0
    C = _costs(A, B, "inf")
    cands = sorted({c for row in C for c in row if math.isfinite(c)})
    lo, hi = 0, len(cands) - 1
    while lo < hi:
        mid = (lo + hi) // 2
        if _perfect_matching_exists(C, cands[mid]):
            hi = mid
        else:
            lo = mid + 1
    return cands[lo]


def wasserstein_oracle(dgm1, dgm2):
    A, B = _finite(dgm1), _finite(dgm2)
    if not A and not B:
        return 0.0
    C = _costs(A, B, "2")
    N = len(C)
    if N <= 7:
        best = float("inf")
        for perm in itertools.permutations(range(N)):
            s = 0.0
            for i, j in enumerate(perm):
                s += C[i][j]
                if s >= best:
                    break
            best = min(best, s)
        return best
    # larger: Hungarian via scipy on *our* matrix with a finite stand-in for inf
    import numpy as np
    from scipy.optimize import linear_sum_assignment
    M = np.array(C)
    fin = M[np.isfinite(M)]
    M[~np.isfinite(M)] = fin.sum() * 2 + 1
    r, c = linear_sum_assignment(M)
    return float(M[r, c].sum())


def pair_cost(p, q, kind):
    """cost of pairing p with q, either may be None (= diagonal)"""
    div = 2.0 if kind == "inf" else math.sqrt(2.0)
    if p is None and q is None:
        return 0.0
    if p is None:
        return (q[1] - q[0]) / div
    if q is None:
        return (p[1] - p[0]) / div
    dx, dy = abs(p[0] - q[0]), abs(p[1] - q[1])
    return max(dx, dy) if kind == "inf" else math.hypot(dx, dy)


def check_certificate(dgm1, dgm2, dist, rows, kind, tol):
    """C06: rows certify dist.  Returns list of problems (empty = certificate valid)."""
    A, B = _finite(dgm1), _finite(dgm2)
    if not A:
        A = [(0.0, 0.0)]
    if not B:
        B = [(0.0, 0.0)]
    bad = []
    seen1, seen2 = {}, {}
    costs = []
    for r in rows:
        i, j, c = int(r[0]), int(r[1]), float(r[2])
        if float(r[0]) != i or float(r[1]) != j:
            bad.append("non-integer index in row %s" % (list(r),))
            continue
        if not (-1 <= i < len(A)) or not (-1 <= j < len(B)):
            bad.append("index out of range in row %s" % (list(r),))
            continue
        if i == -1 and j == -1:
            bad.append("diagonal-diagonal row present")
        if i >= 0:
            seen1[i] = seen1.get(i, 0) + 1
        if j >= 0:
            seen2[j] = seen2.get(j, 0) + 1
        want = pair_cost(A[i] if i >= 0 else None, B[j] if j >= 0 else None, kind)
        if abs(c - want) > tol:
            bad.append("row %s: cost %r but pairing costs %r" % ([i, j, c], c, want))
        costs.append(c)
    for i in range(len(A)):
        if seen1.get(i, 0) != 1:
            bad.append("point %d of diagram 1 appears in %d rows" % (i, seen1.get(i, 0)))
    for j in range(len(B)):
        if seen2.get(j, 0) != 1:
            bad.append("point %d of diagram 2 appears in %d rows" % (j, seen2.get(j, 0)))
    agg = (max(costs) if costs else 0.0) if kind == "inf" else math.fsum(costs)
    if abs(agg - dist) > tol:
        bad.append("%s of row costs %r differs from the reported distance %r" % ("max" if kind == "inf" else "sum", agg, dist))
    return bad


def small_diagrams(max_pts=2, lattice=(0.0, 1.0, 2.0, 3.0), with_inf=False):
    pts = [(b, d) for b in lattice for d in lattice if d >= b]
    if with_inf:
        pts = pts + [(lattice[0], float("inf"))]
    for n in range(max_pts + 1):
        for combo in itertools.combinations_with_replacement(pts, n):
            yield [list(p) for p in combo]
