"""exact modified Gromov-Hausdorff distance between small connected graphs (brute force over all maps), from the definition"""
import itertools

import numpy as np


def dist_matrix(A):
    """all-pairs shortest paths of an unweighted undirected graph given by a (possibly upper-triangular) adjacency matrix"""
    A = np.asarray(A)
    n = A.shape[0]
    S = ((A + A.T) > 0).astype(int)
    D = np.full((n, n), np.inf)
    for s in range(n):
        D[s, s] = 0
        frontier, seen, d = [s], {s}, 0
        while frontier:
            d += 1
            nxt = []
            for u in frontier:
                for v in range(n):
                    if S[u, v] and v not in seen:
                        seen.add(v)
                        D[s, v] = d
                        nxt.append(v)
            frontier = nxt
    return D


def largest_component(A):
    D = dist_matrix(A)
    n = len(D)
    comps, seen = [], set()
    for s in range(n):
        if s in seen:
            continue
        c = [v for v in range(n) if np.isfinite(D[s, v])]
        seen.update(c)
        comps.append(c)
    best = max(comps, key=len)
    return best, comps


def min_distortion(DX, DY):
    n, m = len(DX), len(DY)
    best = np.inf
    for f in itertools.product(range(m), repeat=n):
        dis = 0
        for a in range(n):
            for b in range(a + 1, n):
                dis = max(dis, abs(DX[a, b] - DY[f[a], f[b]]))
                if dis >= best:
                    break
            if dis >= best:
                break
        best = min(best, dis)
    return best


def mgh(A, B):
    DX, DY = dist_matrix(A), dist_matrix(B)
    return 0.5 * max(min_distortion(DX, DY), min_distortion(DY, DX))


def connected_graphs(n, rng=None, all_labelled=False):
    """adjacency matrices (symmetric 0/1) of connected simple graphs on n labelled vertices"""
    pairs = [(i, j) for i in range(n) for j in range(i + 1, n)]
    for mask in range(1, 1 << len(pairs)):
        A = np.zeros((n, n), dtype=int)
        for k, (i, j) in enumerate(pairs):
            if mask >> k & 1:
                A[i, j] = A[j, i] = 1
        if np.isfinite(dist_matrix(A)).all():
            yield A


def relabel(A, perm):
    A = np.asarray(A)
    return A[np.ix_(perm, perm)]


def min_distortion_bb(DX, DY):
    """inf over all maps f: X -> Y of dis f, by backtracking with pruning on the partial distortion (exact)"""
    DX, DY = np.asarray(DX), np.asarray(DY)
    n, m = len(DX), len(DY)
    # assign far-apart points first: large distances constrain most
    order = list(np.argsort(-DX.sum(axis=1), kind="stable"))
    best = [float(max(DX.max(), DY.max()))]       # the constant map's distortion is diam X; any map is <= max of diameters
    img = [0] * n

    def rec(pos, cur):
        if cur >= best[0]:
            return
        if pos == n:
            best[0] = cur
            return
        x = order[pos]
        for y in range(m):
            c = cur
            for q in range(pos):
                xa = order[q]
                dd = abs(DX[x, xa] - DY[y, img[q]])
                if dd > c:
                    c = dd
                    if c >= best[0]:
                        break
            if c < best[0]:
                img[pos] = y
                rec(pos + 1, c)
                if best[0] == 0:
                    return
    rec(0, 0.0)
    return best[0]


def mgh_bb(A, B):
    DX, DY = dist_matrix(A), dist_matrix(B)
    return 0.5 * max(min_distortion_bb(DX, DY), min_distortion_bb(DY, DX))


def _from_edges(n, edges):
    A = np.zeros((n, n), dtype=int)
    for u, v in edges:
        A[u, v] = A[v, u] = 1
    return A


def spider(legs):
    """a centre with legs of the given lengths"""
    edges, n = [], 1
    for L in legs:
        prev = 0
        for _ in range(L):
            edges.append((prev, n))
            prev = n
            n += 1
    return _from_edges(n, edges)


def cycle_with_leaves(c, leaves):
    """a c-cycle; leaves[i] pendant vertices hang on cycle vertex i"""
    edges = [(i, (i + 1) % c) for i in range(c)]
    n = c
    for i, k in enumerate(leaves):
        for _ in range(k):
            edges.append((i, n))
            n += 1
    return _from_edges(n, edges)


def structured_shapes(max_n=7):
    """paths, stars, brooms, spiders, cycles with pendant leaves - shapes of diameter >= 3 with many equidistant points,
    where the curvature-based confirmation of the lower bound is actually reached"""
    out = {}
    for legs in ([1, 1, 1], [2, 1, 1], [2, 2, 1], [3, 1, 1], [2, 2, 2], [4, 1], [3, 2], [1, 1, 1, 1], [2, 1, 1, 1], [3, 1, 1, 1], [1, 1, 1, 1, 1], [2, 1, 1, 1, 1], [3, 2, 1], [4, 1, 1], [5], [6], [4]):
        A = spider(legs)
        if len(A) <= max_n:
            out["spider%s" % legs] = A
    for c, leaves in ((3, [1, 0, 0]), (3, [2, 1, 0]), (4, [1, 0, 0, 0]), (4, [3, 0, 0, 0]), (4, [1, 0, 1, 0]), (4, [2, 0, 0, 0]), (5, [1, 0, 0, 0, 0]), (5, [2, 0, 0, 0, 0]), (4, [1, 1, 1, 0]), (3, [2, 2, 0]), (6, [0] * 6), (5, [0] * 5), (4, [0] * 4)):
        A = cycle_with_leaves(c, leaves)
        if len(A) <= max_n:
            out["C%d+%s" % (c, leaves)] = A
    return out
