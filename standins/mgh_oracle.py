"""exact modified Gromov-Hausdorff distance between small connected graphs (brute force over all maps), from the definition"""
import itertools

import numpy as np


def dist_matrix(A):
    """all-pairs shortest paths of an unweighted undirected graph given by a (possibly upper-triangular) adjacency matrix"""
    A = np.asarray(A)
    n = A.shape[0]
    S = ((A + A.T) > 0).astype(int)
    D = np.full((n, n), np.inf)
    for s in range(n):
        D[s, s] = 0
        frontier, seen, d = [s], {s}, 0
        while frontier:
            d += 1
            nxt = []
            for u in frontier:
                for v in range(n):
                    if S[u, v] and v not in seen:
                        seen.add(v)
                        D[s, v] = d
                        nxt.append(v)
            frontier = nxt
    return D


def largest_component(A):
    D = dist_matrix(A)
    n = len(D)
    comps, seen = [], set()
    for s in range(n):
        if s in seen:
            continue
        c = [v for v in range(n) if np.isfinite(D[s, v])]
        seen.update(c)
        comps.append(c)
    best = max(comps, key=len)
    return best, comps


def min_distortion(DX, DY):
    n, m = len(DX), len(DY)
    best = np.inf
    for f in itertools.product(range(m), repeat=n):
        dis = 0
        for a in range(n):
            for b in range(a + 1, n):
                dis = max(dis, abs(DX[a, b] - DY[f[a], f[b]]))
                if dis >= best:
                    break
            if dis >= best:
                break
        best = min(best, dis)
    return best


def mgh(A, B):
    DX, DY = dist_matrix(A), dist_matrix(B)
    return 0.5 * max(min_distortion(DX, DY), min_distortion(DY, DX))


def connected_graphs(n, rng=None, all_labelled=False):
    """adjacency matrices (symmetric 0/1) of connected simple graphs on n labelled vertices"""
    pairs = [(i, j) for i in range(n) for j in range(i + 1, n)]
    for mask in range(1, 1 << len(pairs)):
        A = np.zeros((n, n), dtype=int)
        for k, (i, j) in enumerate(pairs):
            if mask >> k & 1:
                A[i, j] = A[j, i] = 1
        if np.isfinite(dist_matrix(A)).all():
            yield A


def relabel(A, perm):
    A = np.asarray(A)
    return A[np.ix_(perm, perm)]
